"""Shared harness of the evaluator properties: runs histories of evaluations on the real library with the
instrumented vocabulary and renders outcomes exactly like lean/LiquerModel/Handlers/Eval.lean."""
import vocab
from vocab import canon
from common import hx

READY = "ready"


def hexs(s):
    return hx(s)


def opt_hex(s):
    return "~" if s is None else hx(s)


def render_vars(vs):
    return ";".join(sorted("%s=%s" % (hx(k) if isinstance(k, str) else "?" + repr(k), canon(v)) for k, v in vs.items()))


def err_info(st):
    """(position offset, query) the failure is reported with"""
    try:
        st.get()
    except Exception as e:  # noqa
        p = getattr(e, "position", None)
        return (None if p is None or p.line == 0 and p.offset == 0 and p.column == 0 else p.offset), getattr(e, "query", None), type(e).__name__
    return None, None, None


def render_state(st):
    m = st.metadata
    attrs = dict(m.get("attributes", {}))
    attrs.pop("volatile", None)
    if st.is_error:
        pos, q, _ = err_info(st)
        v, epos, equery = "ERR", ("~" if pos is None else str(pos)), opt_hex(q)
    else:
        v, epos, equery = canon(st.data), "~", "~"
    cmds = m.get("commands") or []
    return ("ST v=%s err=%s vars=%s vol=%s caching=%s fn=%s ext=%s cmd=%s attrs=%s epos=%s equery=%s query=%s" % (
        v, "1" if st.is_error else "0", "" if st.is_error else render_vars(st.vars), "1" if st.is_volatile() else "0", "1" if m.get("caching", True) else "0",
        opt_hex(m.get("filename")), opt_hex(m.get("extension")), ",".join(hx(x) for x in (cmds[-1] if cmds else [])),
        ";".join(sorted("%s=%s" % (hx(k), hx(str(x))) for k, x in attrs.items())), epos, equery, hx(m.get("query") or "")))


def render_outcome(f):
    """f() -> State; maps exceptions to the model's outcome classes"""
    from pyparsing import ParseException
    from liquer.state import EvaluationException
    try:
        st = f()
    except ParseException:
        return "PARSEERR"
    except EvaluationException as e:
        p = getattr(e, "position", None)
        return "RAISED pos=%s q=%s" % ("~" if p is None else p.offset, opt_hex(getattr(e, "query", None)))
    except Exception as e:
        return "EXC " + type(e).__name__
    return render_state(st)


def render_cache(cache):
    """data-bearing entries only: key=value, sorted"""
    items = []
    try:
        keys = list(cache.keys())
    except Exception:
        keys = []
    for k in sorted(set(keys)):
        try:
            st = cache.get(k)
        except Exception:
            st = None
        if st is not None:
            items.append("%s=%s" % (hx(k), canon(st.data)))
    return ";".join(sorted(items))


def observe_nolog(f):
    """like observe() but leaves the global call log alone (several evaluations interleave in C12)"""
    return observe(f, clear=False)


def observe(f, clear=True):
    """structured observation of one evaluation call f() -> State"""
    from pyparsing import ParseException
    from liquer.state import EvaluationException
    if clear:
        vocab.CALLS.clear()
    o = dict(kind="state")
    try:
        st = f()
    except ParseException:
        return dict(kind="parse-error", calls=list(vocab.CALLS))
    except EvaluationException as e:
        p = getattr(e, "position", None)
        return dict(kind="raised", pos=None if p is None else p.offset, query=getattr(e, "query", None), calls=list(vocab.CALLS))
    except Exception as e:
        return dict(kind="exception", exc=type(e).__name__, calls=list(vocab.CALLS))
    m = st.metadata
    o["is_error"] = bool(st.is_error)
    o["status"] = m.get("status")
    get_raises = False
    try:
        v = st.get()
    except Exception as e:
        get_raises, v = True, None
        p = getattr(e, "position", None)
        o["epos"] = None if p is None or (p.line == 0 and p.offset == 0) else p.offset
        o["equery"] = getattr(e, "query", None)
    o["get_raises"] = get_raises
    o["value"] = None if get_raises else canon(v)
    o["vars"] = {k: canon(x) for k, x in st.vars.items()}
    cmds = m.get("commands") or []
    o["last"] = cmds[-1] if cmds else None
    o["volatile"] = st.is_volatile()
    o["caching"] = m.get("caching", True)
    o["filename"], o["extension"] = m.get("filename"), m.get("extension")
    o["query"] = m.get("query")
    o["calls"] = list(vocab.CALLS)
    o["metadata"] = m
    return o


class Session:
    """one global cache, a sequence of operations; mirrors `eval.session` of the driver"""

    def __init__(self, cache, defaults=None):
        import liquer.state as S
        from liquer.cache import set_cache
        vocab.register()
        S._vars = dict(defaults or {})
        self.cache = cache
        set_cache(cache)

    def run(self, op):
        from liquer.context import get_context
        vocab.CALLS.clear()
        kind = op[0]
        if kind == "E":
            out = render_outcome(lambda: get_context().evaluate(op[1]))
        elif kind == "V":
            out = render_outcome(lambda: get_context().evaluate_on(op[2], op[1]) if op[3] else get_context().evaluate(op[1], input_value=op[2]))
        elif kind == "XL":
            out = render_outcome(lambda: get_context().evaluate(op[1], extra_parameters=list(op[2])))
        elif kind == "XD":
            out = render_outcome(lambda: get_context().evaluate(op[1], extra_parameters=dict(op[2])))
        elif kind == "R":
            self.cache.remove(op[1])
            out = "OK"
        elif kind == "C":
            self.cache.clean()
            out = "OK"
        else:
            raise ValueError(op)
        return "%s # %s # %s" % (out, ",".join(vocab.CALLS), render_cache(self.cache))


def op_wire(op):
    kind = op[0]
    if kind == "E":
        return "E:" + hx(op[1])
    if kind == "V":
        return "V:%s:%s:%s" % (hx(op[1]), canon(op[2]), "1" if op[3] else "0")
    if kind == "XL":
        return "XL:%s:%s" % (hx(op[1]), ";".join(canon(v) for v in op[2]) or ";")
    if kind == "XD":
        return "XD:%s:%s" % (hx(op[1]), ";".join("%s=%s" % (hx(k), canon(v)) for k, v in op[2].items()) or "-")
    if kind == "R":
        return "R:" + hx(op[1])
    return "C"


def session_wire(ops, defaults=None, keep=True):
    d = ";".join("%s=%s" % (hx(k), canon(v)) for k, v in (defaults or {}).items()) or "-"
    return "eval.session %s %s %s" % ("1" if keep else "0", d, " ".join(op_wire(o) for o in ops))


# ------------------------------------------------------------------ type-directed query generator
PLAIN = ["a", "b", "xy", "1", "2", "10", "-3", "0", "", "a b", "x/y", "a-b", "~", "true", "no", "0.5", "1e3", "abc", "é", "N", "root", "alt", "q"]


def enc(s):
    from liquer.parser import encode_token
    return encode_token(s)


def g_arg(rng, ty, depth, spell=True):
    """text of one argument of the given type (mostly valid)"""
    r = rng.random()
    if depth > 0 and r < 0.18:
        q = g_query(rng, depth - 1, rng.choice([1, 1, 2]), first=rng.random() < 0.5)
        return "~X~" + ("/" if rng.random() < 0.5 else "") + q + "~E"
    if ty == "int":
        v = rng.choice(["1", "2", "5", "10", "-3", "0", "007", "+4", "1_000"]) if rng.random() < 0.85 else rng.choice(PLAIN)
    elif ty == "float":
        v = rng.choice(vocab.FLOAT_POOL)
    elif ty == "bool":
        v = rng.choice(["y", "yes", "n", "no", "t", "true", "f", "false", "True", "YES", "1", "0", "x", ""])
    else:
        v = rng.choice(PLAIN)
    e = enc(v)
    if spell and rng.random() < 0.12 and v:
        # non-canonical spelling of the same text
        c = v[0]
        alt = {"-": rng.choice(["~_", "%2D"]), "/": rng.choice(["~/", "~I", "%2F"]), " ": rng.choice(["~.", "%20"]), "~": "~~"}.get(c, "%%%02X" % ord(c) if ord(c) < 128 else None)
        if alt is not None and not (c == "-" and len(v) > 1 and v[1].isdigit()):
            e = alt + enc(v[1:])
        elif c == "-" and len(v) > 1 and v[1].isdigit():
            e = "~" + enc(v[1:])
    return e


SIGS = {  # name -> (first?, [arg types...], variadic?)  -- only used to *generate* mostly well-typed queries
    "one": (True, [], False), "num": (True, ["int"], False), "hello": (True, ["str"], False), "vals": (True, [], True),
    "add": (False, ["int"], False), "cat": (False, ["str"], False), "rep": (False, ["int", "str"], False),
    "argsc": (False, ["str", "int"], True), "fl": (False, ["float"], False), "bo": (False, ["bool"], False), "ident": (False, [], False),
    "boom": (False, [], False), "vol": (False, [], False), "nvol": (False, [], False), "nocache": (False, [], False), "app": (False, ["str"], False),
    "attr1": (False, [], False), "attr2": (False, [], False), "getvar": (False, ["var"], False), "state_variable": (False, ["var"], False),
    "let": (False, ["var", "str"], False), "flag": (False, ["var", "bool"], False), "ns": (False, [], "ns"), "only": (False, [], False),
    "sub": (False, ["query"], False), "zzz": (False, [], False), "tnum": (False, [], False),
}
COMMON = ["tnum", "add", "add", "cat", "cat", "ident", "nvol", "argsc", "bo", "fl", "rep", "let", "getvar", "flag", "ns", "attr1", "attr2", "app", "state_variable", "only"]
SPECIAL = ["boom", "vol", "nocache", "zzz", "sub"]
VARS = ["a", "b", "x", "flagged"]


def g_action(rng, depth, first, special=0.12):
    if first:
        name = rng.choice(["one", "one", "num", "hello", "vals", "vals"] + (["add", "ident", "cat", "tnum", "tnum"] if rng.random() < 0.12 else []))
    else:
        name = rng.choice(SPECIAL) if rng.random() < special else rng.choice(COMMON + (["one", "vals"] if rng.random() < 0.1 else []))
    isfirst, types, variadic = SIGS[name]
    args = []
    r = rng.random()
    n = len(types)
    if r < 0.12 and n:
        n = rng.randint(0, n - 1)          # missing (defaults / too few)
    elif r < 0.18:
        n = n + rng.randint(1, 2)          # surplus (too many, or variadic tail)
    for i in range(n):
        ty = types[i] if i < len(types) else "str"
        if ty == "var":
            args.append(rng.choice(VARS))
        elif ty == "query":
            args.append(enc(g_query(rng, 0, rng.choice([1, 2]))))
        else:
            args.append(g_arg(rng, ty, depth))
    if variadic == "ns":
        args += [rng.choice(["alt", "root", "zz"]) for _ in range(rng.randint(0, 2))]
    elif variadic:
        args += [g_arg(rng, "str", depth) for _ in range(rng.randint(0, 3))]
    return "-".join([name] + args)


def g_query(rng, depth, nactions=None, first=True, special=0.12):
    n = nactions or rng.randint(1, 6)
    acts = [g_action(rng, depth, first and i == 0, special) for i in range(n)]
    q = "/".join(acts)
    r = rng.random()
    if r < 0.08:
        i = rng.randint(1, len(acts))
        q = "/".join(acts[:i] + [rng.choice(["out.txt", "r.json", "x.tar.GZ", "data.pickle"])] + acts[i:])
    elif r < 0.12 and len(acts) > 1:
        i = rng.randint(1, len(acts) - 1)
        q = "/".join(acts[:i]) + "/" + rng.choice(["-", "-x", "--ns-p"]) + "/" + "/".join(acts[i:])
    return q
