"""Independent reference interpreter of a parsed query (the oracle of C01, and of C04-C06/C09 for expectations).

It knows nothing of Context / cache / State: it folds the registered Python functions over the parsed query.
Conversions follow the *annotations and defaults of the functions themselves* (inspect.signature), not the
library's argument parsers. Result: dict(value | error, vars, last, calls) or raises RefRaise for a failing link.
"""
import inspect
from copy import deepcopy

TRUE = {"y": True, "yes": True, "n": False, "no": False, "t": True, "true": True, "f": False, "false": False}


class RefFail(Exception):
    """the step fails: the result is an error"""


class RefRaise(Exception):
    """a link argument failed: the evaluation call itself raises"""

    def __init__(self, pos):
        self.pos = pos


class Unsupported(Exception):
    pass


class FakeState:
    """what a `state`-taking command sees"""

    def __init__(self, data, vars):
        self.data, self.vars = data, vars

    def get(self):
        return self.data

    def with_data(self, d):
        self.data = d
        return self


class Ref:
    def __init__(self, registry, defaults):
        self.reg = registry
        self.defaults = defaults

    def steps(self, q):
        from liquer.parser import TransformQuerySegment
        out = []
        for seg in q.segments:
            if not isinstance(seg, TransformQuerySegment):
                raise Unsupported("resource segment")
            for a in seg.query:
                out.append(("act", a))
            if seg.filename is not None:
                out.append(("file", str(seg.filename)))
        return out

    def convert(self, p, raw, is_text):
        """raw: text of a plain argument or the value of a link / extra / default"""
        ann = p.annotation
        if ann is inspect.Parameter.empty and p.default is not inspect.Parameter.empty and p.default is not None:
            ann = type(p.default)
        try:
            if ann is int:
                return int(raw)
            if ann is float:
                return float(raw)
            if ann is bool:
                return TRUE.get(str(raw).lower(), False)
        except Exception:
            raise RefFail("conversion")
        return raw

    def call(self, state_data, vars_, prefix_steps, act, q_abs, extra, calls):
        from liquer.parser import StringActionParameter, LinkActionParameter, Query, TransformQuerySegment
        nss = vars_.get("active_namespaces", ["root"])
        ex = None
        for ns in nss:
            if ns in self.reg.executables and act.name in self.reg.executables[ns]:
                ex, md = self.reg.executables[ns][act.name], self.reg.metadata[ns][act.name]
                break
        if ex is None:
            raise RefFail("unknown command")
        f = ex.f
        sig = inspect.signature(f)
        params = list(sig.parameters.values())
        takes_input = md.state_argument is not None
        pass_state = takes_input and md.state_argument.get("pass_state")
        formal = params[1:] if takes_input else params
        # actual arguments, links replaced by values
        actual = []
        for p in act.parameters:
            if isinstance(p, StringActionParameter):
                actual.append((p.string, "text"))
            elif isinstance(p, LinkActionParameter):
                if p.link.absolute or not prefix_steps:
                    r = self.run_steps(self.steps(p.link), None, None, calls)
                else:
                    tq = p.link.transform_query()
                    if tq is None:
                        raise Unsupported("multi-segment relative link")
                    r = self.run_steps(prefix_steps + self.steps(p.link), None, None, calls)
                if "error" in r:
                    raise RefRaise(p.position.offset)
                actual.append((r["value"], "link"))
        kwargs = {}
        if isinstance(extra, list):
            actual += [(x, "extra") for x in extra]
        elif isinstance(extra, dict):
            kwargs = dict(extra)
        argv, i = [], 0
        ctx = None
        for fp in formal:
            if fp.name == "context":
                continue
            if fp.kind is inspect.Parameter.VAR_POSITIONAL:
                rest = actual[i:]
                for v, origin in rest:
                    if origin == "extra" and not isinstance(v, str):
                        raise RefFail("extra object in *args")   # the variadic parser accepts texts and link values only
                argv += [v for v, _ in rest]
                i = len(actual)
                break
            if i < len(actual):
                v, origin = actual[i]
                argv.append(self.convert(fp, v, origin == "text"))
                i += 1
            elif fp.name in kwargs:
                argv.append(self.convert(fp, kwargs[fp.name], False))
            elif fp.default is not inspect.Parameter.empty:
                argv.append(fp.default)
            else:
                raise RefFail("too few arguments")
        if i < len(actual):
            raise RefFail("too many arguments")
        return ex, f, takes_input, pass_state, argv

    def run_steps(self, steps, input_value, extra, calls):
        """returns dict(value, vars, last, filename, extension, volatile, caching) or dict(error=..., ...)"""
        import vocab
        vars_ = deepcopy(self.defaults)
        data = input_value
        last, filename, ext, volatile, caching = None, None, None, False, True
        for idx, (kind, x) in enumerate(steps):
            if kind == "file":
                filename, ext = x, x.split(".")[-1].lower()
                continue
            act = x
            last = act.to_list()
            is_last = idx == len(steps) - 1
            try:
                ex, f, takes_input, pass_state, argv = self.call(data, vars_, steps[:idx], act, None, extra if is_last else None, calls)
                md = self.reg.metadata[ex.metadata.attributes.get("ns", "root")][act.name]
                if is_last and extra:
                    volatile = True
                if md.attributes.get("volatile"):
                    volatile = True
                fake_ctx = _FakeContext(self, calls)
                kw = {}
                if "context" in inspect.signature(f).parameters:
                    pos = list(inspect.signature(f).parameters).index("context")
                    # context is passed positionally by the library; here by keyword
                    kw["context"] = fake_ctx
                try:
                    if takes_input:
                        if pass_state:
                            st = FakeState(deepcopy(data), vars_)
                            res = f(st, *argv, **kw)
                            data = res.data if isinstance(res, FakeState) else res
                        else:
                            data = f(deepcopy(data), *argv, **kw)
                            if hasattr(data, "metadata") and hasattr(data, "with_data"):
                                data = data.data      # a command that returns its own State object: only the value counts, the variables are carried on
                    else:
                        data = f(*argv, **kw)
                finally:
                    pass
                if fake_ctx.nocache:
                    caching = False
            except RefRaise:
                raise
            except Unsupported:
                raise
            except Exception:
                return dict(error=idx, vars=vars_, last=last, filename=filename, extension=ext, volatile=volatile, caching=caching)
        return dict(value=data, vars=vars_, last=last, filename=filename, extension=ext, volatile=volatile, caching=caching)

    def run(self, text_or_query, input_value=None, extra=None):
        from liquer.parser import parse
        q = parse(text_or_query) if isinstance(text_or_query, str) else text_or_query
        import vocab
        vocab.CALLS.clear()      # the instrumented commands log themselves, in execution order
        try:
            r = self.run_steps(self.steps(q), input_value, extra, None)
        except RefRaise as e:
            r = dict(raised=e.pos)
        r["calls"] = list(vocab.CALLS)
        vocab.CALLS.clear()
        return r


class _FakeContext:
    def __init__(self, ref, calls):
        self.ref, self.calls, self.nocache = ref, calls, False

    def disable_cache(self):
        self.nocache = True

    def evaluate(self, q):
        from liquer.parser import parse
        r = self.ref.run_steps(self.ref.steps(parse(q)), None, None, self.calls)
        return _FakeResult(r)


class _FakeResult:
    def __init__(self, r):
        self.r = r

    def get(self):
        if "error" in self.r:
            raise Exception("sub-evaluation failed")
        return self.r["value"]
