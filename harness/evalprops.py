"""Shared machinery of the evaluator properties C01, C04, C05, C06, C09 (and helpers for C10, C18, C12).

  * cache configurations built by their documented constructors / factories;
  * generators of histories over families of related queries;
  * correspondence: implementation session vs the Lean model session (driver `eval.session`) and the
    reference interpretation (`eval.ref`);
  * oracles evaluated on the implementation only (the independent reference interpreter oracle_ref.Ref,
    fresh NoCache evaluations).
"""
import os, shutil
import common
from common import hx
import vocab, evalharness as H, oracle_ref

TRUSTED = ["modelled (hand-written Lean mirror, tied by correspondence): Context.evaluate, evaluate_action, evaluate_parameter, apply, "
           "create_initial_state, CommandRegistry.resolve_command, CommandExecutable.parse_argv/__call__, FirstCommandExecutable.__call__, the "
           "argument parsers, State.with_data/with_filename/next_state, Query.predecessor, the admission test; the cache is the KV specification "
           "instantiated at evaluator states (tied to the back-ends by C13)",
           "translated: command signatures of the vocabulary from the live CommandRegistry (Gen/VocabSig.lean), float table, parser terminals",
           "vocabulary semantics written twice (harness/vocab.py, LiquerModel/Vocab.lean)",
           "oracle: harness/oracle_ref.py (independent fold over the parsed query using inspect.signature of the registered functions)"]
ASSUMPTIONS = ["command vocabulary fixed by harness/vocab.py; values restricted to None/int/bool/str/list (floats only as converted arguments)",
               "int()/float()/str.lower() on non-ASCII text and invalid UTF-8 from percent escapes are outside the model (UNMODELLED, still covered by the oracle)"]


def scratch():
    return common.scratch_dir("liquer-verif-eval-")


# in-place mutators on DICTIONARY values (nested containers too); oracle-only histories shared by C04 / C05
MUTATOR_HISTORIES = [
    ["dct-a", "dct-a/setk-b", "dct-a", "dct-a/setk-c", "dct-a/setk-b", "dct-a/setk-b/setk-c", "dct-a/setk-b", "dct-a"],
    ["dct-a/nest-p", "dct-a/nest-p/nest-q", "dct-a/nest-p", "dct-a/nest-p/nest-q/nest-r", "dct-a/nest-p/nest-q", "dct-a/nest-p"],
    ["dct-a/nest-p/setk-b", "dct-a/nest-p", "dct-a/nest-p/setk-b/nest-q", "dct-a/nest-p/setk-b", "dct-a/nest-p", "dct-a"],
    # insertion order of a dictionary is part of its value for an order-sensitive command applied to a (possibly cached, re-read) parent
    ["dct-z/setk-b", "dct-z/setk-b/dkeys", "dct-z/setk-b/setk-a/dkeys", "dct-z/setk-b/setk-a", "dct-z/setk-b/setk-a/dkeys", "dct-z/dkeys"],
]


def cache_configs(tmp):
    """(name, factory, model kind: '1' keep-data | '0' replace-record | 'N' NoCache | None no model)"""
    from liquer import cache as C
    from liquer.store import MemoryStore, FileStore
    from cryptography.fernet import Fernet
    n = [0]

    def d(prefix):
        n[0] += 1
        p = os.path.join(tmp, "%s%d" % (prefix, n[0]))
        return p

    return [
        ("NoCache", lambda: C.NoCache(), "N"),
        ("MemoryCache", lambda: C.MemoryCache(), "1"),
        ("FileCache", lambda: C.FileCache(d("fc")), "1"),
        ("XORFileCache", lambda: C.XORFileCache(d("xor"), b"\x17\x2a\x7f\x01\x55"), "1"),
        ("FernetFileCache", lambda: C.FernetFileCache(d("fer"), Fernet.generate_key()), "1"),
        ("SQLCache.from_sqlite", lambda: C.SQLCache.from_sqlite(), "0"),
        ("SQLStringCache.from_sqlite", lambda: C.SQLStringCache.from_sqlite(), "0"),
        ("StoreCache(MemoryStore,flat)", lambda: C.StoreCache(MemoryStore(), "cache", flat=True), "1"),
        ("StoreCache(MemoryStore,nested)", lambda: C.StoreCache(MemoryStore(), "cache", flat=False), None),
        ("StoreCache(FileStore,flat)", lambda: C.StoreCache(FileStore(d("sc")), "cache", flat=True), "1"),
        ("MemoryCache+FileCache", lambda: C.MemoryCache() + C.FileCache(d("mf")), "1"),
        ("NoCache+MemoryCache", lambda: C.NoCache() + C.MemoryCache(), "1"),
        ("MemoryCache.if_contains(abc)", lambda: C.MemoryCache().if_contains("abc"), None),
        ("MemoryCache.if_not_contains(abc)", lambda: C.MemoryCache().if_not_contains("abc"), None),
        ("MemoryCache.if_attribute_equal(Keep,k1)", lambda: C.MemoryCache().if_attribute_equal("Keep", "k1"), None),
        # an attribute that every result carries with a FALSE value: the condition is about truth, not presence, so everything non-volatile is admitted
        ("MemoryCache.if_not_contains(volatile)", lambda: C.MemoryCache().if_not_contains("volatile"), None),
        ("CacheProxy(MemoryCache)", lambda: C.CacheProxy(C.MemoryCache()), "1"),
    ]


def gen_family(rng, size=3, depth=2, special=0.12):
    """a query and relatives: prefixes, extensions, link sub-queries, non-canonical spellings"""
    base = H.g_query(rng, depth, special=special)
    fam = [base]
    parts = base.split("/")
    for _ in range(size):
        r = rng.random()
        if r < 0.35 and len(parts) > 1:
            fam.append("/".join(parts[:rng.randint(1, len(parts) - 1)]))
        elif r < 0.7:
            fam.append(base + "/" + H.g_action(rng, 1, False, special))
        elif r < 0.85 and "~X~" in base:
            i = base.index("~X~") + 3
            j = base.find("~E", i)
            if j > i:
                fam.append(base[i:j].lstrip("/"))
        else:
            fam.append(H.g_query(rng, 1, rng.randint(1, 3)))
    return fam


INPUTS = [5, "s", None, [1], True, 0, "", False, [], "ab"]


def input_taking(rng, q):
    """variant of the query whose first action consumes the injected input"""
    parts = q.split("/")
    parts[0] = rng.choice(["tnum", "ident", "cat-x", "add-1", "tnum", "bo"])
    return "/".join(parts)


def gen_history(rng, fam, length, plain_only=False):
    fam = list(fam)
    if not plain_only:
        fam += [input_taking(rng, rng.choice(fam)) for _ in range(2)]
    ops = []
    for _ in range(length):
        q = rng.choice(fam)
        r = rng.random()
        if plain_only or r < 0.58:
            ops.append(("E", q) if plain_only or rng.random() < 0.85 else ("E", q, "described"))
        elif r < 0.72:
            ops.append(("V", q, rng.choice(INPUTS), rng.random() < 0.4))
        elif r < 0.80:
            ops.append(("XL", q, [rng.choice(["x", "7", 3]) for _ in range(rng.randint(0, 2))]))
        elif r < 0.86:
            ops.append(("XD", q, {rng.choice(["y", "s", "b", "zz", "n"]): rng.choice(["2", 4, "t"])}))
        elif r < 0.96:
            ops.append(("R", rng.choice(fam + [q.split("/")[0]])))
        else:
            ops.append(("C",))
    return ops


def rtq_ambiguous(q):
    """the text reads as `resource_path/segment_with_header` at top level (parse() prefers resource_transform_query) but as a
    transformation inside a link (parse_query): the C02 known finding 'rtq-capture' seen from the cache, which keys both readings
    by the same text"""
    import liquer.parser as P
    import wire
    try:
        a = P.parse(q)
        b = P.parse_query.parseString(q, True)[0]
    except Exception:
        return False
    return wire.ser(a, pos=False) != wire.ser(b, pos=False)


def rtq_involved(queries):
    """is the known finding in play for a set of evaluations sharing one cache: some canonical or as-typed text of a query, a prefix
    or a link sub-query of ANY of them is ambiguous (relative links re-parse the canonical text of their parent; both readings of an
    ambiguous text share a cache key)"""
    for q in queries:
        for k in related_keys(q):
            if rtq_ambiguous(k) or rtq_ambiguous(k.lstrip("/")):
                return True
    return False


def canonical(q):
    from liquer.parser import parse
    try:
        return parse(q).encode()
    except Exception:
        return None


def fresh(op, defaults):
    """what the same evaluation returns with no cache at all, in a fresh registry/context (the C04 oracle)"""
    from liquer.cache import NoCache, set_cache
    from liquer.context import get_context
    import liquer.state as S
    vocab.register()
    S._vars = dict(defaults)
    set_cache(NoCache())
    if op[0] == "E":
        f = lambda: get_context().evaluate(op[1])
    elif op[0] == "V":
        f = lambda: get_context().evaluate_on(op[2], op[1]) if op[3] else get_context().evaluate(op[1], input_value=op[2])
    elif op[0] == "XL":
        f = lambda: get_context().evaluate(op[1], extra_parameters=list(op[2]))
    else:
        f = lambda: get_context().evaluate(op[1], extra_parameters=dict(op[2]))
    return H.observe(f)


OBS_KEYS = ["kind", "is_error", "get_raises", "value", "vars", "volatile", "filename", "extension", "exc"]


def obs_public(o):
    """the observables C04 names: value or failure, volatility, final state variables, file name and extension"""
    r = {k: o.get(k) for k in OBS_KEYS}
    if o.get("kind") == "state" and o.get("is_error"):
        r["vars"] = None
    return r


class ImplSession:
    """like evalharness.Session but keeps structured observations as well"""

    def __init__(self, cache, defaults):
        self.s = H.Session(cache, defaults)
        self.cache, self.defaults = cache, defaults

    def run(self, op):
        """(rendered line, observation or None)"""
        from liquer.context import get_context
        if op[0] in ("R", "C"):
            return self.s.run(op), None
        holder = {}

        def keep(f):
            def g():
                st = f()
                holder["st"] = st
                return st
            return g
        ctxf = {
            # ("E", q, "described"): the same evaluation called with a description (what evaluate_template and the GUI do); same wire form
            "E": (lambda: get_context().evaluate(op[1], description="verif: described evaluation")) if len(op) > 2 else (lambda: get_context().evaluate(op[1])),
            "V": lambda: get_context().evaluate_on(op[2], op[1]) if op[3] else get_context().evaluate(op[1], input_value=op[2]),
            "XL": lambda: get_context().evaluate(op[1], extra_parameters=list(op[2])),
            "XD": lambda: get_context().evaluate(op[1], extra_parameters=dict(op[2])),
        }[op[0]]
        o = H.observe(keep(ctxf))
        st = holder.get("st")
        if o["kind"] == "state":
            out = H.render_state(st)
        elif o["kind"] == "parse-error":
            out = "PARSEERR"
        elif o["kind"] == "raised":
            out = "RAISED pos=%s q=%s" % ("~" if o["pos"] is None else o["pos"], H.opt_hex(o["query"]))
        else:
            out = "EXC " + o["exc"]
        line = "%s # %s # %s" % (out, ",".join(o["calls"]), H.render_cache(self.cache))
        return line, o


def model_sessions(ctx, stream, sessions, kinds, lines_impl, mask=None):
    """compare rendered implementation sessions with the model; sessions = [(ops, defaults)], kinds per session"""
    idx = [i for i, k in enumerate(kinds) if k is not None]
    reqs = ["eval.session %s %s %s" % (kinds[i], ";".join("%s=%s" % (hx(k), vocab.canon(v)) for k, v in sessions[i][1].items()) or "-",
                                       " ".join(H.op_wire(o) for o in sessions[i][0])) for i in idx]
    ans = ctx.driver.ask(reqs)
    impl = [lines_impl[i] for i in idx]
    if mask:
        impl = [mask(x) for x in impl]
        ans = None if ans is None else [a if "UNMODELLED" in a else mask(a) for a in ans]
    if ans is not None:
        ans = ["UNMODELLED" if "UNMODELLED" in a else a for a in ans]
    ctx.compare(stream, [str(sessions[i][0])[:300] for i in idx], impl, ans)


def related_keys(q):
    """canonical and as-typed spellings of the query, its prefixes and its link sub-queries"""
    from liquer.parser import parse, LinkActionParameter, TransformQuerySegment
    keys = set()
    parts = q.split("/")
    for i in range(1, len(parts) + 1):
        keys.add("/".join(parts[:i]))
    i = 0
    while True:
        i = q.find("~X~", i)
        if i < 0:
            break
        j = q.rfind("~E")
        if j > i:
            keys.add(q[i + 3:j])
            keys.add(q[i + 3:j].lstrip("/"))
        i += 3
    try:
        pq = parse(q)
    except Exception:
        return keys

    def walk(query):
        p = query
        while p is not None and not p.is_empty():
            try:
                keys.add(p.encode())
            except Exception:
                pass
            for seg in p.segments:
                if isinstance(seg, TransformQuerySegment):
                    for a in seg.query:
                        for par in a.parameters:
                            if isinstance(par, LinkActionParameter):
                                walk(par.link)
            p, _ = p.predecessor()
    walk(pq)
    return keys


def inspect_cache(cache, keys, defaults):
    """C05 oracle: every key that returns data must be canonical text and equal a fresh evaluation of that key that is
    successful, non-volatile and not cache-disabled. Returns a list of (violation key, text)."""
    found = []
    try:
        listed = set(cache.keys())
    except Exception:
        listed = set()
    for k in sorted(listed | set(keys)):
        try:
            st = cache.get(k)
        except Exception as e:
            found.append(("get-raises:" + k, "cache.get(%r) raised %s" % (k, type(e).__name__)))
            continue
        if st is None:
            continue
        served = vocab.canon(st.data)
        c = canonical(k)
        if c is None:
            found.append(("noncanonical:" + k, "cache serves data %s under %r which is not a query" % (served, k)))
            continue
        if c != k:
            found.append(("noncanonical:" + k, "cache serves data %s under the non-canonical spelling %r (canonical: %r)" % (served, k, c)))
            continue
        o = fresh(("E", k), defaults)
        set_global(cache, defaults)
        # the admission rule from the independent reference interpreter (the implementation's own flags could be what is wrong)
        ref = ref_flags(k, defaults)
        if ref is not None and ref.get("failed"):
            found.append(("served-failure:" + k, "cache serves data %s for %r which fails in the reference interpretation" % (served, k)))
        elif ref is not None and ref.get("volatile"):
            found.append(("served-volatile:" + k, "cache serves data %s for %r whose result is volatile (reference interpretation)" % (served, k)))
        elif ref is not None and not ref.get("caching", True):
            found.append(("served-nocache:" + k, "cache serves data %s for %r which is at or downstream of a command that switched caching off (reference interpretation)" % (served, k)))
        elif o["kind"] != "state" or o["is_error"]:
            found.append(("served-failure:" + k, "cache serves data %s for %r whose fresh evaluation fails" % (served, k)))
        elif o["volatile"]:
            found.append(("served-volatile:" + k, "cache serves data %s for %r whose result is volatile" % (served, k)))
        elif not o["caching"]:
            found.append(("served-nocache:" + k, "cache serves data %s for %r which is at or downstream of a command that switched caching off" % (served, k)))
        elif o["value"] != served:
            found.append(("stale:" + k, "cache serves %s for %r, a fresh evaluation gives %s" % (served, k, o["value"])))
    return found


def ref_flags(q, defaults):
    """failed / volatile / caching of a query according to harness/oracle_ref.py (None: outside its fragment)"""
    import oracle_ref
    from liquer.parser import parse
    from liquer.commands import command_registry
    calls = list(vocab.CALLS)
    try:
        r = oracle_ref.Ref(command_registry(), defaults).run(parse(q))
    except Exception:
        return None
    finally:
        vocab.CALLS[:] = calls
    if "raised" in r or "error" in r:
        return dict(failed=True)
    return dict(failed=False, volatile=bool(r.get("volatile")), caching=r.get("caching", True))


def set_global(cache, defaults):
    from liquer.cache import set_cache
    import liquer.state as S
    vocab.register()
    S._vars = dict(defaults)
    set_cache(cache)
    # a global store with one key (resource queries of the C06 oracle refer to keys that do not exist in it)
    from liquer.store import MemoryStore, set_store
    st = MemoryStore()
    st.store("present.txt", b"present", {})
    st.store("dir/inner.txt", b"inner", {})
    set_store(st)


def run_session_task(task):
    """worker: (config index or None for NoCache, ops, defaults[, flags]) -> [(line, observation, fresh observation, cache findings)]"""
    cfg, ops, defaults = task[:3]
    flags = task[3] if len(task) > 3 else ()
    tmp = None
    try:
        if cfg is None:
            from liquer.cache import NoCache
            cache = NoCache()
        else:
            tmp = scratch()
            cache = cache_configs(tmp)[cfg][1]()
        s = ImplSession(cache, defaults)
        res, keys = [], set()
        for op in ops:
            set_global(cache, defaults)
            line, o = s.run(op)
            fo, found = None, None
            if o is not None:
                o = {k: v for k, v in o.items() if k != "metadata"}
                if "fresh" in flags:
                    fo = {k: v for k, v in fresh(op, defaults).items() if k != "metadata"}
                    set_global(cache, defaults)
            if "inspect" in flags:
                if op[0] not in ("R", "C"):
                    keys |= related_keys(op[1])
                found = inspect_cache(cache, keys, defaults)
                set_global(cache, defaults)
            res.append((line, o, fo, found))
        return res
    finally:
        if tmp:
            shutil.rmtree(tmp, ignore_errors=True)
