"""Source of MANIFEST.json (run harness/mkmanifest.py after editing)."""
HOOK_COMMITS = []
NOTES = ("Every check: (1) regenerate Gen/*.lean from /repo, (2) lake build the property's theorems, (3) audit axioms/sorry, "
         "(4) correspondence model-vs-implementation, (5) oracle search on the implementation, (6) decide. "
         "Exit 2 = infrastructure failure. See DESIGN.md.")
NOT_YET = {}
CHECKS = {
 "C08": dict(
  text=("Theorems on the model of RecipeSpecStore over any sub-store model (Props/C08.lean): a declared key is listed, contained and carries status 'recipe' with the declared "
        "title/description before it exists; for EVERY history of reads/listings/removals/cleans the evaluation log grows only at a get_bytes of a declared key the sub-store "
        "does not contain (induction over the history); over the MemoryStore model AND over the FileStore model (the *_file theorems, for plain keys whose path is writable: "
        "no file on the way, not a directory): a first read evaluates once, stores the evaluator's bytes for the key's extension with status 'ready' and the recipe's "
        "name/version, later reads are served from the sub-store, remove resets to 'recipe', a failing recipe leaves error metadata and no data (the FileStore then has no "
        "data file, so a second read evaluates again - c08_failure_file states exactly that; the MemoryStore keeps a metadata-only entry and does not); relative references "
        "resolve by C19's POSIX "
        "normalisation against the recipe's directory. Correspondence: generated recipes files (plain/dict form, sections, relative/absolute references, failing recipes) at depth "
        "0-2 of Memory/File-backed recipe stores mounted in the global store, histories <= 10 operations, every result + key universe + key listing + evaluation log vs the model; "
        "oracle: bytes = directly evaluated query serialised for the key's extension, independent status state machine, evaluation-log rules."),
  note=("Trusted: Lean kernel; LiquerModel/Recipes.lean mirror of resolve_recipe_definition / NewRecipeSpecStore / QueryRecipe.make / Context._store_state / evaluate_resource / "
        "clean_recipes (tied by correspondence); the evaluator is a parameter evalQ(resolved text, extension) tabulated per case by direct evaluation (C01/C11 are about it); YAML "
        "loading is not modelled; the dependency theorems (c08_first_read_dep*) carry their writability hypotheses on the state the dependency read leaves (a global "
        "'no declared key is a prefix of another' invariant is not proved)."),
 ),
 "C18": dict(
  text=("Theorems about the metadata record of the evaluator model for EVERY query, fuel, as-typed text, extra parameters and input (Props/C18.lean): outcome = reference "
        "interpretation; error flag / status / obtainability of a value agree and the final status is ready or error; type identifier and data-characteristics kind are those of "
        "the value (regenerated table), query = canonical text; last command, namespace, version flag, parent query and argument queries are those of the last executed action; a "
        "trailing file name changes only query/filename/extension/mimetype (MIMETYPES regenerated); capitalised attributes persist along any chain of predecessors. The copy kept by the CACHE is proved on the cache model "
        "(c18_kept_copy_success / _fields / _error / _uncached: after a successful cacheable evaluation the entry under the canonical key is ready and core-equal to the returned state, hence agrees on every state-derived "
        "metadata field; a failed one leaves a metadata-only error record; a volatile or cache-disabled one leaves no record); the STORE copy (store_key) and the five context-recorded fields rest on the oracle: partial. Correspondence: C01/C06 generators "
        "+ every extension of MIMETYPES, under NoCache, 16 cache configurations cold+warm, store_key into Memory/File stores; projected metadata of returned state vs model; oracle on "
        "returned, cached and stored metadata from an independent reference interpreter and the live registry."),
  note=("Trusted: Lean kernel; LiquerModel/EvalMeta.lean mirror of MetadataContextMixin.metadata, the metadata assembly of evaluate_action, State.with_filename/next_state, log_subquery "
        "(tied by correspondence); Gen/EvalMeta.lean (type identifiers / data-characteristics kinds probed from live state types), Gen/StateTypes.lean (MIMETYPES); the command version hash "
        "is opaque (flag only); kept-copy agreement is checked on the implementation only; known finding: a query without any action has no status."),
 ),
 "C10": dict(
  text=("Theorems in Props/C10.lean over a heap model of the evaluator (Iso.lean: mutable objects in cells, State = data + metadata-dictionary cell holding the variables; copies exactly where the code copies; "
        "in-place mutating commands; the caller mutating returned data, nested data, variables and metadata), for every history of any length: eval_frame / args_frame (an evaluation never writes a cell that "
        "existed before it started; what it returns and caches is freshly allocated), sep_init / sep_step / sep_run (cells of distinct returned states, cache entries and the configured defaults stay pairwise "
        "disjoint), caller_isolation / eval_isolation / defaults_never_change / returned_never_changes, result_is_meaning and result_independent_of_history (every result is the value-level meaning of its chain, "
        "whatever was evaluated or mutated before - under the hypothesis Safe: no getvar/cvapp on a volatile predecessor, which is the known finding volatile-input-not-cloned), variable-scope lemmas on the "
        "specification. The relative-link clause of variable scope is C01/C04's refinement to the reference interpretation (which starts from the configured defaults). Correspondence: histories of evaluations "
        "over a mutating vocabulary and caller mutations under 7 cache kinds; after every operation result, call log, ALL returned states, what the cache serves for every related key and the defaults vs the model; "
        "oracle: fresh evaluation, earlier results unchanged, defaults unchanged, served = fresh, value-level meaning (independent pure interpreter), object-identity separation of returned states / "
        "MemoryCache.storage / defaults."),
  note=("Trusted: Lean kernel; LiquerModel/Iso.lean mirror of vars_clone, State.clone/next_state/as_dict/from_dict, the clone in evaluate_action (skipped for volatile input), MemoryCache.get/store, the live hand-off of link "
        "arguments, context.vars and returned states (tied by correspondence); abstraction: one heap cell per value (object graphs below a reference are the content of one cell - the identity oracle traverses them "
        "on the implementation); its own small vocabulary (semantics written three times: Python commands, Iso.cmdH, Iso.cmdV / the harness' pure interpreter); serialising caches own no live objects; progress "
        "metadata writes are not modelled here."),
 ),
 "C12": dict(
  text=("Theorems in Props/C12.lean over the concurrency model (Conc.lean: a thread = the evaluator run against an answer oracle, EvalO.lean, generated from Eval.lean; its own steps are its get / store / remove; "
        "ANY metadata-only write by anyone at any time is an environment step; Reach = reflexive-transitive closure of 'a thread moves or the environment writes metadata', i.e. ALL schedules of any length and any "
        "number of threads): oracle_refines (a thread that received good answers writes only good data and returns the reference value), reach_preserves_inv / env_preserves_inv / events_preserve_inv, "
        "cache_sound_every_schedule / cache_values_fresh (every data entry of every reachable shared cache is the fresh value of its key), result_is_solo / result_is_sequential (every finished thread returns the "
        "reference interpretation's observation = what it returns alone), answers_are_finished / never_serves_unfinished / metadata_only_is_miss (a key whose producer has only written metadata, even 'ready', is a "
        "miss), evalQO_agrees (the oracle evaluator fed a cache's own answers is the sequential evaluator). Correspondence: real threads under a deterministic scheduler (EVERY cache operation incl. every progress "
        "write is a yield point) on MemoryCache, FileCache, StoreCache(MemoryStore), SQLCache: seeded schedules with up to 3 (thorough 5) pre-emptions and a structured family (three evaluations sharing a prefix, one pre-empted "
        "twice, the others running to completion in the gaps); (SQLCache on one sqlite connection shared by the threads included; every first pre-emption point taken for a text-valued prefix); the model replays the global sequence of operations the implementation performed (its store_metadata calls verbatim as environment steps); per-thread "
        "outcome, call log, own operations and final cache are compared; oracle: every thread returns its solo NoCache result, every value left in the cache equals a fresh evaluation. In addition, for FileCache and StoreCache(FileStore), "
        "schedules at FILE-operation granularity (every open / write / close / rename / unlink of a thread below the cache directory is a yield point; stopping points TARGETED from a probe of each thread's file-operation sequence: two writers inside each other's write protocol - all pairs 'before a rename / just created or wrote' - "
        "followed by a reader, a reader inside one writer's protocol, a reader stopped before its open while the writer runs until right after an unlink), judged by the oracle; the theorem side is ConcFile.lean: file_writers_serializable / "
        "file_writers_progress_harmless (for EVERY interleaving of the file steps of two FileCache.store writers of one key with private temporaries - and a progress-record writer that never says ready - and every prefix, a "
        "reader gets nothing, the old entry or the complete new one; other keys are untouched), file_steps_link_* (these step lists are the ones C16's crash replay validates against the code), file_shared_tmp_truncates "
        "(refutation when two writers share a temporary = seeded change C12-1). The same for StoreCache on a FileStore (ConcFileT.lean, directory-tree model): tree_writers_serializable / tree_writers_progress_harmless / "
        "tree_writer_and_progress (ANY initial tree, any path, every interleaving and prefix: old entry, miss, or the complete new one; every other path reads as before), "
        "tree_steps_link_run (link to C16's replay-validated lists, no hypothesis), tree_shared_tmp_truncates. SPLIT READER (ConcFileSplit.lean): file_split_reader / tree_split_reader - a reader that reads the metadata file after n1 and the data file after n2 >= n1 "
        "file operations of the same interleaving gets nothing, the complete new entry, the old entry, or the OLD ready metadata with the new bytes; "
        "file_split_reader_sound / tree_split_reader_sound: under one-key-one-value (C05's Sound), completeness of the old entry (C16) and type agreement it gets nothing, "
        "the old or the complete new entry; *_mixed_witness / *_incomplete_witness show each hypothesis is needed; tree_split_guard_only_misses (the existence test only adds "
        "misses). Partial: more than one progress writer and a concurrent remover are explored by the file-operation schedules only."),
  note=("Trusted: Lean kernel; the evaluator model (as C01/C04) and its mechanical oracle-world translation EvalO.lean (harness/gen_evalo.py --check on every run); Conc.lean's atomicity: one cache operation is one step, "
        "Python threads are sequentially consistent at that granularity; the harness scheduler (semaphores, one runnable thread at a time); hypotheses Closed/CanonOK as in C04 (C02 round trip); known finding "
        "rtq-ambiguous-text (shared with C04); the defect found by this check (a metadata-only 'ready' record under the result key) is fixed in /repo (cb22d87)."),
 ),
 "C03": dict(
  text=("Lean theorems for every finite string of Unicode scalar values and every escape table satisfying the decidable side condition "
        "tableOK (re-proved by `decide` for the table regenerated from ESCAPE_SEQUENCES on each run); the executable model of "
        "encode_token/decode_token/quote/unquote is tied to the code by a differential correspondence stream (all short strings over the "
        "structural alphabet, code points, biased random strings), and the oracle searches the real parser for a failing argument. Injectivity of the token and of the list-of-lists encoder are corollaries (real_injective, real_injectiveLL). The embedding shapes include a query built step by step with its encoded form looked at in between."),
  note=("Trusted: Lean kernel (+propext/Quot.sound/Classical.choice), harness/extract.py, the correspondence harness, CPython str.replace/"
        "urllib.quote/unquote as modelled in LiquerModel/Text.lean (validated differentially, not proved), pyparsing for the embedding oracle."),
 ),
 "C19": dict(
  text=("Full proof: toAbsolute_eq_posix (for every plain directory and every path of any length the model of _query_to_absolute equals "
        "POSIX normalisation with root-escape rejected), idempotence, composition of two resolutions (toAbsolute_compose), independence of the directory for non-relative paths, plain and length-bounded results, idempotence of Query.to_absolute (query_idem; also checked on the implementation for every generated query), and the frame theorems of Query.to_absolute. The model is tied to the "
        "code by exhaustive comparison over all directories of depth 0-4 x all paths of <= 5/6 components and generated query embeddings; "
        "the oracle is posixpath.normpath. The oracle also checks purity: to_absolute does not change the query object it is called on."),
  note=("Trusted: Lean kernel, the hand-written mirror LiquerModel/Paths.lean of ResourceQuerySegment._query_to_absolute/to_absolute and "
        "Query.to_absolute (tied by correspondence only), CPython posixpath as oracle. Directory argument assumed to consist of plain names."),
 ),
 "C02": dict(
  text=("Lean model of the whole pyparsing grammar (PEG over regenerated terminals and entity table) and of all encode() printers; "
        "theorems in Props/C02.lean (side conditions of the regenerated tables; print-parse round trip for well-formed ASTs as far as proved, "
        "see evidence: obligations vs statement-only); the model is tied to the code by bounded-exhaustive comparison (accept/reject, AST with "
        "offsets, canonical text, fixed-point verdict, WF verdict) on all short strings over three structural alphabets plus grammar-directed "
        "sentences and edits; the oracle checks the fixed point on the implementation for every accepted string. Two known findings "
        "(rtq-capture, resource-header empty parameter) are genuine violations of the unchanged code and are excluded by the WF hypothesis."),
  note=("Trusted: Lean kernel; harness/extract.py (regex -> item list conversion, entity table, grammar-shape comparison); the PEG reading of "
        "pyparsing (ordered choice, greedy repetition without back-tracking, white-space skipping, expandtabs, parseAll) is modelled and validated "
        "differentially, not proved; urllib unquote as in LiquerModel/Text.lean."),
 ),
 "C07": dict(
  text=("Spec-level contract theorems about the reference file system (read-back, presence of ancestors, exactly-once listing, removal, frame, "
        "tree invariant over every well-formed history) and the refinement theorems mem_refines and file_refines (MemoryStore model and FileStore model = reference model on every "
        "well-formed history over plain keys, incl. recursive removal; keys() up to permutation), mem_never_fails / file_never_fails; proxy refinement. All 12 stacks (memory/file x plain, proxy, indexer, overlay(empty), mount, global default) are "
        "compared with the reference model after every operation of generated well-formed histories; the oracle evaluates the contract clauses "
        "and pairwise agreement on the implementation. Store histories use two data values of equal length, recycle the metadata read for a key in every third store(), reuse one metadata dictionary object in every other third, and include a key with a component that merely looks internal ('__x')."),
  note=("Trusted: Lean kernel; hand-written mirrors LiquerModel/StoreMem.lean, StoreFile.lean, StoreProxy.lean (tied by correspondence); md5 modelled as "
        "an injective function; JSON metadata text not modelled; POSIX directory operations at the granularity of the tree model."),
 ),
 "C17": dict(
  text=("(a) read-only view: every mutating operation returns the read-only error and leaves the state unchanged, reads are forwarded — for every "
        "history and any underlying store model; a generated obligation proves every mutating Store method found in the live classes is overridden "
        "by ReadOnlyStore; COMPOSITION with C14's mount model (StoreMountRO.lean, parts tagged read-only view / plain store): for the composite store.read_only().mount(key, other) and any table of plain parts - view_mount_default_unchanged (for EVERY history, any keys, any support function, recursive removedir included, the state under the view never changes), view_mount_refuses_outside(_recursive), view_mount_reads_default(_exact,_mem), view_mount_writes_inside(_single), view_mount_shape_kept, bypass_mount_writes_through (negative witness = seeded change C17-9); the correspondence histories also let the owner change the underlying store directly between reads through the view (the view is live) and mount a store through the view, then mutate outside the mount. (b) containment: for every root and key, keyOK implies path and metadata path lie within the root, not keyOK implies every "
        "FileStore operation is refused; after any history no path outside the root changed. Exhaustive key enumeration (<=4 components from "
        "{a,.,..,'',__metadata__,b.txt}, with/without leading '/') for every operation directly, through a mount and through -R queries in a sandbox."),
  note=("Trusted: Lean kernel; pathlib join / OS resolution as modelled in LiquerModel/StoreFile.lean (pathOf, within); harness sandbox wrapper; "
        "extract.py's ast-based list of mutating methods."),
 ),
 "C15": dict(
  text=("overlay_fallback_immutable for every operation, state and pair of store models (lifted to histories); overlay_reads / overlay_refines_spec: "
        "every read equals the shadow/mask specification and every write is 'most recent write or removal wins' for every well-formed history, under "
        "an invariant proved initial and preserved. Correspondence: all fall-back contents over a 5-key universe x generated histories with memory/file "
        "stores in either role, full snapshot of the fall-back after every operation."),
  note=("Trusted: Lean kernel; LiquerModel/StoreOverlay.lean mirror of OverlayStore (as fixed by the D5a-e commits), part stores modelled by memOps/specOps."),
 ),
 "C14": dict(
  text=("route_exclusive (any table), mount_union_* (keys, listdir, contains, is_dir, metadata key as the re-prefixed union, for every table satisfying "
        "tableWF, any number of mounts), mount_keys_complete / mount_keys_exact / mount_keys_once (keys() lists exactly the contained non-root keys, each once: mount points, their parents, the parts' keys "
        "re-prefixed, unshadowed default-store keys), write exclusivity/frame, to_root_key for owned keys and through any depth of nested translating layers (to_root_key_chain, to_root_key_nested_reaches). "
        "to_root_key_reaches_statement without the ownership hypothesis is false (an inner mount shadows the root key) and kept statement-only with its refutation. Correspondence: all mount tables <= 3 mounts "
        "over {a,a/b,c,c/d,ab,c/dd} (names that extend each other as text but not as paths) x {memory,file} x default {none,empty,populated} with generated histories, nested mount-point stores of depth 2-3, a "
        "mounted RecipeSpecStore (recipes_key); oracle = union of the parts. NESTED mount-point stores with the REAL is_supported (StoreMountNested.lean: Mt.supports, nestedOps = mountOps over mount states): supports_dirs, nested_dir_lifts, nested_at_mount_point (is_dir / contains / listdir at and above inner mount points, any depth by iteration), nested_depth3, nested_exclusive_partial, nested_old_loses_mount_point (the defect repaired by a6dff51) and nested_exclusive_false_if_unsupported (why a missing route must raise instead of answering False: the first version of the repair did, corrected by 2edf0fa). The nested probe also mounts the same store twice at one key, checks is_dir / contains / listdir at every inner mount point and that a stray key below an inner mount point never reaches an outer default store."),
  note=("Trusted: Lean kernel; LiquerModel/StoreMount.lean mirror of MountPointStore/PrefixStore (as fixed by the D7a-g commits); a recursive removedir reaching a mount point deletes what is below and then "
        "raises (modelled as it is)."),
 ),
 "C11": dict(
  text=("Dispatch and framing are proved: c11_dispatch over the regenerated registry (identifier and qualified name select the same type; default "
        "extension readable; recorded identifier selects a decoder for every writable+readable extension), c11_key_roundtrip (JSON key escaping for "
        "every string), c11_djson (line-oriented dictionary framing for any dictionary under the element law), c11_register_selects / _frame / _history (after any "
        "history of StateTypesRegistry.register calls the last registration is consistent: type name and recorded identifier select the same object). The codecs themselves (json, pickle, "
        "pandas/pyarrow) enter as explicit CodecLaw hypotheses and are validated differentially only (partial). A further probe registers state types on the GLOBAL registry after values have been decoded (late plug-in) and round-trips through encode_state_data / decode_state_data."),
  note=("Trusted: Lean kernel; extract.py probing of writes/reads sets on sample values; third-party codecs json / pickle / pandas / polars / base64 (hypotheses of the theorems); the text and bytes codecs are LiQuer's own and proved (c11_text_codec_law, c11_bytes_codec_law, c11_own_roundtrip: strict UTF-8, no hypothesis left)."),
 ),
 "C20": dict(
  text=("c20_gate (+ _disabled, _enabled, _length, _register_neutral) for all enable/disable/register histories; c20_wire (unquote . quote = id for every text, from the C03 lemmas); serve never 2xx on "
        "failure; c20_routes by decide over the regenerated route table and RemoteStore request table; endpoint histories refine library calls under "
        "ReadOnlyLaw. Correspondence through the Flask test client (client-side quoting; requests' own URL preparation incl. params) for queries, store/cache "
        "endpoint histories, all gate histories <= 5 and RemoteStore against a served store (MemoryStore, and a directory store for every fourth history). Partial: Flask/werkzeug/WSGI are third-party parameters."),
  note=("Trusted: Lean kernel; extract.py's ast reading of the view functions; Flask test client as the transport."),
 ),
 "C01": dict(
  text=("Theorems in Props/C01.lean over the evaluator model and the reference interpretation: eval_is_ref / eval_obs_is_ref (any Sound cache, any fuel, any as-typed spelling), and - new - the bridge to C02: "
        "ref_position_irrelevant, canon_wf (every wfTop query means what its canonical text means: the CanonOK hypothesis of all evaluator theorems is discharged by C02's print-parse round trip), eval_is_ref_wf / "
        "eval_obs_is_ref_wf (the refinement for any closed class of wfTop queries with no text hypothesis left); the model is tied "
        "to the code by comparing full outcomes and call logs of generated queries (typed arguments, defaults, variadic, links to depth 3, namespaces, state "
        "variables, sub-evaluations, input values, extra parameters) with the evaluator model and with the Lean reference interpretation; the oracle is an "
        "independent Python fold over the parsed query. Known finding rtq-ambiguous-text (consequence of C02's rtq-capture, first seen in the thorough tier): a relative link re-parses the canonical text of its parent at top level. An implementation-side oracle family evaluates queries with a command that returns its own State object (state variables, namespaces and flags set to its left must reach the steps to its right)."),
  note='Trusted: Lean kernel; the hand-written evaluator model LiquerModel/Eval.lean + Vocab.lean + Value.lean and the reference interpretation Ref.lean (tied to Context.evaluate/evaluate_action/evaluate_parameter/apply, parse_argv and the argument parsers by differential correspondence over generated queries and histories, not proved about Python); command signatures regenerated from the live registry; vocabulary semantics written twice; the cache is the KV specification at evaluator states (back-ends tied to it by C13); oracle harness/oracle_ref.py.',
 ),
 "C04": dict(
  text=("Sound (every data entry equals the reference interpretation of its key) as an invariant of every history, and evaluation over a Sound cache refines "
        "the reference interpretation (Props/C04.lean: transparent, histories, cache_vs_nocache, frame_evalQ). COMPOSITION with C13, proved: eval_via_backend / "
        "transparent_via_backend(_hist) - the evaluator run through ANY cache back-end model that simulates the key-value specification (CSim, the conclusion of "
        "C13's refinement theorems) with a lawful state codec returns, for every query and every history of evaluations, the outcome and the call log of the "
        "evaluator over the abstract cache, hence the reference observation; instantiated for the MemoryCache, FileCache (any lawful codec, injective digest), "
        "SQLCache and CacheProxy models (transparent_via_memory / _file / _sql / _proxy); never_stores_error (no store of an error state in any trace). "
        "Correspondence: histories of evaluations / input values / extra parameters / removals / cleans on 17 cache configurations vs the evaluator model (12 "
        "of them modelled: keep-data, replace-record and NoCache variants); oracle: every evaluation repeated with no cache in a fresh context; two oracle-only families: "
        "in-place mutators on dictionaries (nested containers) and a store-backed cache living in the store the resources are read from (clean / remove must not touch "
        "store keys outside the cache directory)."),
  note='Trusted: Lean kernel; the hand-written evaluator model LiquerModel/Eval.lean + Vocab.lean + Value.lean and the reference interpretation Ref.lean (tied to Context.evaluate/evaluate_action/evaluate_parameter/apply, parse_argv and the argument parsers by differential correspondence over generated queries and histories, not proved about Python); command signatures regenerated from the live registry; vocabulary semantics written twice; the cache seen by the evaluator is the KV specification at evaluator states or (EvalVia.lean) any back-end model simulating it through a state codec (back-ends tied to the code by C13; the codec law decode(encode s) = s-as-ready is a hypothesis discharged for the model codec codecT and validated for the real state types by C11); oracle harness/oracle_ref.py.',
 ),
 "C05": dict(
  text=("served_is_fresh (= Sound over histories) and not_admitted (failed, volatile, cache-disabled results and evaluations with injected input never gain "
        "data) in Props/C05.lean as far as discharged; correspondence as C04 with the complete data-bearing cache content compared after every operation; the "
        "oracle lists the cache after every operation and re-evaluates every served key without cache. Oracle-only families (outside the model's command effects / value domain): in-place mutators on dictionaries, a command that switches caching off and then evaluates a sub-query, a command that evaluates a sub-query ON its input (evaluate_on), evaluations with a description."),
  note='Trusted: Lean kernel; the hand-written evaluator model LiquerModel/Eval.lean + Vocab.lean + Value.lean and the reference interpretation Ref.lean (tied to Context.evaluate/evaluate_action/evaluate_parameter/apply, parse_argv and the argument parsers by differential correspondence over generated queries and histories, not proved about Python); command signatures regenerated from the live registry; vocabulary semantics written twice; the cache is the KV specification at evaluator states (back-ends tied to it by C13); oracle harness/oracle_ref.py.',
 ),
 "C06": dict(
  text=("ref_error_stops / ref_failure_is_error (a failure propagates unchanged and no further call is made; every failing branch yields an error state or a "
        "raise with the action's / link's position) in Props/C06.lean as far as discharged, lifted to the implementation model by the C04 refinement; "
        "correspondence: one injected failure of each kind at every position, outcome + reported position/query + call log vs the model; oracle: error state "
        "or raise, call log is a subsequence of the reference interpreter's, reported offset points at an action or link. Known finding: positions inside "
        "sub-evaluations refer to the originally parsed text."),
  note='Trusted: Lean kernel; the hand-written evaluator model LiquerModel/Eval.lean + Vocab.lean + Value.lean and the reference interpretation Ref.lean (tied to Context.evaluate/evaluate_action/evaluate_parameter/apply, parse_argv and the argument parsers by differential correspondence over generated queries and histories, not proved about Python); command signatures regenerated from the live registry; vocabulary semantics written twice; the cache is the KV specification at evaluator states (back-ends tied to it by C13); oracle harness/oracle_ref.py.',
 ),
 "C09": dict(
  text=("hit / second_run_silent / present_after (Props/C09.lean, one-level unfolding of the evaluator model: a cacheable result is stored under the canonical "
        "key and the next evaluation returns it without executing a command); correspondence: (evaluate, re-evaluate, evaluate an extension) on a cold cache "
        "of every admitting configuration vs the model incl. call logs; oracle: silent re-run, key present with the value, extension bounded by the "
        "reference interpreter's calls right of the cached prefix."),
  note='Trusted: Lean kernel; the hand-written evaluator model LiquerModel/Eval.lean + Vocab.lean + Value.lean and the reference interpretation Ref.lean (tied to Context.evaluate/evaluate_action/evaluate_parameter/apply, parse_argv and the argument parsers by differential correspondence over generated queries and histories, not proved about Python); command signatures regenerated from the live registry; vocabulary semantics written twice; the cache is the KV specification at evaluator states (back-ends tied to it by C13); oracle harness/oracle_ref.py.',
 ),
 "C13": dict(
  text=("Spec lemmas on the KV specification for arbitrary key strings; refinement theorems for every history of any length: memory, file (digest injective + "
        "codec law: plain, XOR, Fernet), SQL, combinators, conditional wrappers, proxy; store-backed cache AS CONSTRUCTED (storec_refines: all eight operations "
        "incl. keys() and clean(), flat and nested scheme, ANY cache path - the constructor drops leading slashes, fixes b0a69e7 / 39a373f found by this proof; "
        "storec_unnormalised_false shows the statement fails if the path is kept as given) under PathsOK (paths distinct and not directories of one another; "
        "the nested scheme violates it on confusable keys = known finding D19, storec_nested_confusion); xor_involutive and xor_hides. Correspondence: 22 "
        "configurations (StoreCache at cache, /cache, //cache on memory and file stores; a conditional member in front of an unconditional one) x histories over confusable keys and values of every built-in type "
        "vs the model of each configuration; oracle: Python dict reference + scan of raw files of obfuscating caches."),
  note=("Trusted: Lean kernel; LiquerModel/Cache*.lean mirrors (as fixed by D2, D8, D9, D9b, D17, D18 commits and b0a69e7 / 39a373f); md5 as an injective function; "
        "Fernet as a codec law; sqlite as a list of rows; state-type codecs as parameters."),
 ),
 "C16": dict(
  text=("For the step lists of store / store_metadata / remove of FileCache (+XOR, Fernet), FileStore and StoreCache on FileStore (as fixed by the D6a/D6b commits: "
        "temporary file + atomic replace, metadata last): for every crash point and every prefix of every write, a fresh read yields miss, the old or the new "
        "entry, and other keys are unaffected (16 theorems). Correspondence: every file-system operation boundary of the real operations is crashed in a "
        "subprocess (os._exit) and a fresh process reads; exhaustive in both tiers. Partial: torn sectors, fsync/write-back ordering and directory-entry "
        "durability are below the model. A further scenario crashes twice in a row (a remove that died after its first file operation, then a store crashed at every point): oracle on the implementation, theorems c16_filecache_two_crashes and c16_storecache_on_filestore_two_crashes on the model (the crash theorems hold from any tree, so crashes compose)."),
  note=("Trusted: Lean kernel; LiquerModel/CrashSteps.lean step lists (tied by the crash replay); POSIX rename atomicity; the OS applies completed operations in order."),
 ),
}
