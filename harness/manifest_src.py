"""Source of MANIFEST.json (run harness/mkmanifest.py after editing)."""
HOOK_COMMITS = []
NOTES = ("Every check: (1) regenerate Gen/*.lean from /repo, (2) lake build the property's theorems, (3) audit axioms/sorry, "
         "(4) correspondence model-vs-implementation, (5) oracle search on the implementation, (6) decide. "
         "Exit 2 = infrastructure failure. See DESIGN.md.")
NOT_YET = {}
CHECKS = {
 "C03": dict(
  text=("Lean theorems for every finite string of Unicode scalar values and every escape table satisfying the decidable side condition "
        "tableOK (re-proved by `decide` for the table regenerated from ESCAPE_SEQUENCES on each run); the executable model of "
        "encode_token/decode_token/quote/unquote is tied to the code by a differential correspondence stream (all short strings over the "
        "structural alphabet, code points, biased random strings), and the oracle searches the real parser for a failing argument."),
  note=("Trusted: Lean kernel (+propext/Quot.sound/Classical.choice), harness/extract.py, the correspondence harness, CPython str.replace/"
        "urllib.quote/unquote as modelled in LiquerModel/Text.lean (validated differentially, not proved), pyparsing for the embedding oracle."),
 ),
 "C19": dict(
  text=("Full proof: toAbsolute_eq_posix (for every plain directory and every path of any length the model of _query_to_absolute equals "
        "POSIX normalisation with root-escape rejected), idempotence, and the frame theorems of Query.to_absolute. The model is tied to the "
        "code by exhaustive comparison over all directories of depth 0-4 x all paths of <= 5/6 components and generated query embeddings; "
        "the oracle is posixpath.normpath."),
  note=("Trusted: Lean kernel, the hand-written mirror LiquerModel/Paths.lean of ResourceQuerySegment._query_to_absolute/to_absolute and "
        "Query.to_absolute (tied by correspondence only), CPython posixpath as oracle. Directory argument assumed to consist of plain names."),
 ),
 "C02": dict(
  text=("Lean model of the whole pyparsing grammar (PEG over regenerated terminals and entity table) and of all encode() printers; "
        "theorems in Props/C02.lean (side conditions of the regenerated tables; print-parse round trip for well-formed ASTs as far as proved, "
        "see evidence: obligations vs statement-only); the model is tied to the code by bounded-exhaustive comparison (accept/reject, AST with "
        "offsets, canonical text, fixed-point verdict, WF verdict) on all short strings over three structural alphabets plus grammar-directed "
        "sentences and edits; the oracle checks the fixed point on the implementation for every accepted string. Two known findings "
        "(rtq-capture, resource-header empty parameter) are genuine violations of the unchanged code and are excluded by the WF hypothesis."),
  note=("Trusted: Lean kernel; harness/extract.py (regex -> item list conversion, entity table, grammar-shape comparison); the PEG reading of "
        "pyparsing (ordered choice, greedy repetition without back-tracking, white-space skipping, expandtabs, parseAll) is modelled and validated "
        "differentially, not proved; urllib unquote as in LiquerModel/Text.lean."),
 ),
}
