"""The fixed command vocabulary of the evaluator properties (C01, C04-C06, C09, C10, C18, C12).

Semantics are deliberately trivial and are written twice: here (registered with @command / @first_command
on the real registry) and in lean/LiquerModel/Vocab.lean. The *signatures* (argument names, types,
defaults, variadic, pass_state, first-command, namespace, attributes) are NOT written twice: the
translator (extract.py: gen_vocab) reads them from the live registry after register() has run.
"""
import importlib

CALLS = []          # call log of the instrumented commands: (ns, name, input, [args])


def canon(v):
    """canonical rendering of a value of the model's value domain"""
    if v is None:
        return "N"
    if v is True:
        return "B1"
    if v is False:
        return "B0"
    if isinstance(v, int):
        return "I%d" % v
    if isinstance(v, str):
        return "S" + (v.encode("utf-8", "surrogatepass").hex() or "-")
    if isinstance(v, (list, tuple)):
        return "L[" + ",".join(canon(x) for x in v) + "]"
    if isinstance(v, float):
        return "F" + repr(v)
    if isinstance(v, dict):
        # outside the model's value domain (implementation-side oracles only): rendered with its content so that two dictionaries compare by value
        return "D{" + ",".join(sorted("%s:%s" % (canon(k), canon(x)) for k, x in v.items())) + "}"
    return "?" + type(v).__name__


def _log(ns, name, inp, *args):
    CALLS.append("%s.%s(%s;%s)" % (ns, name, canon(inp), ",".join(canon(a) for a in args)))


def _str(x):
    if isinstance(x, (list, tuple, dict, float)):
        raise TypeError("unsupported")
    return str(x)


def register():
    """(re)create the registry with the vocabulary; returns the registry"""
    from liquer.commands import command, first_command, reset_command_registry
    reg = reset_command_registry()
    import sys
    if "liquer.ext.basic" in sys.modules:   # let, flag, state_variable, ns, filename, ... of the library itself
        importlib.reload(sys.modules["liquer.ext.basic"])
    else:
        import liquer.ext.basic  # noqa: F401

    @first_command
    def one():
        _log("root", "one", None)
        return 1

    @first_command
    def num(n: int = 7):
        _log("root", "num", None, n)
        return n

    @first_command
    def hello(name="world"):
        _log("root", "hello", None, name)
        if not isinstance(name, str):
            raise TypeError("name")
        return "hello " + name

    @first_command
    def vals(*args):
        _log("root", "vals", None, *args)
        return list(args)

    @command
    def add(x, y: int = 1):
        _log("root", "add", x, y)
        if not isinstance(x, int):
            raise TypeError("x")
        return x + y

    @command
    def cat(x, s="!"):
        _log("root", "cat", x, s)
        return _str(x) + _str(s)

    @command
    def rep(x, n: int, sep=","):
        _log("root", "rep", x, n, sep)
        if n > 10000:
            raise ValueError("rep: too many repetitions")      # (a link can produce an astronomically large count: fail, do not allocate)
        return _str(sep).join([_str(x)] * n)

    @command
    def argsc(x, a, b: int = 2, *rest):
        _log("root", "argsc", x, a, b, *rest)
        return [x, a, b] + list(rest)

    @command
    def fl(x, f: float = 0.5):
        _log("root", "fl", x, f)
        return "f=" + repr(f)

    @command
    def bo(x, b: bool = False):
        _log("root", "bo", x, b)
        return [x, b]

    @command
    def ident(x):
        _log("root", "ident", x)
        return x

    @command
    def tnum(x):
        _log("root", "tnum", x)
        return 7 if x is None else "t" + _str(x)    # the TYPE of the result depends on the input

    @command
    def boom(x):
        _log("root", "boom", x)
        raise Exception("boom")

    @command(volatile=False)
    def nvol(x):
        # registered with an explicit volatile=False: it does not MAKE a result volatile, and it must not make a volatile input cacheable
        _log("root", "nvol", x)
        return x

    @command(volatile=True)
    def vol(x):
        _log("root", "vol", x)
        return x

    @command
    def nocache(x, context=None):
        _log("root", "nocache", x)
        context.disable_cache()
        return x

    @command
    def app(x, v="q"):
        _log("root", "app", x, v)
        if not isinstance(x, list):
            raise TypeError("x")
        x.append(v)          # in-place mutation of the input
        return x

    @command
    def sub(x, q, context=None):
        _log("root", "sub", x, q)
        return [x, context.evaluate(q).get()]

    @command
    def nosub(x, q, context=None):
        # switches caching off and THEN evaluates a sub-query on its own context (not exported: implementation-side oracle of C05 only)
        _log("root", "nosub", x, q)
        context.disable_cache()
        return [x, context.evaluate(q).get()]

    @command
    def subon(x, q, context=None):
        # evaluates a sub-query ON its input value (evaluate_on from inside a command; not exported: oracle of C05 only)
        _log("root", "subon", x, q)
        return [x, context.evaluate_on(x, q).get()]

    @command
    def dkeys(d):
        # order-sensitive view of a dictionary (not exported: implementation-side oracle of C04 only)
        _log("root", "dkeys", None)
        if not isinstance(d, dict):
            raise TypeError("d")
        return ",".join(str(k) for k in d)

    @command(Keep="k1", low="l1")
    def attr1(x):
        _log("root", "attr1", x)
        return x

    @command(Other="o2", low="l2")
    def attr2(x):
        _log("root", "attr2", x)
        return x

    @command
    def fresh(x):
        # a command that builds its own State object (as liquer's df_from does): the evaluator must carry the state variables on.
        # NOT part of the exported vocabulary (such a command drops what only the state carries - file name, inherited attributes -
        # by the library's design): used by an implementation-side oracle of C01 only
        _log("root", "fresh", x)
        from liquer.state import State
        st = State().with_data(x)
        st.vars = {}
        return st

    @command
    def getvar(state, name):
        _log("root", "getvar", state.get(), name)
        return state.with_data(state.vars.get(name))

    @command(ns="alt")
    def add(x, y: int = 1):  # noqa: F811  (same name, other namespace)
        _log("alt", "add", x, y)
        if not isinstance(x, int):
            raise TypeError("x")
        return x + 100 * y

    # dictionary-valued commands: NOT part of the exported vocabulary (the model's value domain has no dictionaries); used by the
    # implementation-side oracles only (C18: data characteristics of a value that a command mutated in place)
    @first_command
    def dct(k="a"):
        _log("root", "dct", None, k)
        return {k: 1}

    @command
    def setk(d, k="b"):
        _log("root", "setk", None, k)
        if not isinstance(d, dict):
            raise TypeError("d")
        d[k] = len(d) + 1    # in place; returns the very object it was given
        return d

    @command
    def nest(d, k="x"):
        _log("root", "nest", None, k)
        if not isinstance(d, dict):
            raise TypeError("d")
        d.setdefault("in", []).append(k)    # in place, in a NESTED container
        return d

    @command(ns="alt")
    def only(x):
        _log("alt", "only", x)
        return "alt:" + _str(x)

    return reg


# commands of liquer.ext.basic that belong to the vocabulary (their semantics are mirrored in Vocab.lean too)
LIBRARY_COMMANDS = ["let", "flag", "state_variable", "ns"]
VOCAB = ["one", "num", "hello", "vals", "add", "cat", "rep", "argsc", "fl", "bo", "ident", "boom", "vol", "nvol", "nocache", "app", "sub",
         "attr1", "attr2", "getvar", "only", "tnum"] + LIBRARY_COMMANDS

# pool of float argument texts; the translator emits (text, repr(float(text)) | invalid) for each
FLOAT_POOL = ["0.5", "1", "-2", "1e3", "1.50", ".5", "5.", "1_0.5", "inf", "-inf", "nan", "1e-7", "12345678901234567890", "0.1", "3.14159", " 2.5 ",
              "abc", "", "1,5", "0x10", "1e", "--1", "+4.0", "1E2", "0.30000000000000004", "True", "N", "٣"]
