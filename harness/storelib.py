"""Shared by props/C07.py and props/C17.py: store stacks, canonical observations (same text as
lean/LiquerModel/Handlers/Store.lean prints), a small reference used only to *generate* well-formed
histories (the driver re-checks `wfHist`), contract clauses evaluated on observations."""
import os, hashlib, shutil, copy
from common import hx

UNIVERSE = ["a", "a/b", "a/c", "a/b/d", "a/b/d/f", "e", "e.txt", "a/__x"]      # "__x": a name that merely LOOKS internal (only __metadata__ is reserved)
SMALL_UNIVERSE = ["a", "a/b", "a/b/d", "e"]
DATA = [b"", b"1", b"2", b"22\xff"]      # two values of equal length: a checksum "reused because the size did not change" shows
USERS = ["u1", "u2"]
USER_FIELD = "verif_user"
MD5 = {hashlib.md5(d).hexdigest(): d for d in DATA + [b"\x01\x02", b"\x07", b"s", b"w"]}
MOUNT = "m"
BASES = ["mem", "file"]
WRAPS = ["plain", "proxy", "indexer", "overlay", "mount", "global"]


# ---------------------------------------------------------------- keys
def parent(k):
    return "/".join(k.split("/")[:-1])


def name(k):
    return k.split("/")[-1] if k else ""


def ancestors(k):
    p = k.split("/")
    return ["/".join(p[:i]) for i in range(1, len(p))]


def related(k, k2):
    """k2 is k, an ancestor of k (incl. the root) or a descendant of k"""
    return k2 == "" or k2 == k or k.startswith(k2 + "/") or k2.startswith(k + "/")


# ---------------------------------------------------------------- operations (tokens of the line protocol)
def tok(op):
    t = op[0]
    if t == "S":
        return "S:%s:%s:%s" % (hx(op[1]), hx(op[2]), hx(op[3]))
    if t == "M":
        return "M:%s:%s:%s:%s" % (hx(op[1]), hx(op[2]), "~" if op[3] is None else str(op[3]), "~" if op[4] is None else hx(op[4]))
    if t == "R":
        return "R:%s" % hx(op[1])
    if t == "D":
        return "D:%s:%d" % (hx(op[1]), 1 if op[2] else 0)
    if t == "K":
        return "K:%s" % hx(op[1])
    raise ValueError(op)


def op_to_json(op):
    return [x.hex() if isinstance(x, bytes) else x for x in op]


def op_from_json(j):
    j = list(j)
    if j[0] == "S":
        j[2] = bytes.fromhex(j[2])
    if j[0] == "M" and j[4] is not None:
        j[4] = bytes.fromhex(j[4])
    return tuple(j)


def show(op):
    t = op[0]
    if t == "S":
        return "store(%r, %r, {%s: %r})" % (op[1], op[2], USER_FIELD, op[3])
    if t == "M":
        return "store_metadata(%r, {%s: %r%s})" % (op[1], USER_FIELD, op[2], "" if op[3] is None else ", fileinfo.size: %r, fileinfo.md5 of %r" % (op[3], op[4]))
    if t == "R":
        return "remove(%r)" % op[1]
    if t == "D":
        return "removedir(%r, recursive=%r)" % (op[1], bool(op[2]))
    return "makedir(%r)" % op[1]


def show_hist(h):
    return "; ".join(show(o) for o in h)


# ---------------------------------------------------------------- reference used by the generator (mirror of specOps / wfOp)
class Ref:
    def __init__(self):
        self.n = {}  # key -> ("dir",) | ("file", data, user, size, md5data)

    def copy(self):
        r = Ref()
        r.n = dict(self.n)
        return r

    def is_file(self, k):
        return k in self.n and self.n[k][0] == "file"

    def is_dir(self, k):
        return k == "" or (k in self.n and self.n[k][0] == "dir")

    def children(self, k):
        return [q for q in self.n if q and parent(q) == k]

    def wf(self, op):
        t, k = op[0], op[1]
        if t == "S":
            return k != "" and not self.is_dir(k) and not any(self.is_file(a) for a in ancestors(k))
        if t in ("M", "R"):
            return self.is_file(k)
        if t == "D":
            return k != "" and self.is_dir(k) and (bool(op[2]) or not self.children(k))
        if t == "K":
            return k != "" and not any(self.is_file(a) for a in ancestors(k) + [k])
        raise ValueError(op)

    def apply(self, op):
        t, k = op[0], op[1]
        if t == "S":
            for a in ancestors(k):
                self.n.setdefault(a, ("dir",))
            self.n[k] = ("file", op[2], op[3], len(op[2]), op[2])
        elif t == "M":
            self.n[k] = ("file", self.n[k][1], op[2], op[3], op[4])
        elif t == "R":
            self.n.pop(k, None)
        elif t == "D":
            if op[2]:
                for q in [q for q in self.n if q == k or q.startswith(k + "/")]:
                    del self.n[q]
            elif not self.children(k):
                self.n.pop(k, None)
        elif t == "K":
            for a in ancestors(k) + [k]:
                self.n.setdefault(a, ("dir",))

    def candidates(self, universe, data=DATA, users=USERS):
        res = []
        for k in universe:
            for d in data:
                for u in users:
                    res.append(("S", k, d, u))
            for u in users:
                res.append(("M", k, u, None, None))
                if self.is_file(k):
                    res.append(("M", k, u, self.n[k][3], self.n[k][4]))   # metadata read back, one field changed, stored again
            res.append(("R", k))
            res.append(("D", k, 0))
            res.append(("D", k, 1))
            res.append(("K", k))
        return [o for o in res if self.wf(o)]


def random_history(rng, n, universe=UNIVERSE):
    r, h = Ref(), []
    kinds = "SSSMRDK"
    for _ in range(n):
        cands = r.candidates(universe)
        kind = rng.choice(kinds)
        sub = [o for o in cands if o[0] == kind] or cands
        # prefer operations that do something: removals of present keys come from wf itself
        op = rng.choice(sub)
        h.append(op)
        r.apply(op)
    return h


def all_histories(n, universe=SMALL_UNIVERSE, data=(b"1",), users=("u1",)):
    """all well-formed histories of length exactly <= n over the reduced universe (one data value, one user)"""
    res = []

    def go(r, h):
        res.append(list(h))
        if len(h) == n:
            return
        for op in r.candidates(universe, data=list(data), users=list(users)):
            r2 = r.copy()
            r2.apply(op)
            h.append(op)
            go(r2, h)
            h.pop()
    go(Ref(), [])
    return res


# ---------------------------------------------------------------- stacks
class Stack:
    """a store under test + the key translation of its mount prefix + access to the backing store"""

    def __init__(self, base, wrap, scratch):
        import liquer.store as S
        self.name = "%s-%s" % (wrap, base)
        self.base, self.wrap = base, wrap
        self.dir = None
        if base == "mem":
            self.backing = S.MemoryStore()
        else:
            self.dir = os.path.join(scratch, "st%d" % Stack.counter)
            Stack.counter += 1
            os.makedirs(self.dir)
            self.backing = S.FileStore(self.dir)
        b = self.backing
        self.prefix = ""
        if wrap == "plain":
            self.store = b
        elif wrap == "proxy":
            self.store = S.ProxyStore(b)
        elif wrap == "indexer":
            self.store = S.IndexerStore(b)
        elif wrap == "overlay":
            self.store = S.OverlayStore(b, S.MemoryStore())
        elif wrap == "mount":
            self.store = S.MountPointStore().mount(MOUNT, b)
            self.prefix = MOUNT
        elif wrap == "global":
            self.store = S.MountPointStore().with_indexer()
            self.store.mount(MOUNT, b)
            self.prefix = MOUNT
        else:
            raise ValueError(wrap)

    counter = 0

    def K(self, k):
        if not self.prefix:
            return k
        return self.prefix if k == "" else self.prefix + "/" + k

    def unK(self, k):
        if not self.prefix:
            return k
        if k == self.prefix:
            return ""
        if isinstance(k, str) and k.startswith(self.prefix + "/"):
            return k[len(self.prefix) + 1:]
        return "?outside-mount:" + str(k)

    def close(self):
        if self.dir:
            shutil.rmtree(self.dir, ignore_errors=True)

    def raw(self):
        """everything the backing store holds (file tree with contents / the three containers)"""
        return raw_snapshot(self.backing)


def raw_snapshot(store):
    import liquer.store as S
    if isinstance(store, S.FileStore):
        return tree_snapshot(str(store.path))
    if isinstance(store, S.MemoryStore):
        return (sorted(store.directories), sorted(store.data.items()), sorted((k, strip_times(v)) for k, v in store.metadata.items()))
    for attr in ("_store", "substore", "overlay", "default_store"):
        if getattr(store, attr, None) is not None:
            extra = []
            if hasattr(store, "routing_table"):
                extra = [(k, raw_snapshot(s)) for k, s in store.routing_table]
            if hasattr(store, "removed"):
                extra.append(sorted(store.removed))
            return (raw_snapshot(getattr(store, attr)), extra)
    if hasattr(store, "routing_table"):
        return [(k, raw_snapshot(s)) for k, s in store.routing_table]
    return repr(store)


def strip_times(m):
    return repr(sorted((k, v) for k, v in m.items()))


def tree_snapshot(root):
    """(relative path, 'd' | file bytes) for everything below root, sorted"""
    res = []
    for d, dirs, files in os.walk(root):
        dirs.sort()
        rel = os.path.relpath(d, root)
        res.append((rel, "d"))
        for f in sorted(files):
            p = os.path.join(d, f)
            try:
                with open(p, "rb") as fh:
                    res.append((os.path.join(rel, f), fh.read()))
            except OSError as ex:
                res.append((os.path.join(rel, f), "unreadable %r" % ex))
    return res


_SHARED_MD = {}
_STORE_COUNT = [0]


def apply_op(store, K, op):
    """returns the result class of the protocol: ok | E.."""
    t = op[0]
    try:
        if t == "S":
            # callers may reuse one metadata dictionary object for several keys (finalize_metadata fills it in place):
            # every other store() of a run hands over the same object, so aliasing between stored entries shows up
            _STORE_COUNT[0] += 1
            if _STORE_COUNT[0] % 3 == 1:
                _SHARED_MD[USER_FIELD] = op[3]
                store.store(K(op[1]), op[2], _SHARED_MD)
            elif _STORE_COUNT[0] % 3 == 2:
                # read - amend - write: the caller recycles the metadata he read for the key (fileinfo of the previous content included)
                try:
                    m = store.get_metadata(K(op[1]))
                    if not isinstance(m, dict):
                        m = {}
                except Exception:
                    m = {}
                m[USER_FIELD] = op[3]
                store.store(K(op[1]), op[2], m)
            else:
                store.store(K(op[1]), op[2], {USER_FIELD: op[3]})
        elif t == "M":
            if op[3] is None and op[4] is None:
                m = {USER_FIELD: op[2]}
            else:
                m = store.get_metadata(K(op[1]))     # the caller edits what he read
                m[USER_FIELD] = op[2]
            store.store_metadata(K(op[1]), m)
        elif t == "R":
            store.remove(K(op[1]))
        elif t == "D":
            store.removedir(K(op[1]), recursive=bool(op[2]))
        elif t == "K":
            store.makedir(K(op[1]))
    except Exception as ex:
        return err(ex)
    return "ok"


def err(ex):
    import liquer.store as S
    if isinstance(ex, S.KeyNotFoundStoreException):
        return "Enf"
    if isinstance(ex, S.KeyNotSupportedStoreException):
        return "Ens"
    if isinstance(ex, S.KeyRouteNotFoundStoreException):
        return "Ert"
    if isinstance(ex, S.ReadOnlyStoreException):
        return "Ero"
    return "Eot"


def tf(f):
    try:
        r = f()
    except Exception as ex:
        return err(ex)
    return "T" if r is True else "F" if r is False else "?" + repr(r)[:20]


def sorted_join(xs):
    xs = list(xs)
    return ",".join(sorted(xs)) if xs else "0"


class Obs:
    """observation of one key; `text` is the protocol text, the raw values serve the contract oracle"""
    __slots__ = ("contains", "is_dir", "bytes", "meta", "listdir", "text", "md5_raw", "raw_meta_key")


def observe_key(store, K, unK, k):
    o = Obs()
    kk = K(k)
    o.contains = tf(lambda: store.contains(kk))
    o.is_dir = tf(lambda: store.is_dir(kk))
    try:
        b = store.get_bytes(kk)
        o.bytes = hx(b) if isinstance(b, bytes) else "?" + repr(b)[:20]
    except Exception as ex:
        o.bytes = err(ex)
    o.md5_raw = None
    try:
        m = store.get_metadata(kk)
        fi = m.get("fileinfo", {})
        o.md5_raw = fi.get("md5")
        md5 = fi.get("md5")
        nm = fi.get("name", "?")
        if k == "" and kk != "" and nm == name(kk):
            nm = ""   # the root of a mounted store is seen at its mount point and carries the mount point's name
        o.meta = ".".join([hx(unK(m.get("key"))), hx(nm), "T" if fi.get("is_dir") is True else "F" if fi.get("is_dir") is False else "?",
                           "~" if fi.get("size") is None else str(fi.get("size")),
                           "~" if md5 is None else (hx(MD5[md5]) if md5 in MD5 else "?" + str(md5)), hx(m.get(USER_FIELD, ""))])
    except Exception as ex:
        o.meta = err(ex)
    try:
        l = store.listdir(kk)
        o.listdir = "N" if l is None else sorted_join(hx(x) for x in l)
    except Exception as ex:
        o.listdir = err(ex)
    o.text = "/".join([o.contains, o.is_dir, o.bytes, o.meta, o.listdir])
    return o


def observe(store, K, unK, universe):
    """(keys text, [Obs per universe key])"""
    try:
        ks = list(store.keys())
        pre = K("")
        if pre:
            ks = [x for x in ks if x != pre]      # the mount point itself is the root of the mounted store
        keys = sorted_join(hx(unK(x)) for x in ks)
    except Exception as ex:
        keys = err(ex)
    return keys, [observe_key(store, K, unK, k) for k in universe]


def state_text(keys, obs):
    return ";".join([keys] + [o.text for o in obs])


def canon_field(i, f):
    """canonicalisation applied on both sides when a stack is compared with the *specification*:
    the property does not distinguish `None` from an empty listing, nor the kind of failure of get_bytes"""
    if i == 2 and f.startswith("E"):
        return "E"
    if i == 4 and f == "N":
        return "0"
    return f


def canon_obs_text(t):
    return "/".join(canon_field(i, f) for i, f in enumerate(t.split("/")))


def canon_state_text(t):
    parts = t.split(";")
    # parts: [result,] keys, obs...   (obs fields contain '/')
    return ";".join(canon_obs_text(p) if "/" in p else p for p in parts)


def first_difference(a_states, b_states, universe, hist):
    """human readable first difference of two lists of state texts"""
    for i, (a, b) in enumerate(zip(a_states, b_states)):
        if a != b:
            pa, pb = a.split(";"), b.split(";")
            labels = ["result", "keys()"] + ["key %r" % k for k in universe]
            for lab, x, y in zip(labels, pa, pb):
                if x != y:
                    where = "initially" if i == 0 else "after step %d %s" % (i, show(hist[i - 1]))
                    return "%s, %s: %s" % (where, lab, x), "%s, %s: %s" % (where, lab, y)
            return "step %d: %s" % (i, a[:80]), "step %d: %s" % (i, b[:80])
    if len(a_states) != len(b_states):
        return "%d states" % len(a_states), "%d states" % len(b_states)
    return None


def run_history(stack, hist, universe, purity=True):
    """runs the history; returns (state texts incl. result, list of (keys, [Obs]) per state, purity failure or None)"""
    store, K, unK = stack.store, stack.K, stack.unK
    keys, obs = observe(store, K, unK, universe)
    states = ["init;" + state_text(keys, obs)]
    full = [(keys, obs)]
    impure = None
    for i, op in enumerate(hist):
        res = apply_op(store, K, op)
        raw0 = stack.raw() if purity else None
        keys, obs = observe(store, K, unK, universe)
        if purity:
            raw1 = stack.raw()
            keys2, obs2 = observe(store, K, unK, universe)
            if impure is None and (raw0 != raw1 or state_text(keys, obs) != state_text(keys2, obs2)):
                impure = "after step %d %s the reads (contains, is_dir, get_bytes, get_metadata, listdir on every key, keys()) changed %s" % (
                    i + 1, show(op), "the backing store" if raw0 != raw1 else "what a second round of the same reads returns")
        states.append(res + ";" + state_text(keys, obs))
        full.append((keys, obs))
    return states, full, impure


def keys_list(keys_text):
    return [] if keys_text in ("0",) or keys_text.startswith("E") else keys_text.split(",")


def count_in(listing_text, item_hex):
    if listing_text in ("0", "N") or listing_text.startswith("E"):
        return 0
    return listing_text.split(",").count(item_hex)


def contract(hist, states, full, universe):
    """the clauses of C07 evaluated on the observations of one stack; returns (clause, text) or None"""
    idx = {k: i for i, k in enumerate(universe)}
    for step, op in enumerate(hist, 1):
        res = states[step].split(";")[0]
        keys, obs = full[step]
        pkeys, pobs = full[step - 1]
        t, k = op[0], op[1]
        where = "after step %d %s" % (step, show(op))
        if res != "ok":
            return "raises", "%s: the operation raised (%s) although the history is well-formed" % (where, res)
        o = obs[idx[k]]
        if t == "S":
            d, u = op[2], op[3]
            if o.bytes != hx(d):
                return "read-back", "%s: get_bytes gives %s" % (where, o.bytes)
            exp = ".".join([hx(k), hx(name(k)), "F", str(len(d)), hx(d), hx(u)])
            if o.meta != exp or o.md5_raw != hashlib.md5(d).hexdigest():
                return "metadata", "%s: get_metadata (key.name.is_dir.size.md5.user) gives %s (md5 %s), expected %s" % (where, o.meta, o.md5_raw, exp)
        if t == "M":
            f = o.meta.split(".")
            if len(f) != 6 or f[5] != hx(op[2]) or f[0] != hx(k) or f[1] != hx(name(k)) or f[2] != "F":
                return "metadata", "%s: get_metadata gives %s" % (where, o.meta)
            if o.bytes != pobs[idx[k]].bytes:
                return "read-back", "%s: the bytes changed from %s to %s" % (where, pobs[idx[k]].bytes, o.bytes)
        if t in ("S", "M", "K"):
            for q in ancestors(k) + [k]:
                oq = obs[idx[q]] if q in idx else None
                if oq is not None:
                    if oq.contains != "T":
                        return "present", "%s: contains(%r) is %s" % (where, q, oq.contains)
                    if q != k or t == "K":
                        if oq.is_dir != "T":
                            return "present", "%s: is_dir(%r) is %s" % (where, q, oq.is_dir)
                n = keys_list(keys).count(hx(q))
                if n != 1:
                    return "exactly-once", "%s: %r occurs %d times in keys() = %s" % (where, q, n, keys)
                pq = parent(q)
                if pq in idx:
                    n = count_in(obs[idx[pq]].listdir, hx(name(q)))
                    if n != 1:
                        return "exactly-once", "%s: %r occurs %d times in listdir(%r) = %s" % (where, name(q), n, pq, obs[idx[pq]].listdir)
        if t in ("R", "D"):
            gone = [k] + ([q for q in universe if q.startswith(k + "/")] if t == "D" else [])
            for q in gone:
                oq = obs[idx[q]]
                if oq.contains != "F":
                    return "removed", "%s: contains(%r) is %s" % (where, q, oq.contains)
                if not oq.bytes.startswith("E"):
                    return "removed", "%s: get_bytes(%r) does not fail (%s)" % (where, q, oq.bytes)
                if hx(q) in keys_list(keys):
                    return "removed", "%s: %r still in keys() = %s" % (where, q, keys)
                pq = parent(q)
                if pq in idx and count_in(obs[idx[pq]].listdir, hx(name(q))):
                    return "removed", "%s: %r still in listdir(%r)" % (where, name(q), pq)
        # frame
        for q in universe:
            if q != "" and not related(k, q):
                if obs[idx[q]].text != pobs[idx[q]].text:
                    return "frame", "%s: the unrelated key %r changed from %s to %s" % (where, q, pobs[idx[q]].text, obs[idx[q]].text)
        unrel = lambda ks: sorted(x for x in keys_list(ks) if not related(k, bytes.fromhex(x).decode() if x != "-" else ""))
        if unrel(keys) != unrel(pkeys):
            return "frame", "%s: unrelated entries of keys() changed from %s to %s" % (where, pkeys, keys)
    return None
