#!/usr/bin/env python3
"""Print the markdown table of DESIGN.md §8 from seeded/*/meta.json (and notes.md's first heading)."""
import json, os, glob, re
HERE = os.path.dirname(os.path.abspath(__file__))
rows = []
for d in sorted(glob.glob(os.path.join(HERE, "..", "seeded", "*"))):
    mp = os.path.join(d, "meta.json")
    if not os.path.exists(mp):
        continue
    m = json.load(open(mp))
    notes = m.get("needs_to_manifest", "")
    title = ""
    for line in notes.split("\n"):
        if line.startswith("#"):
            title = line.lstrip("# ").strip()
            break
    title = re.sub(r"^(C\d\d )?(seed|change|Change|Seed) ?\d* ?[—:-]* ?", "", title)
    rows.append("| `%s` | %s | %s | %s |" % (os.path.basename(d), m.get("breaks", ""), title[:150].replace("|", "/"), ", ".join(m.get("caught_by", [])) or "—"))
print("| seeded change | property | what it does | caught by |\n|---|---|---|---|")
print("\n".join(rows))
