#!/usr/bin/env python3
"""Regenerate MANIFEST.json from harness/manifest_src.py (keeps the file valid at all times)."""
import json, os, sys
HERE = os.path.dirname(os.path.abspath(__file__))
sys.path.insert(0, HERE)
import manifest_src as M

props = [json.loads(l)["id"] for l in open(os.path.join(HERE, "..", "properties.jsonl"))]
checks, na = [], []
for p in props:
    if p in M.CHECKS:
        c = M.CHECKS[p]
        checks.append(dict(
            property_id=p,
            quick_cmd="./check %s --tier quick" % p,
            thorough_cmd="./check %s --tier thorough" % p,
            evidence_file="evidence/%s.json" % p,
            replay_cmd_template="./check %s --replay {path}" % p,
            engine="lean4-proof+correspondence",
            level_claimed=dict(category="proof", text=c["text"], design_ref=c.get("design_ref", "DESIGN.md §4 " + p)),
            level_note=c["note"],
            technique=c.get("technique", "Lean 4 theorems over a formal model + translator-regenerated tables + differential correspondence check"),
        ))
    else:
        na.append(dict(property_id=p, reason=M.NOT_YET.get(p, "check not built yet in this session (no technique switch; see DESIGN.md §7)")))
man = dict(
    version=1,
    setup_cmd="./setup.sh",
    hooks=dict(guard="LIQUER_VERIF", enable="no source hooks: interposition is done from the harness (see DESIGN.md §2.6)",
               baseline_off_cmd="cd /repo && /venv/bin/python -m pytest -ra -q -p no:cacheprovider --timeout=900 --continue-on-collection-errors",
               source_commits=M.HOOK_COMMITS, add_only=True),
    engines=[dict(name="lean4-proof+correspondence", path="check", serves_properties=[c["property_id"] for c in checks],
                  kind_free_text="Lean 4 kernel-checked theorems over executable models (lean/), tables regenerated from /repo by harness/extract.py, model-vs-implementation correspondence over a line protocol (lean/Driver.lean), oracle search for replays")],
    checks=checks,
    notes=M.NOTES,
    not_applicable=na,
)
json.dump(man, open(os.path.join(HERE, "..", "MANIFEST.json"), "w"), indent=1)
print("checks:", [c["property_id"] for c in checks], "not claimed:", [n["property_id"] for n in na])
