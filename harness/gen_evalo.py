#!/usr/bin/env python3
"""Regenerate the mutual block of lean/LiquerModel/EvalO.lean from lean/LiquerModel/Eval.lean (World -> oracle world).
Usage: gen_evalo.py [--check]   (--check: exit 1 if EvalO.lean is out of date)"""
import os, sys
HERE = os.path.dirname(os.path.abspath(__file__))
L = os.path.join(HERE, "..", "lean", "LiquerModel")
BEGIN, END = "mutual\n  /-- `Context.evaluate(text)`", "/-- fuel that suffices"


def block():
    src = open(os.path.join(L, "Eval.lean"), encoding="utf-8").read()
    m = src[src.index(BEGIN):src.index(END)]
    for a in ("evalText", "evalQ", "evalAction", "evalParams"):
        m = m.replace(a, a + "O")
    m = m.replace("World", "OW")
    old = ("      let hit : Option EState := if extra.isEmpty && input.isNone && useCache then w.get key else none\n"
           "      match hit with")
    new = ("      let (w, hit) : OW × Option EState := if extra.isEmpty && input.isNone && useCache then w.ask key else (w, none)\n"
           "      if w.starved then (w, .unmodelled) else\n"
           "      match hit with")
    assert old in m, "the cache look-up site of evalQ changed: update gen_evalo.py"
    return m.replace(old, new)


def main():
    p = os.path.join(L, "EvalO.lean")
    cur = open(p, encoding="utf-8").read()
    i = cur.index("mutual\n")
    j = cur.rindex("\nend Liquer")
    new = cur[:i] + block() + cur[j:]
    if "--check" in sys.argv:
        sys.exit(0 if new == cur else 1)
    if new != cur:
        open(p, "w", encoding="utf-8").write(new)
        print("EvalO.lean regenerated")


if __name__ == "__main__":
    main()
