"""C08 — recipes materialise on demand, once, as the serialised query result.

Correspondence: liquer.recipes.RecipeSpecStore over a MemoryStore / FileStore, mounted into the global store, driven through
the global store (get_bytes / get_metadata / contains / is_dir / keys / listdir / remove / the clean_recipes command) vs
LiquerModel/Recipes.lean (`rcp` line of the driver): declarations (resolved query, title, description, recipe name), then after
every operation its result, the observation of a key universe, the key listing and the evaluation log.
Oracle (implementation only): the bytes read equal the directly evaluated query serialised for the key's extension
(evaluated in a separate, fresh environment), an independent state machine for the status transitions and the rules for
the evaluation log (only reads of keys without data evaluate; each key at most once per read; never a ready key).
"""
import os, sys, json, shutil, importlib, time
import common
from common import hx

RULE = ("recipes files of 2-7 recipes built from generated queries (plain / dictionary form with title, description, filename "
        "override; RECIPES and 0-2 sub-directory sections; '.'/'..'/absolute references to other recipes in both resource forms; "
        "raising, unknown-command, unserialisable and missing-dependency recipes) at depth 0-2 of a Memory/File-backed recipe store "
        "mounted at a 1-2 component key of a plain or indexing global store; histories of <= 10 operations; non-trivial = history "
        "that evaluates a recipe and later re-reads, removes or cleans it")
TRUSTED = ["modelled: resolve_recipe_definition, NewRecipeSpecStore (update_recipes, make, recipe_metadata, reads, store, store_metadata, remove, create_status as a write), "
           "QueryRecipe.make, Context._store_state (which extension, store vs store_metadata), Context.evaluate_resource (metadata then bytes of the referenced key), "
           "clean_recipes (LiquerModel/Recipes.lean); MemoryStore / FileStore parts are memOps / fileOps (tied to the code by C07)",
           "abstracted: the evaluator - evalQ(resolved query, extension) is a table computed per case by evaluating the query directly in a fresh environment (C01/C11 are about it)",
           "not modelled: YAML loading (recipes are sent as structured data), the text of recipes_status.txt (masked), MountPointStore/PrefixStore key translation (C14; keys are compared relative to the mount point)",
           "oracle: harness-side reference state machine + liquer.state_types.encode_state_data on the directly evaluated state"]
ASSUMPTIONS = ["the first action of every generated transformation is an instrumented command that cannot fail (it logs the evaluation); failures come from later actions, the serialiser or a missing dependency",
               "recipe definitions parse, resolve inside the global root and have a file name; no key component starts with '.' (ignored keys); distinct recipes define distinct keys; references form no cycle",
               "the evaluator is deterministic and depends on the store only through the referenced key; the cache is NoCache",
               "c08_first_read / c08_remove_resets / c08_failure are proved for a MemoryStore sub-store (memOps); the FileStore sub-store is covered by the correspondence and by concrete model runs (a failing recipe is retried there)"]
EXPLANATION = ("theorems on the model: declared keys are visible with recipe metadata before they exist; a first read evaluates once and stores evalQ's bytes with status ready and the recipe's name/version; "
               "for every history the evaluation log grows only at a get_bytes of a declared key the sub-store does not contain (induction over the history, any sub-store model); remove resets; "
               "a failing recipe leaves error metadata and no data; resolution of relative references is C19's POSIX normalisation against the recipe's directory")

STATUS_FILE = "recipes_status.txt"
CALLS = []
_registered_for = [None]


# --------------------------------------------------------------------------------------------- vocabulary

def ensure_vocab():
    """the instrumented vocabulary: tick/dct/cnt (first commands) and tock log their tag; up/cat/boom do not log"""
    from liquer.commands import command, first_command, reset_command_registry, command_registry
    reg = command_registry()
    if _registered_for[0] == (os.getpid(), id(reg)):
        return
    reset_command_registry()
    for m in ("liquer.ext.basic", "liquer.ext.meta"):
        if m in sys.modules:
            importlib.reload(sys.modules[m])
        else:
            importlib.import_module(m)

    @first_command
    def tick(tag="t"):
        CALLS.append(tag)
        return "tick:" + tag

    @first_command
    def dct(tag="t"):
        CALLS.append(tag)
        return dict(tag=tag, n=1)

    @first_command
    def cnt(tag="t"):
        CALLS.append(tag)
        return len(tag) + 40

    @command
    def tock(x, tag="t"):
        CALLS.append(tag)
        if isinstance(x, bytes):
            x = x.decode("utf-8")
        return str(x) + "|tock:" + tag

    @command
    def up(x):
        return str(x).upper()

    @command
    def cat(x, s="!"):
        return str(x) + str(s)

    @command
    def boom(x):
        raise Exception("boom")

    from liquer.commands import command_registry as cr
    _registered_for[0] = (os.getpid(), id(cr()))


# --------------------------------------------------------------------------------------------- cases

def join(a, b):
    return b if a == "" else a + "/" + b


def parent(k):
    return "/".join(k.split("/")[:-1])


def rjoin(root, k):
    """root key of the local key `k`"""
    return root if k == "" else root + "/" + k


def item_cwd(f, sec):
    p = parent(f["key"])
    return p if sec["name"] == "RECIPES" else join(p, sec["name"])


def item_name(it):
    return it["filename"] if it.get("filename") is not None else it["query"].split("/")[-1]


def items_of(case):
    """[(file, section, index, item, local key)]"""
    res = []
    for f in case["files"]:
        for sec in f["sections"]:
            for i, it in enumerate(sec["items"]):
                res.append((f, sec, i, it, join(item_cwd(f, sec), item_name(it))))
    return res


def yq(s, quoted):
    return json.dumps(s) if quoted else s


def yaml_text(f):
    lines = []
    for sec in f["sections"]:
        lines.append("%s:" % sec["name"])
        for it in sec["items"]:
            if it["kind"] == "p":
                lines.append("  - " + yq(it["query"], it.get("quoted", True)))
            else:
                first = True
                for fld in ("query", "title", "description", "filename"):
                    if it.get(fld) is not None:
                        lines.append(("  - " if first else "    ") + "%s: %s" % (fld, yq(it[fld], it.get("quoted", True) or fld != "query")))
                        first = False
    return ("\n".join(lines) + "\n").encode("utf-8")


def rel_path(rng, cwd_root, target_root):
    """a spelling of the root key `target_root` as seen from the directory `cwd_root` (both inside the global store)"""
    c = cwd_root.split("/") if cwd_root else []
    t = target_root.split("/")
    kind = rng.random()
    if kind < 0.2:
        return "/".join(t)                                    # absolute
    n = 0
    while n < len(c) and n < len(t) - 1 and c[n] == t[n]:
        n += 1
    ups = len(c) - n
    comps = ([".."] * ups if ups else ["."]) + t[n:]
    if kind < 0.35 and ups:
        comps = ["."] + comps                                  # ./../x
    elif kind < 0.5 and len(comps) >= 2:
        comps = comps[:-1] + ["zz", ".."] + comps[-1:]          # detour through a sibling
    elif kind < 0.6:
        comps = comps[:1] + ["."] + comps[1:]
    return "/".join(comps)


def gen_case(rng):
    root = rng.choice(["m", "m", "rs", "mnt/r"])
    depth = rng.choice([0, 0, 1, 1, 2])
    fdir = ["", "a", "a/b"][depth]
    f = dict(key=join(fdir, "recipes.yaml"), sections=[])
    secnames = ["RECIPES"] + rng.sample(["sub", "s2"], rng.choice([0, 1, 1, 2]))
    rng.shuffle(secnames)
    n = rng.randint(2, 7)
    placed = []     # (local key, kind of value)
    per_sec = {s: [] for s in secnames}
    for i in range(n):
        sec = rng.choice(secnames)
        cwd = fdir if sec == "RECIPES" else join(fdir, sec)
        tag = "r%d" % i
        ext = rng.choice(["txt", "txt", "json", "json", "djson"])
        stem = "f%d" % i
        shape = rng.random()
        extras = []
        fail = rng.random()
        if fail < 0.12:
            extras.append("boom")
        elif fail < 0.2:
            extras.append("nosuch")
        elif fail < 0.45:
            extras += rng.choice([["up"], ["cat-zz"], ["cat-q", "up"]])
        if shape < 0.5 or not placed:
            head = rng.choice(["tick", "tick", "dct", "cnt"]) + "-" + tag
            if head.startswith(("dct", "cnt")):
                extras = [e for e in extras if e in ("boom", "nosuch")] if rng.random() < 0.7 else extras
        else:
            if rng.random() < 0.08:
                target_root = rjoin(root, join(cwd, "missing.txt"))       # a reference to a key nobody declares
            else:
                target_root = rjoin(root, rng.choice(placed))
            path = rel_path(rng, rjoin(root, cwd), target_root)
            head = (rng.choice(["-R/", ""]) + path + "/-/tock-" + tag)
        with_fn = True
        it = dict(kind="p", quoted=rng.random() < 0.5)
        if rng.random() < 0.45:
            it["kind"] = "d"
            if rng.random() < 0.6:
                it["title"] = rng.choice(["Title %d" % i, "T", ""])
            if rng.random() < 0.5:
                it["description"] = rng.choice(["Description of %d." % i, "d"])
            r = rng.random()
            if r < 0.25:
                it["filename"] = "g%d.%s" % (i, ext)                       # other stem, same format
            elif r < 0.45:
                it["filename"] = "g%d.%s" % (i, rng.choice(["txt", "json", "djson"]))   # possibly another format
            elif r < 0.55:
                it["filename"] = "g%d.%s" % (i, ext)
                with_fn = False                                           # query without a file name
        q = "/".join([head] + extras + (["%s.%s" % (stem, ext)] if with_fn else []))
        if it["kind"] == "p" and not it["quoted"] and not q[0].isalpha():
            it["quoted"] = True
        it["query"] = q
        per_sec[sec].append(it)
        placed.append(join(cwd, item_name(it)))
    f["sections"] = [dict(name=s, items=per_sec[s]) for s in secnames if per_sec[s]]
    case = dict(backend=rng.choice("MF"), glob=rng.choice(["mp", "ix"]), root=root, setup=rng.choice(["pre", "pre", "post"]), files=[f], ops=[])
    keys = [k for *_, k in items_of(case)]
    dirs = sorted({""} | {"/".join(k.split("/")[:i]) for k in keys for i in range(1, len(k.split("/")))})
    nops = rng.randint(3, 10)
    read = []
    for _ in range(nops):
        r = rng.random()
        if r < 0.4:
            k = rng.choice(keys + read) if rng.random() < 0.93 else rng.choice([join(fdir, "missing.txt")] + dirs[1:2])
            case["ops"].append(["b", k])
            read.append(k)
        elif r < 0.5:
            case["ops"].append(["m", rng.choice(keys + dirs)])
        elif r < 0.55:
            case["ops"].append(["c", rng.choice(keys + dirs + [join(fdir, "missing.txt")])])
        elif r < 0.6:
            case["ops"].append(["d", rng.choice(keys + dirs)])
        elif r < 0.64:
            case["ops"].append(["k"])
        elif r < 0.7:
            case["ops"].append(["l", rng.choice(dirs)])
        elif r < 0.88:
            case["ops"].append(["r", rng.choice(read or keys)])
        else:
            case["ops"].append(["x", rng.choice(dirs), rng.choice([0, 1])])
    # a real cache: only for recipes without references to other keys (a cached intermediate result of a query that reads a store key
    # is served without reading the key again, so whether a dependency is re-materialised is not determined - the cache key does not
    # cover store content, C04's "fixed store contents")
    plain = all("-R" not in it["query"] and "/-/" not in it["query"] for *_, it, _k in items_of(case))
    if plain and rng.random() < 0.6:
        case["cache"] = "M"
        case["warm"] = rng.random() < 0.5
    return case


def universe(case):
    keys = [k for *_, k in items_of(case)]
    dirs = sorted({""} | {"/".join(k.split("/")[:i]) for k in keys for i in range(1, len(k.split("/")))})
    fdir = parent(case["files"][0]["key"])
    return dirs + sorted(set(keys)) + [join(fdir, "missing.txt")]


# --------------------------------------------------------------------------------------------- implementation

class Env:
    """one global store with the recipe store of the case mounted; `close()` restores the globals"""

    def __init__(self, case, cache=None):
        import liquer.store as st
        from liquer.cache import set_cache, NoCache, MemoryCache
        from liquer.recipes import RecipeSpecStore
        ensure_vocab()
        set_cache(MemoryCache() if (cache or case.get("cache", "N")) == "M" else NoCache())
        self.st = st
        self.case = case
        self.tmp = None
        if case["backend"] == "F":
            self.tmp = common.scratch_dir()
            self.sub = st.FileStore(self.tmp)
        else:
            self.sub = st.MemoryStore()
        st.set_store(None)
        if case["glob"] == "mp":
            st.set_store(st.MountPointStore())
        self.gs = st.get_store()
        self.root = case["root"]
        if case["setup"] == "pre":
            for f in case["files"]:
                self.sub.store(f["key"], yaml_text(f), {})
            self.rs = RecipeSpecStore(self.sub)
            self.gs.mount(self.root, self.rs)
        else:
            self.rs = RecipeSpecStore(self.sub)
            self.gs.mount(self.root, self.rs)
            for f in case["files"]:
                self.gs.store(join(self.root, f["key"]), yaml_text(f), {})
        del CALLS[:]

    def close(self):
        self.st.set_store(None)
        if self.tmp:
            shutil.rmtree(self.tmp, ignore_errors=True)

    def rk(self, k):
        return self.root if k == "" else self.root + "/" + k

    def local(self, k):
        if k == self.root:
            return None
        if k.startswith(self.root + "/"):
            return k[len(self.root) + 1:]
        return None


def err_class(ex):
    from liquer.store import KeyNotFoundStoreException, KeyNotSupportedStoreException, KeyRouteNotFoundStoreException, ReadOnlyStoreException
    if isinstance(ex, KeyNotFoundStoreException):
        return "Enf"
    if isinstance(ex, KeyNotSupportedStoreException):
        return "Ens"
    if isinstance(ex, KeyRouteNotFoundStoreException):
        return "Ern"
    if isinstance(ex, ReadOnlyStoreException):
        return "Ero"
    return "Eot"


def opt(s):
    return "~" if s is None else hx(str(s))


def tf(b):
    return "T" if b else "F"


def meta_proj(md):
    """(is_dir, status, title, description, has_recipe, recipe name, recipe version)"""
    if md.get("fileinfo", {}).get("is_dir"):
        return ("D",)
    status = md.get("status")
    if status not in ("none", "recipe", "ready", "error"):
        status = "other"
    dep = (md.get("dependencies") or {}).get("recipe") or {}
    return (status, md.get("title"), md.get("description"), bool(md.get("has_recipe", False)), dep.get("name"), dep.get("version"))


def meta_s(p):
    if p[0] == "D":
        return "D"
    return "/".join([p[0], opt(p[1]), opt(p[2]), tf(p[3]), opt(p[4]), opt(p[5])])


def names_s(names):
    return ",".join(sorted(hx(n) for n in names if n != STATUS_FILE))


def keys_s(keys):
    return ",".join(sorted(hx(k) for k in keys if k.split("/")[-1] != STATUS_FILE))


def guarded(f, show):
    try:
        v = f()
    except Exception as ex:
        return err_class(ex), None
    return show(v), v


def observe(env, univ):
    """text of the state (without the result) + raw observations for the oracle"""
    gs, raw, parts = env.gs, {}, []
    for k in univ:
        c = guarded(lambda: gs.contains(env.rk(k)), tf)
        d = guarded(lambda: gs.is_dir(env.rk(k)), tf)
        m = guarded(lambda: meta_proj(gs.get_metadata(env.rk(k))), meta_s)
        l = guarded(lambda: list(gs.listdir(env.rk(k)) or []), names_s)
        raw[k] = dict(contains=c[1], is_dir=d[1], meta=m[1], listdir=l[1], meta_err=m[0] if m[1] is None else None)
        parts.append("O%s|%s|%s|%s|%s" % (hx(k), c[0], d[0], m[0], l[0]))
    ks = guarded(lambda: [x for x in (env.local(k) for k in gs.keys()) if x is not None], keys_s)
    raw["keys"] = ks[1]
    parts.append("K" + ks[0])
    return parts, raw


def apply_op(env, op, prev=None):
    """returns (result text, raw result); `prev`: raw observation before the operation"""
    from liquer.query import evaluate
    gs = env.gs
    kind = op[0]
    if kind == "b":
        try:
            b = gs.get_bytes(env.rk(op[1]))
        except Exception as ex:
            return err_class(ex), ("err", type(ex).__name__)
        if b is None:
            return "None", ("none",)
        return "B" + hx(b), ("ok", b)
    if kind == "m":
        r = guarded(lambda: meta_proj(gs.get_metadata(env.rk(op[1]))), meta_s)
        return r[0], r[1]
    if kind == "c":
        r = guarded(lambda: gs.contains(env.rk(op[1])), tf)
        return r[0], r[1]
    if kind == "d":
        r = guarded(lambda: gs.is_dir(env.rk(op[1])), tf)
        return r[0], r[1]
    if kind == "k":
        r = guarded(lambda: [x for x in (env.local(k) for k in gs.keys()) if x is not None], keys_s)
        return r[0], r[1]
    if kind == "l":
        r = guarded(lambda: list(gs.listdir(env.rk(op[1])) or []), names_s)
        return r[0], r[1]
    if kind == "r":
        try:
            gs.remove(env.rk(op[1]))
        except Exception as ex:
            return err_class(ex), ("err", type(ex).__name__)
        return "ok", ("ok",)
    if kind == "x":
        try:
            s = evaluate("-R-meta/%s/-/ns-meta/clean_recipes%s" % (env.rk(op[1]), "-t" if op[2] else ""))
            if s.is_error:
                return "XE", None
            removed = [env.local(k) for k in s.get()["removed"]]
        except Exception:
            return "XE", None
        # whether keys that were never made are reported as removed is not part of the observation
        made = [k for k in removed if prev is None or prev.get(k) is None or prev[k]["meta"] is None or prev[k]["meta"][0] != "recipe"]
        return "X" + keys_s(made), removed
    raise ValueError(op)


def key_ext(name):
    return ".".join(name.split(".")[1:]) if "." in name else None


def direct_table(case):
    """evalQ of the case: every resolved query evaluated directly (fresh environment), serialised for the key's extension"""
    from liquer.query import evaluate
    from liquer.state_types import encode_state_data
    env = Env(case, cache="N")
    table, info = [], {}
    try:
        for k, r in list(env.rs.recipes().items()):
            q = r.data.get("query")
            ext = key_ext(k.split("/")[-1])
            out = None
            try:
                s = evaluate(q)
                if not s.is_error:
                    b = encode_state_data(s.get(), extension=ext)[0]
                    out = b if isinstance(b, bytes) else None
            except Exception:
                out = None
            table.append((q, ext, out))
            info[k] = out
    finally:
        env.close()
    return table, info


def strip_log(state_text):
    parts = state_text.split(" ")
    return " ".join(x for x in parts if not x.startswith("G"))


def run_impl(case):
    """everything the implementation shows for a case"""
    res = dict(case=case, error=None)
    try:
        table, direct = direct_table(case)
        env = Env(case)
    except Exception as ex:
        import traceback
        res["error"] = "setup failed: " + traceback.format_exc()[-600:]
        return res
    try:
        univ = universe(case)
        recs = env.rs.recipes()
        res["decl"] = "D" + ",".join(sorted("%s=%s.%s.%s.%s" % (hx(k), hx(r.data.get("query") or ""), opt(r.data.get("title")), opt(r.data.get("description")), hx(r.recipe_name())) for k, r in recs.items()))
        res["recipes"] = {k: dict(query=r.data.get("query"), title=r.data.get("title"), description=r.data.get("description"), name=r.recipe_name(), version=r.version()) for k, r in recs.items()}
        res["table"], res["direct"] = table, direct
        tagkey = {}
        for f, sec, i, it, k in items_of(case):
            for part in it["query"].split("/"):
                if part.startswith(("tick-", "dct-", "cnt-", "tock-")):
                    tagkey[part.split("-", 1)[1]] = k
        if case.get("warm"):
            # the recipes' queries are evaluated directly first: with a real cache installed the first read is then a cache hit
            from liquer.query import evaluate
            for k, r in recs.items():
                q = r.data.get("query") or ""
                if "-R" not in q and "/-/" not in q:
                    try:
                        evaluate(q)
                    except Exception:
                        pass
            del CALLS[:]
        states, raws, results = [], [], []
        parts, raw = observe(env, univ)
        log = [tagkey.get(t, "?" + t) for t in CALLS]
        states.append(" ".join(["r=init"] + parts + ["G" + ",".join(hx(k) for k in log)]))
        raws.append(raw)
        results.append(None)
        logs = [list(log)]
        for op in case["ops"]:
            rt, rr = apply_op(env, op, raws[-1])
            parts, raw = observe(env, univ)
            log = [tagkey.get(t, "?" + t) for t in CALLS]
            states.append(" ".join(["r=" + rt] + parts + ["G" + ",".join(hx(k) for k in log)]))
            raws.append(raw)
            results.append(rr)
            logs.append(list(log))
        if case.get("cache", "N") == "M":
            # with a real cache a read may be served without executing a command: the evaluation log is not an observable there
            states = [strip_log(x) for x in states]
        res.update(states=states, raws=raws, results=results, logs=logs, univ=univ)
    except Exception:
        import traceback
        res["error"] = "run failed: " + traceback.format_exc()[-800:]
    finally:
        env.close()
    return res


# --------------------------------------------------------------------------------------------- model line

def model_line(case, impl):
    recs = impl.get("recipes", {})
    files = []
    for f in case["files"]:
        secs = []
        for sec in f["sections"]:
            items = []
            for i, it in enumerate(sec["items"]):
                k = join(item_cwd(f, sec), item_name(it))
                ver = recs.get(k, {}).get("version") or ""
                items.append(".".join([it["kind"], hx(it["query"]), opt(it.get("title")), opt(it.get("description")), opt(it.get("filename")), hx(ver)]))
            secs.append(hx(sec["name"]) + ":" + ",".join(items))
        files.append(hx(f["key"]) + "=" + "|".join(secs))
    table = ",".join("%s.%s.%s" % (hx(q), opt(e), "!" if o is None else hx(o)) for q, e, o in impl.get("table", [])) or "."
    ops = []
    for op in case["ops"]:
        if op[0] == "k":
            ops.append("k")
        elif op[0] == "x":
            ops.append("x.%s.%d" % (hx(op[1]), op[2]))
        else:
            ops.append("%s.%s" % (op[0], hx(op[1])))
    return "rcp %s %s %s %s %s %s" % (case["backend"], hx(case["root"]), ";".join(files) or ".", table,
                                      ",".join(hx(k) for k in universe(case)), ",".join(ops) or ".")


# --------------------------------------------------------------------------------------------- oracle

def closure(k, deps):
    seen, todo = [], [k]
    while todo:
        x = todo.pop()
        if x in seen:
            continue
        seen.append(x)
        todo += [d for d in deps.get(x, []) if d is not None]
    return seen


def oracle(case, impl):
    """[(class, text, step)] — the property's own clauses on the implementation, independent of the Lean model"""
    out = []
    if impl.get("error"):
        return [("harness", impl["error"], 0)]
    declared = {}
    for f, sec, i, it, k in items_of(case):
        declared[k] = (f, sec, i, it)
    recs, direct = impl["recipes"], impl["direct"]
    root = case["root"]
    # what the recipe of a key reads (root key of a leading resource segment, from the *original* text, resolved independently)
    import posixpath
    deps = {}
    for k, (f, sec, i, it) in declared.items():
        q = it["query"]
        head = q[3:] if q.startswith("-R/") else q
        if "/-/" in head and not q.split("/")[0].split("-")[0] in ("tick", "dct", "cnt"):
            path = head.split("/-/")[0]
            comps = path.split("/")
            base = rjoin(root, item_cwd(f, sec)) if comps[0] in (".", "..") else ""
            full = posixpath.normpath(posixpath.join("/" + base, path))[1:]
            if full == root or full.startswith(root + "/"):
                deps[k] = [full[len(root) + 1:]]
            else:
                deps[k] = [None]          # outside the recipe store: never has metadata
            expect_q = ("-R/" if q.startswith("-R/") else "") + full + "/-/" + head.split("/-/", 1)[1]
        else:
            deps[k] = []
            expect_q = q
        # declaration clauses
        r = recs.get(k)
        if r is None:
            out.append(("declared-missing", "recipe %r of %s is not among the store's recipes %r" % (q, f["key"], sorted(recs)), 0))
            continue
        if r["query"] != expect_q:
            out.append(("resolve", "recipe %r in directory %r resolves to %r, expected %r (relative references resolve against the recipe's directory)" % (q, rjoin(root, item_cwd(f, sec)), r["query"], expect_q), 0))
    if out:
        return out

    def decl_title(k):
        it = declared[k][3]
        return None if it["kind"] == "p" else (it["title"] if it.get("title") is not None else item_name(it))

    def decl_descr(k):
        it = declared[k][3]
        return None if it["kind"] == "p" else (it["description"] if it.get("description") is not None else "Generated from query: " + it["query"])

    state = {k: "recipe" for k in declared}      # recipe | ready | error
    for step, raw in enumerate(impl["raws"]):
        op = case["ops"][step - 1] if step else None
        res = impl["results"][step]
        new = impl["logs"][step][len(impl["logs"][step - 1]):] if step else impl["logs"][0]
        before = dict(state)
        what = "after %s" % show_ops(case["ops"][:step]) if step else "initially"
        # ---- evaluation log rules (with a real cache the log is not an observable: see run_impl)
        cached = case.get("cache", "N") == "M"
        if op is None or op[0] != "b":
            if new and not cached:
                out.append(("evaluates:" + (op[0] if op else "init"), "%s: recipes %r were evaluated by an operation that is not a read" % (what, new), step))
        else:
            k = op[1]
            if len(set(new)) != len(new) and not cached:
                out.append(("evaluated-twice", "%s: one read evaluated %r" % (what, new), step))
            for x in ([] if cached else new):
                if before.get(x) == "ready":
                    out.append(("re-evaluated", "%s: %s was evaluated again although it was ready" % (what, x), step))
                if x not in closure(k, deps):
                    out.append(("evaluated-unrelated", "%s: reading %s evaluated %s" % (what, k, x), step))
            if k in declared and before[k] == "recipe" and not cached:
                runs = not (deps[k] and (deps[k][0] is None or deps[k][0] not in declared))
                if runs and new.count(k) != 1:
                    out.append(("not-evaluated", "%s: first read of %s evaluated it %d times (log %r)" % (what, k, new.count(k), new), step))
            # ---- state update of the reference: whatever is not ready is evaluated, dependencies first (a key in the error
            # state may or may not be tried again - it fails again either way; the log tells which)
            def sim_read(x, depth=0):
                if x not in declared or state[x] == "ready" or depth > len(declared):
                    return
                if state[x] == "error" and (cached or x not in new):
                    return      # not tried again (or tried again without getting as far as its transformation); it fails again either way
                for d in deps[x]:
                    sim_read(d, depth + 1)
                state[x] = "ready" if direct.get(x) is not None else "error"
            sim_read(k)
            # ---- result
            if k in declared:
                exp = direct.get(k)
                if exp is not None:
                    if res[0] != "ok" or res[1] != exp:
                        cls = "bytes-format" if res[0] == "ok" and key_ext(k.split("/")[-1]) != key_ext(declared[k][3]["query"].split("/")[-1]) else "bytes"
                        out.append((cls, "%s: get_bytes(%s) = %r, the directly evaluated query %r serialised as %r gives %r" % (what, k, res[1] if res[0] == "ok" else res, recs[k]["query"], key_ext(k.split("/")[-1]), exp), step))
                elif res[0] == "ok":
                    out.append(("failure-has-data", "%s: get_bytes(%s) returned %r although the query %r fails when evaluated directly" % (what, k, res[1], recs[k]["query"]), step))
        if op is not None and op[0] == "r" and op[1] in declared:
            state[op[1]] = "recipe"
        if op is not None and op[0] == "x":
            d = op[1]
            scope = [k for k in declared if (parent(k) == d if not op[2] else (d == "" or k.startswith(d + "/")))]
            must = [k for k in scope if before[k] != "recipe"]
            if res is None or not set(must) <= set(res) or not set(res) <= set(scope):
                out.append(("clean-removed", "%s: clean_recipes reported %r; the declared keys in scope are %r, of which %r had been made" % (what, res, sorted(scope), sorted(must)), step))
            for k in scope:
                state[k] = "recipe"
        # ---- observations of every declared key
        for k in declared:
            o = raw.get(k)
            if o is None:
                continue
            m = o["meta"]
            exp_status = state[k]
            if o["contains"] is not True or o["is_dir"] is not False:
                out.append(("visible", "%s: declared key %s: contains=%r is_dir=%r" % (what, k, o["contains"], o["is_dir"]), step))
            if raw["keys"] is None or k not in raw["keys"]:
                out.append(("listed", "%s: declared key %s is not in keys()" % (what, k), step))
            po = raw.get(parent(k))
            if po is not None and (po["listdir"] is None or k.split("/")[-1] not in po["listdir"]):
                out.append(("listed", "%s: declared key %s is not in listdir(%r)" % (what, k, parent(k)), step))
            if m is None or m[0] == "D":
                out.append(("metadata", "%s: get_metadata(%s) = %r" % (what, k, m or o["meta_err"]), step))
                continue
            if m[0] != exp_status:
                out.append(("status:%s->%s" % (exp_status, m[0]), "%s: status of %s is %r, expected %r" % (what, k, m[0], exp_status), step))
            if not m[3]:
                out.append(("has_recipe", "%s: %s has no has_recipe flag (status %r)" % (what, k, m[0]), step))
            if declared[k][3]["kind"] == "d" and (m[1] != decl_title(k) or m[2] != decl_descr(k)):
                out.append(("title", "%s: %s (status %s) has title %r / description %r, declared %r / %r" % (what, k, m[0], m[1], m[2], decl_title(k), decl_descr(k)), step))
            # the recipe's name identifies the recipes file, the section, the position and the file name (computed here, not asked from the store)
            f_, sec_, i_, it_ = declared[k]
            exp_name = "%s/-Ryaml/%s/%d#%s" % (rjoin(root, f_["key"]), sec_["name"], i_, item_name(it_))
            if step == 0 and recs[k]["name"] != exp_name:
                out.append(("recipe-name", "%s: the recipe of %s is named %r, declared as item %d of section %s of %s: %r" % (what, k, recs[k]["name"], i_, sec_["name"], f_["key"], exp_name), step))
            if exp_status in ("ready", "error") and m[0] == exp_status and (m[4] != recs[k]["name"] or m[5] != recs[k]["version"]):
                out.append(("recipe-dependency", "%s: %s (status %s) records recipe %r version %r, the recipe is %r version %r" % (what, k, m[0], m[4], m[5], recs[k]["name"], recs[k]["version"]), step))
            if exp_status == "recipe" and (m[4] is not None or m[5] is not None):
                out.append(("recipe-dependency", "%s: %s is a recipe but records an evaluated recipe %r %r" % (what, k, m[4], m[5]), step))
    return out


def show_ops(ops):
    names = dict(b="get_bytes", m="get_metadata", c="contains", d="is_dir", k="keys", l="listdir", r="remove", x="clean_recipes")
    return "; ".join("%s(%s)" % (names[o[0]], ", ".join(repr(a) for a in o[1:])) for o in ops) or "(nothing)"


def show_case(case):
    its = ["%s:%s%s" % (sec["name"], it["query"], "".join(" %s=%r" % (f, it[f]) for f in ("title", "description", "filename") if it.get(f) is not None) + (" (dict)" if it["kind"] == "d" else ""))
           for f in case["files"] for sec in f["sections"] for it in sec["items"]]
    return "%s-backed recipe store mounted at %r (%s global store, recipes file %s stored %s), recipes [%s]" % (
        {"M": "MemoryStore", "F": "FileStore"}[case["backend"]], case["root"], case["glob"], case["files"][0]["key"],
        "before the store was created" if case["setup"] == "pre" else "through the mounted store", "; ".join(its))


# --------------------------------------------------------------------------------------------- shrinking, reporting

def shrink_list(xs, fails):
    xs = list(xs)
    n = 2
    while len(xs) >= 1:
        chunk = max(1, len(xs) // n)
        removed = False
        for i in range(0, len(xs), chunk):
            cand = xs[:i] + xs[i + chunk:]
            if fails(cand):
                xs, removed = cand, True
                n = max(n - 1, 2)
                break
        if not removed:
            if chunk == 1:
                break
            n = min(len(xs), n * 2)
    return xs


def with_ops(case, ops):
    c = json.loads(json.dumps(case))
    c["ops"] = ops
    return c


def without_item(case, fi, si, ii):
    c = json.loads(json.dumps(case))
    del c["files"][fi]["sections"][si]["items"][ii]
    c["files"][fi]["sections"] = [s for s in c["files"][fi]["sections"] if s["items"]]
    keys = {k for *_, k in items_of(c)}
    if not keys:
        return None
    dirs = {""} | {"/".join(k.split("/")[:i]) for k in keys for i in range(1, len(k.split("/")))}
    for op in c["ops"]:
        if len(op) > 1 and op[0] in ("b", "r", "m") and op[1] not in keys and op[1] not in dirs and not op[1].endswith("missing.txt"):
            return None
        if op[0] in ("x", "l") and op[1] not in dirs:
            return None
    return c


def classes_of(case):
    impl = run_impl(case)
    return impl, oracle(case, impl)


def minimise(case, cls):
    def fails(c):
        if c is None:
            return False
        return any(x == cls for x, _, _ in classes_of(c)[1])
    first = min(s for x, _, s in classes_of(case)[1] if x == cls)
    case = with_ops(case, case["ops"][:first])
    case = with_ops(case, shrink_list(case["ops"], lambda o: fails(with_ops(case, o))))
    changed = True
    while changed:
        changed = False
        for fi, f in enumerate(case["files"]):
            for si, sec in enumerate(f["sections"]):
                for ii in range(len(sec["items"]) - 1, -1, -1):
                    c = without_item(case, fi, si, ii)
                    if fails(c):
                        case, changed = c, True
                        break
                if changed:
                    break
            if changed:
                break
    for fld, val in (("glob", "mp"), ("setup", "pre"), ("root", "m"), ("backend", "M")):
        if case[fld] != val:
            c = json.loads(json.dumps(case))
            c[fld] = val
            if fails(c):
                case = c
    for f in (relocate, renumber):
        c = f(case)
        if c is not None and c != case and fails(c):
            case = c
    return case


def renumber(case):
    """canonical tags / file stems: the n-th remaining recipe is r<n>, f<n>, g<n>"""
    import re
    order = []
    for *_, it, k in items_of(case):
        for m in re.finditer(r"(?<![A-Za-z0-9_])[rfg](\d+)(?![A-Za-z0-9_])", it["query"] + " " + (it.get("filename") or "")):
            if m.group(1) not in order:
                order.append(m.group(1))
    ren = {o: str(i) for i, o in enumerate(order)}

    def sub(t):
        return re.sub(r"(?<![A-Za-z0-9_])([rfg])(\d+)(?![A-Za-z0-9_])", lambda m: m.group(1) + ren.get(m.group(2), m.group(2)), t)
    c = json.loads(json.dumps(case))
    for f in c["files"]:
        for sec in f["sections"]:
            for it in sec["items"]:
                it["query"] = sub(it["query"])
                if it.get("filename") is not None:
                    it["filename"] = sub(it["filename"])
    c["ops"] = [[o[0]] + [sub(a) if isinstance(a, str) else a for a in o[1:]] for o in c["ops"]]
    return c


def relocate(case):
    """recipes file at depth 0 and, for a single section, the local section - only when no recipe refers to another key"""
    if any("/-/" in it["query"] for *_, it, k in items_of(case)) or len(case["files"]) != 1:
        return None
    c = json.loads(json.dumps(case))
    old_keys = [k for *_, k in items_of(case)]
    old_dirs = {item_cwd(f, sec) for f, sec, *_ in items_of(case)}
    c["files"][0]["key"] = "recipes.yaml"
    if len(c["files"][0]["sections"]) == 1:
        c["files"][0]["sections"][0]["name"] = "RECIPES"
    new_keys = [k for *_, k in items_of(c)]
    ren = dict(zip(old_keys, new_keys))
    for (f, sec, *_), (f2, sec2, *_) in zip(items_of(case), items_of(c)):
        ren[item_cwd(f, sec)] = item_cwd(f2, sec2)
    ops = []
    for o in c["ops"]:
        if len(o) > 1 and isinstance(o[1], str):
            if o[1] in ren:
                o = [o[0], ren[o[1]]] + o[2:]
            elif o[1].endswith("missing.txt"):
                o = [o[0], "missing.txt"] + o[2:]
            else:
                o = [o[0], ""] + o[2:]
        ops.append(o)
    c["ops"] = ops
    return c


def case_sig(case):
    its = ["%s:%s:%s%s" % (sec["name"], it["kind"], it["query"], "".join(">%s=%s" % (f[0], it[f]) for f in ("title", "description", "filename") if it.get(f) is not None))
           for f in case["files"] for sec in f["sections"] for it in sec["items"]]
    ops = ",".join(".".join(str(a) for a in o) for o in case["ops"])
    return "%s@%s[%s]%s%s{%s}h=%s" % (case["backend"], case["root"], case["files"][0]["key"], "" if case["setup"] == "pre" else "+post",
                                        ("+MemoryCache" + ("(warm)" if case.get("warm") else "")) if case.get("cache", "N") == "M" else "", "|".join(its), ops)


def report(ctx, case, cls, seen):
    small = minimise(case, cls)
    key = "rcp:%s:%s" % (cls, case_sig(small))
    if key in seen:
        return
    seen.add(key)
    impl, found = classes_of(small)
    text = [t for c, t, _ in found if c == cls]
    what = "%s; history: %s; %s" % (show_case(small), show_ops(small["ops"]), text[-1] if text else "(not reproduced after shrinking)")
    ctx.violation(key, what, dict(kind="rcp", case=small, cls=cls))


# --------------------------------------------------------------------------------------------- check

def load_corpus():
    d = os.path.join(common.VERIF, "corpus", "C08")
    res = []
    if os.path.isdir(d):
        for fn in sorted(os.listdir(d)):
            if fn.endswith(".json"):
                c = json.load(open(os.path.join(d, fn)))
                res.append(c["case"] if "case" in c and "files" not in c else c)
    return res


def nontrivial(case, impl):
    if impl.get("error"):
        return False
    logs = impl["logs"]
    for i, op in enumerate(case["ops"]):
        if op[0] == "b" and len(logs[i + 1]) > len(logs[i]):
            k = op[1]
            if any(o[0] in ("b", "r") and o[1] == k or o[0] == "x" for o in case["ops"][i + 1:]):
                return True
    return False


def process(ctx, cases, seen, classes, stream_cases, stream_impl, lines):
    impls = common.pmap(run_impl, cases)
    for case, impl in zip(cases, impls):
        ctx.case(case_sig(case) if nontrivial(case, impl) else None)
        ctx.count("sub-store", {"M": "MemoryStore", "F": "FileStore"}[case["backend"]])
        ctx.count("mount", "%s at %r, recipes file at depth %d, %s" % (case["glob"], case["root"], case["files"][0]["key"].count("/"), case["setup"]))
        ctx.count("history length", str(len(case["ops"])))
        ctx.count("global cache", "NoCache" if case.get("cache", "N") == "N" else "MemoryCache" + (" (queries evaluated directly first)" if case.get("warm") else ""))
        for op in case["ops"]:
            ctx.count("operations", dict(b="get_bytes", m="get_metadata", c="contains", d="is_dir", k="keys", l="listdir", r="remove", x="clean_recipes")[op[0]])
        for *_, it, k in items_of(case):
            q = it["query"]
            shape = ("dict" if it["kind"] == "d" else "plain") + (" +filename" if it.get("filename") else "") + (" resource" if "/-/" in q else "")
            ctx.count("recipes", shape)
        if impl.get("error"):
            ctx.count("outcomes", "harness error")
        else:
            for k, v in impl["direct"].items():
                ctx.count("recipe outcome (direct evaluation)", "bytes" if v is not None else "fails")
            ctx.count("evaluations per history", str(len(impl["logs"][-1])))
        found = oracle(case, impl)
        for cls in sorted({c for c, _, _ in found}):
            n = classes.get(cls, 0)
            classes[cls] = n + 1
            if n < 2:
                report(ctx, case, cls, seen)
        if impl.get("error"):
            continue
        if len(ctx.samples) < 4 and nontrivial(case, impl):
            ctx.sample(dict(case=show_case(case), history=show_ops(case["ops"]), evaluated=impl["logs"][-1]))
        n = len(impl["states"])
        stream_cases.append(("decl", case_sig(case)))
        stream_impl.append(impl["decl"])
        for i, s in enumerate(impl["states"]):
            stream_cases.append(("state", case_sig(case) + " after %d ops" % i))
            stream_impl.append(s)
        lines.append((model_line(case, impl), n + 1, case.get("cache", "N")))


def compare_all(ctx, stream_cases, stream_impl, lines):
    ans = ctx.driver.ask([l[0] for l in lines])
    model = None
    if ans is not None:
        model = []
        for (l, n, cache), a in zip(lines, ans):
            if a == "UNMODELLED":
                model += ["UNMODELLED"] * n
                continue
            parts = a.split(";")
            if cache == "M":
                parts = parts[:1] + [strip_log(x) for x in parts[1:]]
            model += parts if len(parts) == n else ["BAD-ANSWER " + a[:120]] * n
    for name in ("decl", "state"):
        idx = [i for i, (kind, _) in enumerate(stream_cases) if kind == name]
        ctx.compare({"decl": "declarations (resolved query, title, description, recipe name)", "state": "result + observation + evaluation log after every operation"}[name],
                    [stream_cases[i][1] for i in idx], [stream_impl[i] for i in idx], None if model is None else [model[i] for i in idx])


def run(ctx):
    thorough = ctx.tier == "thorough"
    total = 4000 if thorough else 120
    seen, classes = set(), {}
    sc, si, lines = [], [], []
    corpus = load_corpus()
    if corpus:
        process(ctx, corpus, seen, classes, sc, si, lines)
        ctx.count("histories", "corpus", len(corpus))
    batch = 400
    done = 0
    while done < total:
        cases = [gen_case(ctx.rng) for _ in range(min(batch, total - done))]
        process(ctx, cases, seen, classes, sc, si, lines)
        done += len(cases)
    ctx.count("histories", "generated", done)
    if classes:
        ctx.notes.append("oracle finding classes (class -> histories): %r" % dict(sorted(classes.items())))
    compare_all(ctx, sc, si, lines)


def search(ctx, broken, disagreements):
    """a broken obligation / correspondence without an oracle failure: more histories, longer"""
    t0, seen, classes = time.time(), set(), {}
    budget = 300 if ctx.tier == "thorough" else 40
    n = 0
    while time.time() - t0 < budget and not ctx.violations:
        cases = [gen_case(ctx.rng) for _ in range(200)]
        impls = common.pmap(run_impl, cases)
        for case, impl in zip(cases, impls):
            ctx.case(None)
            n += 1
            for cls in sorted({c for c, _, _ in oracle(case, impl)}):
                k = classes.get(cls, 0)
                classes[cls] = k + 1
                if k < 2:
                    report(ctx, case, cls, seen)
    ctx.notes.append("search: %d further generated histories" % n)


def replay(ctx, case):
    c = case["case"]
    impl, found = classes_of(c)
    bad = [t for x, t, _ in found if x == case.get("cls")] or [t for _, t, _ in found]
    if bad:
        return "%s; history: %s; %s" % (show_case(c), show_ops(c["ops"]), bad[-1])
    return None
