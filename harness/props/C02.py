"""C02 — canonical query text is a fixed point of parsing and encoding.

Correspondence: liquer.parser.parse (pyparsing grammar) and the encode() printers vs the Lean PEG
(LiquerModel/Parse.lean over regenerated terminals/entities) and printers (LiquerModel/Ast.lean):
accept/reject, the AST (with offsets) and the canonical text, on bounded-exhaustive short strings over
structural alphabets, grammar-directed random sentences with non-canonical spellings, and malformed edits.
Oracle (implementation only): parse(parse(s).encode()) is structurally identical and re-encodes to the same text.
"""
import itertools, os, multiprocessing
from common import hx
import wire

RULE = ("all strings <= L over three structural alphabets (exhaustive), grammar-directed random sentences (links to depth 3, "
        "headers of any level, resource paths, file names, non-canonical entity/percent spellings, white space) and random edits of "
        "them; non-trivial = distinct accepted string whose canonical text differs from it or that contains a link/header/file name")
TRUSTED = ["modelled: the whole pyparsing grammar (LiquerModel/Parse.lean, PEG reading of pyparsing validated differentially only) and all encode() methods (LiquerModel/Ast.lean)",
           "translated: terminal regular expressions, entity table, white-space set, escape table; grammar shape compared with harness/grammar_shape.expected"]
ASSUMPTIONS = ["query strings are sequences of Unicode scalar values", "percent escapes that decode to invalid UTF-8 are outside the model (UNMODELLED) but inside the oracle"]
EXPLANATION = "see Props/C02.lean; the oracle checks the fixed-point property on every accepted string of the streams"

A1 = list("abR-/~.%2_IXE ")
A2 = list("a/~XE")
A3 = list("a-/.R")


def impl_one(s):
    """(answer line as the model prints it, canonical text or None, oracle failure or None)"""
    import liquer.parser as P
    try:
        q = P.parse(s)
    except Exception:
        return "reject", None, None
    ans = "ok " + wire.ser(q)
    try:
        e = q.encode()
    except Exception as ex:
        return ans, None, "encode() of the parse of %r raised %s" % (s, type(ex).__name__)
    bad = None
    try:
        q2 = P.parse(e)
        if wire.ser(q2, pos=False) != wire.ser(q, pos=False):
            bad = "%r canonicalises to %r which parses to a different query" % (s, e)
            if is_rtq_capture(P, q, q2):
                bad = "RTQ-CAPTURE " + bad
            elif is_res_header_empty_param(P, s, q2):
                bad = "RES-HEADER-EMPTY-PARAM " + bad
        elif q2.encode() != e:
            bad = "canonical text %r of %r re-encodes to %r" % (e, s, q2.encode())
    except Exception as ex:
        bad = "%r canonicalises to %r which the parser rejects (%s)" % (s, e, type(ex).__name__)
    if bad is None:
        # the canonical text denotes the same query however often it is parsed — also after an earlier parse result was extended in place
        # through the builder API (parse results are mutable objects; a parser that hands out shared objects would change its own answers)
        try:
            before = wire.ser(q2, pos=False)
            q3 = P.parse(e)
            try:
                q3.with_action("zzz", "1")
            except Exception:
                q3.segments.append(P.TransformQuerySegment(query=[P.ActionRequest("zzz")]))
            q4 = P.parse(e)
            if q4 is q3 or wire.ser(q4, pos=False) != before:
                bad = "parsing the canonical text %r again after an earlier parse result was extended in place gives a different query" % (e,)
        except Exception as ex:
            bad = "re-parsing the canonical text %r raised %s" % (e, type(ex).__name__)
    return ans, e, bad


def is_rtq_capture(P, q, q2):
    """the one known class (known_findings.json, C02-rtq-capture): [header-less transform segment, headed transform
    segment] whose canonical text lexes as `resource_path/segment_with_header`, so `parse` prefers the resource reading"""
    T, R = P.TransformQuerySegment, P.ResourceQuerySegment
    if len(q.segments) < 2 or len(q2.segments) != 2 or q.absolute != q2.absolute:
        return False
    front, b = q.segments[:-1], q.segments[-1]
    a2, b2 = q2.segments
    if not all(isinstance(a, T) and a.header is None for a in front) or not (isinstance(b, T) and b.header is not None):
        return False
    if not (isinstance(a2, R) and a2.header is None and isinstance(b2, T)):
        return False
    return wire.ser_seg(b2, False) == wire.ser_seg(b, False) and "/".join(x.encode() for x in a2.query) == "/".join(a.encode() for a in front)


def _drop_empty_res_params(P, q):
    """remove empty string parameters that are followed by another parameter in resource-segment headers (recursively)"""
    changed = False
    for seg in q.segments:
        h = seg.header
        plists = []
        if h is not None:
            if h.resource:
                keep = [p for i, p in enumerate(h.parameters) if not (isinstance(p, P.StringActionParameter) and p.string == "" and i < len(h.parameters) - 1)]
                if len(keep) != len(h.parameters):
                    h.parameters = keep
                    changed = True
            plists.append(h.parameters)
        if isinstance(seg, P.TransformQuerySegment):
            plists += [a.parameters for a in seg.query]
        for pl in plists:
            for p in pl:
                if isinstance(p, P.LinkActionParameter):
                    changed = _drop_empty_res_params(P, p.link) or changed
    return changed


def is_res_header_empty_param(P, s, q2):
    """second known class (C02-res-header-empty-param): `Word("-")` in resource headers swallows the dash of an empty
    parameter, so [.., "", x] (only writable with white space, e.g. '-R- -1') canonicalises to '-R--1' = [.., x]"""
    try:
        q = P.parse(s)
        return _drop_empty_res_params(P, q) and wire.ser(q, pos=False) == wire.ser(q2, pos=False)
    except Exception:
        return False


def _init():
    import common
    common.silence()


def run_impl(strs):
    n = min(14, os.cpu_count() or 2)
    if len(strs) < 2000:
        return [impl_one(s) for s in strs]
    with multiprocessing.get_context("fork").Pool(n, initializer=_init) as pool:
        return pool.map(impl_one, strs, chunksize=500)


# ---------------------------------------------------------------- grammar-directed sentences
PARAM_ATOMS = ["a", "abc", "x1", "1", "0.5", "A", "_", "+", ".", "~~", "~_", "~3", "~.", "~I", "~/", "~h", "~H", "~f", "~P", "%41", "%2F", "%7e", "%C3%A9", "%20", ""]


def g_param(rng, depth):
    if depth > 0 and rng.random() < 0.2:
        return "~X~" + g_query(rng, depth - 1, inner=True) + "~E"
    return "".join(rng.choice(PARAM_ATOMS) for _ in range(rng.randint(0, 3)))


def g_ident(rng):
    return rng.choice(["a", "b", "cmd", "ns", "x_1", "aB", "_p", "let", "f"])


def g_action(rng, depth):
    s = g_ident(rng)
    for _ in range(rng.choice([0, 0, 1, 1, 2, 3])):
        s += "-" + g_param(rng, depth)
    return s


def g_filename(rng):
    return rng.choice(["a.txt", "b.json", ".", "x.", ".y", "a.b-c", "file.tar.gz", "A_1.csv", "0.5"])


def g_actions(rng, depth):
    parts = [g_action(rng, depth) for _ in range(rng.randint(0, 3))]
    if rng.random() < 0.3 or not parts:
        parts.append(g_filename(rng) if rng.random() < 0.8 else g_action(rng, depth))
    return "/".join(parts)


def g_resname(rng):
    return rng.choice(["a", "b", "data", "x.csv", ".", "..", "a-b", "A_1", "0", "dir.d", "_x"])


def g_segment(rng, depth):
    r = rng.random()
    if r < 0.3:
        return g_actions(rng, depth)
    if r < 0.65:
        h = "-" * rng.choice([1, 1, 1, 2, 3]) + rng.choice(["", "", "ns", "q", "x_1"])
        if h.strip("-"):
            for _ in range(rng.choice([0, 0, 1, 2])):
                h += "-" + g_param(rng, depth)
        return h + ("/" + g_actions(rng, depth) if rng.random() < 0.75 else "")
    h = "-" * rng.choice([1, 1, 2]) + "R" + rng.choice(["", "", "meta", "x1"])
    for _ in range(rng.choice([0, 0, 1, 2])):
        h += "-" * rng.choice([1, 1, 2]) + g_param(rng, depth)
    if rng.random() < 0.75:
        h += "/" + "/".join(g_resname(rng) for _ in range(rng.randint(1, 3)))
    return h


def g_query(rng, depth, inner=False):
    r = rng.random()
    if r < 0.2:
        q = "/".join(g_resname(rng) for _ in range(rng.randint(1, 3))) + "/" + "-" * rng.choice([1, 1, 2]) + rng.choice(["", "", "q"])
        if rng.random() < 0.8:
            q += "/" + g_actions(rng, depth)
    else:
        q = "/".join(g_segment(rng, depth) for _ in range(rng.choice([1, 1, 2, 3])))
    if rng.random() < 0.25:
        q = "/" + q
    if not inner and rng.random() < 0.1:
        i = rng.randint(0, len(q))
        q = q[:i] + rng.choice([" ", "  ", "\t", "\n"]) + q[i:]
    return q


def mutate(rng, s):
    if not s:
        return rng.choice(A1)
    i = rng.randint(0, len(s) - 1)
    r = rng.random()
    if r < 0.35:
        return s[:i] + s[i + 1:]
    if r < 0.7:
        return s[:i] + rng.choice(A1 + ["~X~", "~E", "//", "--", "-R", "é", "%"]) + s[i:]
    return s[:i] + rng.choice(A1) + s[i + 1:]


def gen_strings(ctx):
    thorough = ctx.tier == "thorough"
    L1, L2, L3 = (5, 9, 8) if thorough else (4, 6, 6)
    out_ = []
    for alpha, L in ((A1, L1), (A2, L2), (A3, L3)):
        n0 = len(out_)
        for k in range(0, L + 1):
            out_ += ["".join(t) for t in itertools.product(alpha, repeat=k)]
        ctx.count("strings", "exhaustive <=%d over %r" % (L, "".join(alpha)), len(out_) - n0)
        ctx.exhaustive.append("all strings of length <= %d over %r" % (L, "".join(alpha)))
    n = 40000 if thorough else 5000
    sent = [g_query(ctx.rng, 3) for _ in range(n)]
    ctx.count("strings", "grammar-directed sentences", n)
    mut = [mutate(ctx.rng, ctx.rng.choice(sent)) for _ in range(n // 2)]
    ctx.count("strings", "random edits of sentences", len(mut))
    corpus = []
    cdir = os.path.join(os.path.dirname(os.path.dirname(os.path.abspath(__file__))), "corpus", "C02")
    if os.path.isdir(cdir):
        import json
        for f in sorted(os.listdir(cdir)):
            try:
                corpus.append(json.load(open(os.path.join(cdir, f)))["case"]["text"])
            except Exception:
                pass
    return corpus + list(dict.fromkeys(out_ + sent + mut))


def run(ctx):
    strs = gen_strings(ctx)
    res = run_impl(strs)
    acc = 0
    for s, (ans, canon, bad) in zip(strs, res):
        if ans == "reject":
            ctx.case(None)
            continue
        acc += 1
        ctx.case(s if (canon != s or "~X~" in s or s.startswith("-") or "/-" in s or "." in s) else None)
        if bad:
            key = "rtq-capture" if bad.startswith("RTQ-CAPTURE ") else "res-header-empty-param" if bad.startswith("RES-HEADER-EMPTY-PARAM ") else "canon:" + s.encode("utf-8", "replace").hex()
            ctx.violation(key, bad, dict(kind="canon", text=s))
        if len(ctx.samples) < 8 and len(s) > 12 and canon != s:
            ctx.sample(dict(text=s, canonical=canon))
    ctx.count("strings", "accepted by the parser", acc)
    ctx.count("strings", "rejected by the parser", len(strs) - acc)
    ctx.compare("parse (accept/reject, AST with offsets)", strs, [r[0] for r in res], ctx.driver.ask(["parse " + hx(s) for s in strs]))
    # printers: canonical text of the implementation's AST computed by the model's printers
    idx = [i for i, r in enumerate(res) if r[0] != "reject" and r[1] is not None]
    ctx.compare("encode (printers)", [strs[i] for i in idx], [hx(res[i][1]) for i in idx],
                ctx.driver.ask(["ast.encode " + res[i][0][3:] for i in idx]))
    # the model's own fixed-point verdict (what the theorems are about) next to the oracle's
    canon_model = ctx.driver.ask(["parse.canon " + hx(strs[i]) for i in idx])
    if canon_model is not None:
        n = 0
        for i, m in zip(idx, canon_model):
            n += 1
            impl_fix = res[i][2] is None
            if m.startswith("fix") != impl_fix:
                ctx.disagree("fixed point verdict", strs[i], "fix" if impl_fix else res[i][2], m)
        ctx.stream("fixed point verdict", cases=n, compared=n)
    # WF (the hypothesis of the round-trip theorem) must hold of everything the parser returns, except exactly the known findings
    wf_model = ctx.driver.ask(["parse.wf " + hx(strs[i]) for i in idx])
    if wf_model is not None:
        for i, m in zip(idx, wf_model):
            if (m == "wf") != (res[i][2] is None):
                ctx.disagree("WF verdict (image of the parser)", strs[i], "fixed point holds" if res[i][2] is None else res[i][2][:80], m)
        ctx.stream("WF verdict (image of the parser)", cases=len(idx), compared=len(idx))


def search(ctx, broken, disagreements):
    """enlarged search after a broken obligation/correspondence: longer sentences, more edits, neighbours of disagreements"""
    seeds = [d["case"] for d in disagreements if isinstance(d["case"], str)]
    extra = []
    for s in seeds:
        for _ in range(300):
            extra.append(mutate(ctx.rng, s))
    extra += [g_query(ctx.rng, 3) for _ in range(30000)]
    extra += [mutate(ctx.rng, g_query(ctx.rng, 2)) for _ in range(15000)]
    for s, (ans, canon, bad) in zip(extra, run_impl(extra)):
        if bad and not bad.startswith(("RTQ-CAPTURE ", "RES-HEADER-EMPTY-PARAM ")):
            ctx.violation("canon:" + s.encode("utf-8", "replace").hex(), bad, dict(kind="canon", text=s))
            return
    ctx.notes.append("enlarged search over %d further sentences/edits found no failing input" % len(extra))


def replay(ctx, case):
    return impl_one(case["text"])[2]
