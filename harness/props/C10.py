"""C10 — evaluation isolation: variables and in-place mutation never leak.

Histories of evaluations of chains over a small vocabulary of *mutating* commands (append to the input list in place, extend the
input and mutate the link argument, mutate a list-valued variable in place, return the variable's own object as data, …) with
mutable configured defaults, interleaved with a caller that mutates the states it was given (data in place, variable values in
place, assignments in the variable dictionary, the metadata dictionary itself, and everything else reachable from the metadata).

Correspondence: result, call log, ALL states returned so far, what the cache serves for every related key, and the configured
defaults — after every operation — vs the heap model LiquerModel/Iso.lean (`iso.run`).
Oracle (implementation only): (O1) every evaluation returns what a fresh evaluation in a pristine environment returns,
(O2) a state returned earlier changes only when the caller mutates that very state, (O3) the configured defaults never change,
(O4) what the cache serves equals the fresh evaluation of its key, (O6) every result equals the value-level meaning of its chain
(an independent pure interpreter in this file), (O5) object-identity separation: no mutable object is
reachable from two different owners (two returned states, a returned state and a cache entry, anything and the defaults).
"""
import os, sys, shutil, copy, importlib
import common
from common import hx
import vocab
from vocab import canon

RULE = ("histories of 4-10 operations: evaluations of related chains (shared prefixes, absolute link arguments) over the mutating vocabulary "
        "one/mk/app/ident/copyl/ext/pair/let/getvar/vapp/vol/nocache/boom with list-valued and scalar defaults, interleaved with caller mutations "
        "(data in place, variable value in place, variable assignment, metadata flags, deep scribble); a second family (oracle only) with tuple-valued "
        "results holding mutable members; caches: NoCache, MemoryCache (live objects, "
        "inspected by identity), FileCache, SQLCache, StoreCache(MemoryStore), MemoryCache+FileCache, CacheProxy(MemoryCache); non-trivial = history "
        "with a cache hit after a mutation of a returned state or an in-place mutating command")
TRUSTED = ["modelled (LiquerModel/Iso.lean): where objects are copied — vars_clone, State.clone/next_state/as_dict/from_dict, the clone of the input state in "
           "evaluate_action (skipped for volatile input), MemoryCache.get/store, the live hand-off of link-argument values and of the returned state; "
           "one heap cell per value (object graphs below a reference are the content of one cell)",
           "the vocabulary of C10 is its own (registered by this harness, semantics written twice: here and Iso.cmdH/cmdV); query texts are parsed by the "
           "Lean model of the real grammar (Parse.lean) and converted to chains",
           "oracle: object identity (`id`) of lists/dicts/sets reachable from returned states, MemoryCache.storage and liquer.state._vars; fresh evaluation = "
           "re-registered vocabulary, deep-copied defaults, NoCache"]
ASSUMPTIONS = ["serialising caches (file, SQL, store-backed) hold bytes: their entries own no live objects (identity separation is checked for MemoryCache only)",
               "progress metadata writes (store_metadata) are not part of this model (C05/C13/C18 cover them)",
               "relative links, file names, headers and resource segments are outside this model's fragment (C01 covers their value semantics)"]
EXPLANATION = ("theorems in Props/C10.lean: an evaluation never writes a cell that existed before it started; everything it returns or caches is freshly "
               "allocated; hence for every history cache, defaults and earlier results are unchanged by evaluations and by caller mutations of other "
               "states, and every result is the value-level meaning of its chain")

CALLS = []
_registered = [None]


def _log(name, inp, *args):
    CALLS.append("%s(%s;%s)" % (name, canon(inp), ",".join(canon(a) for a in args)))


def register():
    from liquer.commands import command, first_command, reset_command_registry
    reg = reset_command_registry()

    @command
    def let(state, name, value):      # as liquer.ext.basic.let, instrumented
        _log("let", state.data, name, value)
        state.vars[name] = value
        return state

    @first_command
    def one():
        _log("one", None)
        return 1

    @first_command
    def mk(*args):
        _log("mk", None, *args)
        return list(args)

    @command
    def app(x, v):
        _log("app", x, v)
        if not isinstance(x, list):
            raise TypeError("x")
        x.append(v)
        return x

    @command
    def ident(x):
        _log("ident", x)
        return x

    @command
    def copyl(x):
        _log("copyl", x)
        if not isinstance(x, list):
            raise TypeError("x")
        return list(x)

    @command
    def ext(x, o):
        _log("ext", x, o)
        if not isinstance(x, list) or not isinstance(o, list):
            raise TypeError("x")
        x.extend(o)
        o.append("m")          # mutates the ARGUMENT (the live result of the link sub-evaluation)
        return x

    @command
    def pair(x, o):
        _log("pair", x, o)
        return [x, o]

    @command
    def tup(x):
        _log("tup", x)
        return (x, ["t"])      # an immutable container holding the (live) input object: outside the model's fragment, oracle only

    @command
    def getvar(state, name):
        _log("getvar", state.data, name)
        return state.with_data(state.vars.get(name))     # data IS the variable's object

    @command
    def vapp(state, name, v):
        _log("vapp", state.data, name, v)
        lst = state.vars.get(name)
        if not isinstance(lst, list):
            raise TypeError("var")
        lst.append(v)
        return state

    @command
    def cvapp(x, name, v, context=None):
        _log("cvapp", x, name, v)
        lst = context.vars.get(name)      # the context's variables: the objects of the predecessor state, not of the clone handed to the command
        if not isinstance(lst, list):
            raise TypeError("var")
        lst.append(v)
        return x

    @command(volatile=True)
    def vol(x):
        _log("vol", x)
        return x

    @command
    def nocache(x, context=None):
        _log("nocache", x)
        context.disable_cache()
        return x

    @command
    def boom(x):
        _log("boom", x)
        raise Exception("boom")

    return reg


def ensure_registered():
    from liquer.commands import command_registry
    reg = command_registry()
    if _registered[0] != (os.getpid(), id(reg)):
        reg = register()
        _registered[0] = (os.getpid(), id(reg))


# ------------------------------------------------------------------ caches
CACHES = [("NoCache", "0", "0"), ("MemoryCache", "1", "1"), ("FileCache", "1", "0"), ("SQLCache.from_sqlite", "1", "0"),
          ("StoreCache(MemoryStore,flat)", "1", "0"), ("MemoryCache+FileCache", "1", "0"), ("CacheProxy(MemoryCache)", "1", "0")]


def make_cache(name, tmp):
    from liquer import cache as C
    from liquer.store import MemoryStore
    return {"NoCache": lambda: C.NoCache(), "MemoryCache": lambda: C.MemoryCache(), "FileCache": lambda: C.FileCache(os.path.join(tmp, "fc")),
            "SQLCache.from_sqlite": lambda: C.SQLCache.from_sqlite(),
            "StoreCache(MemoryStore,flat)": lambda: C.StoreCache(MemoryStore(), "cache", flat=True),
            "MemoryCache+FileCache": lambda: C.MemoryCache() + C.FileCache(os.path.join(tmp, "mf")),
            "CacheProxy(MemoryCache)": lambda: C.CacheProxy(C.MemoryCache())}[name]()


# ------------------------------------------------------------------ observation
def abs_state(st):
    m = st.metadata
    vs = m.get("vars") or {}
    return "d=%s q=%s s=%s e=%s v=%s c=%s vars=%s" % (
        canon(st.data), hx(m.get("query") or ""), hx(m.get("status") or ""), "1" if m.get("is_error") else "0",
        "1" if (m.get("attributes") or {}).get("volatile") else "0", "1" if m.get("caching", True) else "0",
        ";".join(sorted("%s=%s" % (hx(k), canon(v)) for k, v in vs.items())))


def value_part(line):
    """data, error flag, volatility, caching and variables of an abs line (not query/status: those are bookkeeping)"""
    if line in ("-", None):
        return line
    f = dict(x.split("=", 1) for x in line.split(" ") if "=" in x)
    return (f.get("d"), f.get("e"), f.get("v"), f.get("c"), line.split(" vars=", 1)[1])


def deep_ids(*roots):
    """ids of the mutable containers reachable from the roots"""
    seen, todo = set(), list(roots)
    while todo:
        x = todo.pop()
        if isinstance(x, (list, dict, set, bytearray)):
            if id(x) in seen:
                continue
            seen.add(id(x))
        if isinstance(x, dict):
            todo += list(x.values())
        elif isinstance(x, (list, tuple, set)):
            todo += list(x)
    return seen


def sharing(returned, cache, live):
    import liquer.state as S
    roots = []
    for i, st in enumerate(returned):
        if st is not None:
            roots.append(("R%d" % i, deep_ids(st.data, st.metadata)))
    if live:
        for k in sorted(cache.storage):
            e = cache.storage[k]
            if k not in getattr(cache, "placeholders", ()):
                roots.append(("C" + hx(k), deep_ids(e.data, e.metadata)))
    roots.append(("D", deep_ids(S._vars)))
    pairs = []
    for i, (a, ia) in enumerate(roots):
        for b, ib in roots[i + 1:]:
            if ia & ib:
                pairs.append(a + "~" + b)
    return ",".join(sorted(pairs))


def evaluate(q):
    """-> (State | None, abs line | 'FAIL')"""
    from liquer.context import get_context
    try:
        st = get_context().evaluate(q)
    except Exception:
        return None, "FAIL"
    if st.is_error:
        return None, "FAIL"
    return st, "ST " + abs_state(st)


def fresh_value(q, defaults):
    """what the chain means: pristine registry, deep-copied defaults, no cache"""
    from liquer.cache import NoCache, set_cache, get_cache
    import liquer.state as S
    old_cache, old_vars, old_calls = get_cache(), S._vars, list(CALLS)
    S._vars = copy.deepcopy(defaults)
    set_cache(NoCache())
    try:
        st, line = evaluate(q)
        return "FAIL" if st is None else value_part(abs_state(st))
    finally:
        set_cache(old_cache)
        S._vars = old_vars
        CALLS[:] = old_calls


# ------------------------------------------------------------------ the value-level meaning of a chain (independent of liquer and of the Lean model)
def split_top(text, sep):
    """split at `sep` outside ~X~…~E"""
    out, depth, cur, i = [], 0, "", 0
    while i < len(text):
        if text.startswith("~X~", i):
            depth += 1
            cur += "~X~"
            i += 3
        elif text.startswith("~E", i) and depth:
            depth -= 1
            cur += "~E"
            i += 2
        elif text[i] == sep and depth == 0:
            out.append(cur)
            cur = ""
            i += 1
        else:
            cur += text[i]
            i += 1
    return out + [cur]


def meaning(text, defaults):
    """pure interpretation: every value is copied, nothing is shared -> dict(data, vars, volatile, caching) | None (fails)"""
    dc = copy.deepcopy
    st = dict(data=None, vars=dc(defaults), volatile=False, caching=True)
    for step in split_top(text.lstrip("/"), "/"):
        parts = split_top(step, "-")
        name, args = parts[0], []
        for a in parts[1:]:
            if a.startswith("~X~") and a.endswith("~E"):
                sub = meaning(a[3:-2], defaults)
                if sub is None:
                    return None
                args.append(dc(sub["data"]))
            else:
                args.append(a)
        d, vs = st["data"], st["vars"]
        try:
            if name == "one" and not args:
                st["data"] = 1
            elif name == "mk":
                st["data"] = list(args)
            elif name == "app" and len(args) == 1 and isinstance(d, list):
                st["data"] = d + [args[0]]
            elif name == "ident" and not args:
                pass
            elif name == "copyl" and not args and isinstance(d, list):
                pass
            elif name == "ext" and len(args) == 1 and isinstance(d, list) and isinstance(args[0], list):
                st["data"] = d + args[0]
            elif name == "pair" and len(args) == 1:
                st["data"] = [dc(d), args[0]]
            elif name == "tup" and not args:
                st["data"] = (dc(d), ["t"])
            elif name == "let" and len(args) == 2 and isinstance(args[0], str):
                vs[args[0]] = args[1]
            elif name == "getvar" and len(args) == 1 and isinstance(args[0], str):
                st["data"] = dc(vs.get(args[0]))
            elif name == "vapp" and len(args) == 2 and isinstance(vs.get(args[0]), list):
                vs[args[0]] = vs[args[0]] + [args[1]]
            elif name == "cvapp" and len(args) == 2 and isinstance(vs.get(args[0]), list):
                pass
            elif name == "vol" and not args:
                st["volatile"] = True
            elif name == "nocache" and not args:
                st["caching"] = False
            else:
                return None
        except Exception:
            return None
    return st


def meaning_part(text, defaults):
    m = meaning(text, defaults)
    if m is None:
        return "FAIL"
    return (canon(m["data"]), "0", "1" if m["volatile"] else "0", "1" if m["caching"] else "0",
            ";".join(sorted("%s=%s" % (hx(k), canon(v)) for k, v in m["vars"].items())))


def aliases_volatile_input(text):
    """the known finding: somewhere (top level or inside a link) a `getvar` / `cvapp` runs on a volatile predecessor (a `vol` to its left)"""
    seen_vol = False
    for step in split_top(text.lstrip("/"), "/"):
        parts = split_top(step, "-")
        for a in parts[1:]:
            if a.startswith("~X~") and a.endswith("~E") and aliases_volatile_input(a[3:-2]):
                return True
        if parts[0] in ("getvar", "cvapp") and seen_vol:
            return True
        if parts[0] == "vol":
            seen_vol = True
    return False


def scribble(x, depth=0):
    """mutate every mutable container reachable from x except the variable dictionary (that is what MV/SV are for)"""
    if depth > 6:
        return
    if isinstance(x, dict):
        for k in list(x.keys()):
            if k != "vars":
                scribble(x[k], depth + 1)
        x["__scribble__"] = "zz"
    elif isinstance(x, list):
        for y in x:
            scribble(y, depth + 1)
        x.append("__scribble__")


# ------------------------------------------------------------------ one history on the implementation
def run_history(task):
    """(cache index, defaults, ops, universe) -> dict(lines=[...], bad=[(key, text)], hit_after_mutation=bool)"""
    ci, defaults, ops, universe = task
    name, cache_on, live = CACHES[ci]
    from liquer.cache import set_cache
    import liquer.state as S
    tmp = common.scratch_dir()
    os.makedirs(tmp, exist_ok=True)
    res = dict(lines=[], bad=[], interesting=False)
    try:
        register()
        cache = make_cache(name, tmp)
        set_cache(cache)
        S._vars = copy.deepcopy(defaults)
        returned, prev, mutated_seen = [], [], False
        dline0 = ";".join(sorted("%s=%s" % (hx(k), canon(v)) for k, v in defaults.items()))
        # what every chain means, computed in a pristine environment BEFORE the history (nothing is re-registered during it)
        fresh_memo = {q: fresh_value(q, defaults) for q in set(universe) | {op[1] for op in ops if op[0] == "E"}}
        del CALLS[:]

        def fresh(q):
            return fresh_memo[q]
        register()          # pristine registry for the history itself

        for n, op in enumerate(ops):
            kind = op[0]
            target, result, calls = None, "OK", ""
            if kind == "E":
                del CALLS[:]
                st, result = evaluate(op[1])
                calls = ",".join(CALLS)
                returned.append(st)
                if mutated_seen and cache_on == "1" and not CALLS:
                    res["interesting"] = True
                if any(c.split("(")[0] in ("app", "ext", "vapp") for c in CALLS):
                    mutated_seen = True
                # O1
                want = fresh(op[1])
                got = "FAIL" if st is None else value_part(abs_state(st))
                if got != want:
                    res["bad"].append(("result:%s:%s" % (name, op[1]), "%s, operation %d of %r: evaluate(%r) returns %r, a fresh evaluation returns %r" % (
                        name, n, ops, op[1], got, want)))
                # O6: the value-level meaning of the chain (pure functions over copied values)
                pure = meaning_part(op[1], defaults)
                if got != pure:
                    key = "meaning:volatile-input-not-cloned" if aliases_volatile_input(op[1]) else "meaning:%s:%s" % (name, op[1])
                    res["bad"].append((key, "%s, operation %d of %r: evaluate(%r) returns %r, the value-level meaning of the chain (every command a pure function of copied values) is %r" % (
                        name, n, ops, op[1], got, pure)))
            else:
                i = op[1]
                st = returned[i] if i < len(returned) else None
                if st is not None:
                    target = i
                    mutated_seen = True
                    if kind == "MD":
                        if isinstance(st.data, list):
                            st.data[:] = op[2]
                    elif kind == "MI":
                        if isinstance(st.data, (list, tuple)) and st.data and isinstance(st.data[0], list):
                            st.data[0][:] = op[2]
                    elif kind == "MV":
                        v = st.metadata["vars"].get(op[2])
                        if isinstance(v, list):
                            v[:] = op[3]
                    elif kind == "SV":
                        st.metadata["vars"][op[2]] = op[3]
                    elif kind == "SM":
                        st.metadata["status"] = op[2]
                        st.metadata["is_error"] = op[3]
                        st.metadata.setdefault("attributes", {})["volatile"] = op[4]
                        st.metadata["caching"] = op[5]
                        st.metadata["query"] = op[6]
                    elif kind == "SX":
                        scribble(st.metadata)
            # observation
            rl = [("-" if s is None else abs_state(s)) for s in returned]
            cl = []
            for k in universe:
                try:
                    cs = cache.get(k)
                except Exception:
                    cs = None
                cl.append("-" if cs is None else abs_state(cs))
            dline = ";".join(sorted("%s=%s" % (hx(k), canon(v)) for k, v in S._vars.items()))
            sh = sharing(returned, cache, live == "1")
            res["lines"].append("%s # %s # %s # %s # %s # %s" % (
                result, calls, "&".join("%d:%s" % (i, x) for i, x in enumerate(rl)), "&".join("%s:%s" % (hx(k), x) for k, x in zip(universe, cl)), dline, sh))
            # O2: earlier results change only when the caller mutates that very state
            for i, (a, b) in enumerate(zip(prev, rl)):
                if a != b and i != target:
                    res["bad"].append(("earlier-result:%s:%s" % (name, kind), "%s, operation %d (%r) of %r: the state returned by operation-%d changed from %r to %r" % (
                        name, n, op, ops, i, a, b)))
            prev = rl
            # O3
            if dline != dline0:
                res["bad"].append(("defaults:%s:%s" % (name, kind), "%s, operation %d (%r) of %r: configured defaults changed from %r to %r" % (name, n, op, ops, dline0, dline)))
            # O4
            for k, x in zip(universe, cl):
                if x != "-":
                    want = fresh(k)
                    if value_part(x) != want:
                        res["bad"].append(("served:%s:%s" % (name, kind), "%s, operation %d (%r) of %r: cache.get(%r) serves %r, a fresh evaluation gives %r" % (
                            name, n, op, ops, k, value_part(x), want)))
            # O5
            if sh:
                res["bad"].append(("shared-objects:%s:%s" % (name, sh.split(",")[0].split("~")[0][0] + sh.split(",")[0].split("~")[1][0]),
                                   "%s, operation %d (%r) of %r: mutable objects shared between owners: %s" % (name, n, op, ops, sh)))
        return res
    finally:
        shutil.rmtree(tmp, ignore_errors=True)


# ------------------------------------------------------------------ generators
NAMES = ["a", "b", "x1", "q"]
VARS = ["lst", "s", "k"]


def g_chain(rng, depth, defaults, maxlen=4):
    """-> (list of steps, list of cache keys: prefixes and link sub-chain keys)"""
    keys = []

    def link():
        st, ks = g_chain(rng, depth - 1, defaults, 2)
        keys.extend(k if k.startswith("/") else "/" + k for k in ks)
        return "~X~/" + "/".join(st) + "~E"

    def arg():
        return link() if depth > 0 and rng.random() < 0.25 else rng.choice(NAMES)

    r = rng.random()
    listvars = [k for k, v in defaults.items() if isinstance(v, list)]
    if r < 0.12 and listvars:
        # the first action's context variables are those of the initial state (vars_clone() of the configured defaults)
        first = "cvapp-%s-%s" % (rng.choice(listvars), rng.choice(NAMES))
    elif r < 0.7:
        first = "mk" + "".join("-" + arg() for _ in range(rng.randint(0, 3)))
    elif r < 0.85:
        first = "one"
    else:
        first = "mk-" + link() if depth > 0 else "mk-a"
    steps = [first]
    lets = [k for k in defaults]
    for _ in range(rng.randint(0, maxlen)):
        r = rng.random()
        if r < 0.22:
            steps.append("app-" + arg())
        elif r < 0.30:
            steps.append("ident")
        elif r < 0.36:
            steps.append("copyl")
        elif r < 0.46 and depth > 0:
            steps.append("ext-" + link())
        elif r < 0.54:
            steps.append("pair-" + arg())
        elif r < 0.66:
            k = rng.choice(VARS)
            steps.append("let-%s-%s" % (k, arg()))
            lets.append(k)
        elif r < 0.76 and lets:
            steps.append("getvar-" + rng.choice(lets))
        elif r < 0.83 and lets:
            steps.append("vapp-%s-%s" % (rng.choice(lets), rng.choice(NAMES)))
        elif r < 0.88 and lets:
            steps.append("cvapp-%s-%s" % (rng.choice(lets), rng.choice(NAMES)))
        elif r < 0.91:
            steps.append("vol")
        elif r < 0.95:
            steps.append("nocache")
        elif r < 0.97:
            steps.append("boom")
        else:
            steps.append("app-" + rng.choice(NAMES))
    for i in range(1, len(steps) + 1):
        keys.append("/".join(steps[:i]))
    return steps, keys


def g_list(rng):
    return [rng.choice(["m1", "m2", "zz"]) for _ in range(rng.randint(0, 3))]


def g_history(rng):
    defaults = rng.choice([{}, {"lst": ["d1", "d2"]}, {"lst": ["d1"], "s": "str"}, {"k": "v", "lst": []}])
    base, keys = g_chain(rng, 2, defaults)
    universe = list(keys)
    queries = [base]          # as lists of steps
    ops, nret = [], 0
    evaluated = []            # text of the query of every returned state
    for _ in range(rng.randint(4, 10)):
        r = rng.random()
        if nret == 0 or r < 0.5:
            r2 = rng.random()
            if r2 < 0.35:
                q = rng.choice(queries)
            elif r2 < 0.6:
                b = rng.choice(queries)
                q = b[:rng.randint(1, len(b))]
            elif r2 < 0.85:
                tail, ks = g_chain(rng, 1, defaults, 2)
                q = rng.choice(queries) + (tail[1:] or ["app-" + rng.choice(NAMES)])
                universe += [k for k in ks if k.startswith("/")]
            else:
                q, ks = g_chain(rng, 2, defaults)
                universe += ks
            if q not in queries:
                queries.append(q)
            ops.append(("E", "/".join(q)))
            evaluated.append("/".join(q))
            nret += 1
        else:
            i = rng.randrange(nret)
            r2 = rng.random()
            if aliases_volatile_input(evaluated[i]) and r2 < 0.55:
                # known finding volatile-input-not-cloned: data and a variable of such a state may be ONE object (also nested inside a
                # pair); in-place mutation of its objects is outside the one-cell-per-value abstraction of the model
                r2 = 0.55 + 0.45 * rng.random()
            if r2 < 0.28:
                ops.append(("MD", i, g_list(rng)))
            elif r2 < 0.38:
                ops.append(("MI", i, g_list(rng)))
            elif r2 < 0.55:
                ops.append(("MV", i, rng.choice(VARS), g_list(rng)))
            elif r2 < 0.7:
                ops.append(("SV", i, rng.choice(VARS), rng.choice(["w", 5])))
            elif r2 < 0.85:
                ops.append(("SM", i, rng.choice(["ready", "zzz", "error"]), rng.random() < 0.3, rng.random() < 0.3, rng.random() < 0.7, "/".join(rng.choice(queries))))
            else:
                ops.append(("SX", i))
    for q in queries:
        universe += ["/".join(q[:i]) for i in range(1, len(q) + 1)]
    seen, uni = set(), []
    for k in universe:
        if k not in seen:
            seen.add(k)
            uni.append(k)
    rng.shuffle(uni)
    return defaults, ops, uni[:16]


def g_tuple_history(rng):
    """oracle-only family: results that are TUPLES holding mutable members (an immutable container is not a reason to share it)"""
    base = rng.choice([["mk-a-b", "tup"], ["mk-a", "app-b", "tup"], ["mk", "tup", "ident"], ["mk-a", "tup", "vol"], ["mk-a", "copyl", "tup"]])
    q, pre = "/".join(base), "/".join(base[:-1])
    ops = [("E", q)]
    for _ in range(rng.randint(3, 7)):
        r = rng.random()
        if r < 0.4:
            ops.append(("MI", rng.randrange(sum(1 for o in ops if o[0] == "E")), g_list(rng)))
        elif r < 0.75:
            ops.append(("E", q))
        elif r < 0.9:
            ops.append(("E", pre))
        else:
            ops.append(("E", q + "/ident"))
    return {}, ops, ["/".join(base[:i]) for i in range(1, len(base) + 1)] + [q + "/ident"]


def wire(ci, defaults, ops, universe):
    name, cache_on, live = CACHES[ci]
    d = ";".join("%s=%s" % (hx(k), canon(v)) for k, v in defaults.items()) or "-"
    u = ",".join(hx(k) for k in universe) or "-"
    ws = []
    for op in ops:
        if op[0] == "E":
            ws.append("E:" + hx(op[1]))
        elif op[0] == "MD":
            ws.append("MD:%d:%s" % (op[1], canon(op[2])))
        elif op[0] == "MI":
            ws.append("MI:%d:%s" % (op[1], canon(op[2])))
        elif op[0] == "MV":
            ws.append("MV:%d:%s:%s" % (op[1], hx(op[2]), canon(op[3])))
        elif op[0] == "SV":
            ws.append("SV:%d:%s:%s" % (op[1], hx(op[2]), canon(op[3])))
        elif op[0] == "SM":
            ws.append("SM:%d:%s:%d:%d:%d:%s" % (op[1], hx(op[2]), op[3], op[4], op[5], hx(op[6])))
        else:
            ws.append("SX:%d" % op[1])
    return "iso.run %s %s %s %s %s" % (cache_on, live, d, u, " ".join(ws))


def gen_tasks(ctx, count):
    tasks = []
    for i in range(count):
        defaults, ops, universe = g_history(ctx.rng)
        tasks.append((i % len(CACHES), defaults, ops, universe))
    return tasks


def load_corpus():
    import json
    d = os.path.join(common.VERIF, "corpus", "C10")
    out = []
    if os.path.isdir(d):
        for f in sorted(os.listdir(d)):
            if f.endswith(".json"):
                c = json.load(open(os.path.join(d, f)))
                c = c.get("case", c)
                out.append((c["cache"], c["defaults"], [tuple(o) for o in c["ops"]], c["universe"]))
    return out


def judge(ctx, tasks, results):
    for t, r in zip(tasks, results):
        ci, defaults, ops, universe = t
        ctx.case(repr(t) if r["interesting"] else None)
        ctx.count("cache", CACHES[ci][0])
        ctx.count("history length", str(len(ops)))
        for op in ops:
            ctx.count("operation", op[0])
            if op[0] == "E":
                for step in op[1].replace("~X~/", "/").replace("~E", "").split("/"):
                    ctx.count("command", step.split("-")[0])
        case = dict(kind="history", cache=ci, defaults=defaults, ops=[list(o) for o in ops], universe=universe)
        for key, text in r["bad"]:
            ctx.violation(key, text, case)
        if r["interesting"] and len(ctx.samples) < 6:
            ctx.sample(dict(cache=CACHES[ci][0], defaults=defaults, ops=[list(o) for o in ops]))


def run(ctx):
    count = 4200 if ctx.tier == "thorough" else 420
    tasks = load_corpus() + gen_tasks(ctx, count)
    results = common.pmap(run_history, tasks)
    judge(ctx, tasks, results)
    # tuples with mutable members: implementation-side oracles only (the model's value domain has no immutable containers)
    ttasks = [(i % len(CACHES),) + g_tuple_history(ctx.rng) for i in range(count // 6)]
    judge(ctx, ttasks, common.pmap(run_history, ttasks))
    ctx.count("histories", "tuple results (oracle only)", len(ttasks))
    ans = ctx.driver.ask([wire(*t) for t in tasks])
    ctx.compare("histories: result, calls, all returned states, served cache values, defaults, sharing — vs the heap model (iso.run)",
                ["%s %r %r" % (CACHES[t[0]][0], t[1], t[2]) for t in tasks], [" | ".join(r["lines"]) for r in results], ans)


def search(ctx, broken, disagreements):
    tasks = gen_tasks(ctx, 3000)
    judge(ctx, tasks, common.pmap(run_history, tasks))
    if not ctx.violations:
        ctx.notes.append("enlarged search over 3000 further histories found no failing input")


def replay(ctx, case):
    c2 = type(ctx)("C10", ctx.tier, ctx.seed)
    t = (case["cache"], case["defaults"], [tuple(o) for o in case["ops"]], case["universe"])
    judge(c2, [t], [run_history(t)])
    return c2.violations[0]["what"] if c2.violations else None
