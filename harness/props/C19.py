"""C19 — relative resource paths resolve like POSIX path normalisation.

Correspondence: ResourceQuerySegment.to_absolute / Query.to_absolute vs LiquerModel.Paths.
Oracle: posixpath.normpath (independent of both) with the root-escape rule, idempotence, frame.
"""
import itertools, posixpath
from common import hx
import wire

RULE = ("every directory of depth 0-4 over two names x every resource path of <= 5 (thorough 6) components over "
        "{a, b, ., .., a.b, ...} (exhaustive), plus query-level embeddings (headers, several resource segments, trailing "
        "transformations); non-trivial = path containing at least one '.' or '..' component")
TRUSTED = ["modelled: ResourceQuerySegment._query_to_absolute/to_absolute, Query.to_absolute (LiquerModel/Paths.lean)",
           "oracle: CPython posixpath.normpath"]
ASSUMPTIONS = ["directory argument consists of plain names (the documented contract: an absolute directory key)"]
EXPLANATION = "theorem toAbsolute_eq_posix for all dir/path lengths; idempotence; frame of Query.to_absolute"

NAMES = ["a", "b", ".", "..", "a.b", "..."]
DNAMES = ["x", "y"]


def names_field(ns):
    return ",".join(hx(n) for n in ns) if ns else "-"


def expected(d, p):
    """independent oracle: posixpath.normpath on the relative join; None = must be rejected"""
    full = (list(d) + list(p)) if p and p[0] in (".", "..") else list(p)
    n = posixpath.normpath("/".join(full)) if full else "."
    if n == "..":
        return None
    if n.startswith("../"):
        return None
    return [] if n == "." else n.split("/")


def impl_abs(P, d, p):
    seg = P.ResourceQuerySegment(query=[P.ResourceName(n) for n in p])
    try:
        r = seg.to_absolute([P.ResourceName(n) for n in d])
    except Exception as ex:
        return None, type(ex).__name__
    return [x.encode() for x in r.query], None


def fmt(r):
    return "reject" if r is None else "ok " + names_field(r)


def oracle_pair(P, d, p):
    got, err = impl_abs(P, d, p)
    exp = expected(d, p)
    if got != exp:
        return "to_absolute(dir=%r, path=%r) = %s, POSIX normalisation gives %s" % ("/".join(d), "/".join(p), "raises " + str(err) if got is None else "/".join(got) or "(root)", "rejection (climbs above the root)" if exp is None else "/".join(exp) or "(root)")
    if got is not None and p:
        again, _ = impl_abs(P, d, got)
        if again != got:
            return "resolving the resolved path %r again from %r gives %r" % (got, d, again)
    return None


def gen_queries(ctx, P, n):
    rng = ctx.rng
    res = []
    for _ in range(n):
        segs = []
        k = rng.randint(1, 3)
        for i in range(k):
            kind = rng.random()
            if kind < 0.6:
                hname = rng.choice(["", "", "meta", "x1"])
                hdr = P.SegmentHeader(name=hname, level=rng.randint(1, 2), parameters=[P.StringActionParameter(rng.choice(["p", "a b", "1"])) for _ in range(rng.randint(0, 1))], resource=True)
                path = [P.ResourceName(rng.choice(NAMES)) for _ in range(rng.randint(0, 5))]
                segs.append(P.ResourceQuerySegment(header=hdr, query=path))
            else:
                hdr = P.SegmentHeader(name=rng.choice(["", "ns"]), level=1, parameters=[])
                acts = [P.ActionRequest.from_arguments(rng.choice(["f", "g", "h_1"]), *[rng.choice(["x", "a-b", "~", ".."]) for _ in range(rng.randint(0, 2))]) for _ in range(rng.randint(0, 2))]
                fn = rng.choice([None, None, "out.txt", "."])
                segs.append(P.TransformQuerySegment(header=hdr, query=acts, filename=fn))
        q = P.Query(segs, absolute=rng.random() < 0.3)
        d = [rng.choice(DNAMES) for _ in range(rng.randint(0, 3))]
        sel = rng.choice(["", "", "meta", None, "zz"])
        res.append((q, d, sel))
    return res


def impl_qabs(P, q, d, sel):
    try:
        r = q.to_absolute([P.ResourceName(n) for n in d], resource_segment_name=sel)
    except Exception:
        return "reject", None
    return "ok " + wire.ser(r, pos=False), r


def oracle_query(P, q, d, sel):
    """frame + per-segment POSIX behaviour on the implementation"""
    out, r = impl_qabs(P, q, d, sel)
    exp_segs, rejected = [], False
    for s in q.segments:
        if isinstance(s, P.ResourceQuerySegment) and (sel is None or sel == s.segment_name()) and s.query:
            e = expected(d, [x.encode() for x in s.query])
            if e is None:
                rejected = True
                break
            exp_segs.append(("R", None if s.header is None else s.header.encode(), e))
        elif isinstance(s, P.ResourceQuerySegment):
            exp_segs.append(("R", None if s.header is None else s.header.encode(), [x.encode() for x in s.query]))
        else:
            exp_segs.append(("T", s.encode()))
    if rejected:
        return None if r is None else "query %r resolved against %r should be rejected (climbs above the root) but gave %r" % (q.encode(), d, r.encode())
    if r is None:
        return "query %r resolved against %r raised although no selected path climbs above the root" % (q.encode(), d)
    got = []
    for s in r.segments:
        if isinstance(s, P.ResourceQuerySegment):
            got.append(("R", None if s.header is None else s.header.encode(), [x.encode() for x in s.query]))
        else:
            got.append(("T", s.encode()))
    if got != exp_segs or r.absolute != q.absolute:
        return "query %r resolved against %r (segment name %r): got %r expected %r" % (q.encode(), d, sel, got, exp_segs)
    # idempotence (theorem query_idem): resolving the resolved query again changes nothing
    out2, r2 = impl_qabs(P, r, d, sel)
    if out2 != out:
        return "query %r resolved against %r (segment name %r) is not a fixed point: resolving the result again gives %s instead of %s" % (q.encode(), d, sel, out2, out)
    return None


def run(ctx):
    import liquer.parser as P
    L = 6 if ctx.tier == "thorough" else 5
    dirs = [list(t) for k in range(0, 5) for t in itertools.product(DNAMES, repeat=k)]
    paths = [list(t) for k in range(0, L + 1) for t in itertools.product(NAMES, repeat=k)]
    ctx.exhaustive.append("all %d directories of depth 0-4 over %r x all %d paths of <= %d components over %r" % (len(dirs), DNAMES, len(paths), L, NAMES))
    # the model is asked for every path against a subset of directories (all depths), the oracle runs on all pairs
    model_dirs = dirs if ctx.tier == "thorough" else [dirs[0], dirs[1], dirs[4], dirs[9], dirs[20]]
    cases, impl = [], []
    for d in dirs:
        in_model = d in model_dirs
        for p in paths:
            nt = ("/".join(d) + "|" + "/".join(p)) if ("." in p or ".." in p) else None
            ctx.case(nt)
            bad = oracle_pair(P, d, p)
            if bad:
                ctx.violation("abs:%s|%s" % ("/".join(d), "/".join(p)), bad, dict(kind="abs", dir=d, path=p))
            if in_model:
                got, _ = impl_abs(P, d, p)
                cases.append((d, p))
                impl.append(fmt(got))
    ctx.count("pairs", "dir depth 0-4 x path length 0-%d" % L, len(dirs) * len(paths))
    ctx.sample(dict(dir="x/y", path="./../a", resolved=impl_abs(P, ["x", "y"], [".", "..", "a"])[0]))
    ctx.sample(dict(dir="x", path="a/.././b", resolved=impl_abs(P, ["x"], ["a", "..", ".", "b"])[0]))
    ctx.compare("to_absolute(names)", cases, impl, ctx.driver.ask(["path.abs %s %s" % (names_field(d), names_field(p)) for d, p in cases]))
    # string directory argument goes through resource_path.parseString
    for d in dirs[:15]:
        for p in paths[:300:7]:
            seg = P.ResourceQuerySegment(query=[P.ResourceName(n) for n in p])
            try:
                r1 = [x.encode() for x in seg.to_absolute("/".join(d)).query]
            except Exception:
                r1 = None
            if r1 != expected(d, p):
                ctx.violation("abs-str:%s|%s" % ("/".join(d), "/".join(p)), "to_absolute with string directory %r, path %r gives %r" % ("/".join(d), p, r1), dict(kind="abs", dir=d, path=p))
    # query level
    qs = gen_queries(ctx, P, 4000 if ctx.tier == "thorough" else 800)
    impl, lines = [], []
    for q, d, sel in qs:
        ctx.case("q:" + q.encode() + "|" + "/".join(d) + "|" + str(sel))
        before = wire.ser(q, pos=False)
        bad = oracle_query(P, q, d, sel)
        if bad is None and wire.ser(q, pos=False) != before:
            # resolving is a pure function of (query, directory): the query object it is called on stays what it was (a second resolution
            # of the same object against another directory must not start from the result of the first)
            bad = "query %r: to_absolute(%r) changed the query object it was called on into %r" % (qs_text(before), "/".join(d), q.encode())
        if bad:
            ctx.violation("qabs:%s|%s|%s" % (q.encode(), "/".join(d), sel), bad, dict(kind="qabs", query=wire.ser(q, pos=False), text=q.encode(), dir=d, sel=sel))
        impl.append(impl_qabs(P, q, d, sel)[0])
        lines.append("path.qabs %s %s %s" % (names_field(d), "ALL" if sel is None else hx(sel), wire.ser(q, pos=False)))
    ctx.count("queries", "generated 1-3 segments, headers, selected/unselected names", len(qs))
    ctx.sample(dict(query=qs[0][0].encode(), dir="/".join(qs[0][1]), segment_name=qs[0][2], result=impl[0][:80]))
    ctx.compare("Query.to_absolute", [q.encode() for q, d, s in qs], impl, ctx.driver.ask(lines))


def qs_text(ser):
    return ser[:120]


def search(ctx, broken, disagreements):
    ctx.notes.append("the pair space is enumerated exhaustively by run(); no further search space")


def replay(ctx, case):
    import liquer.parser as P
    if case["kind"] == "abs":
        return oracle_pair(P, case["dir"], case["path"])
    if case["kind"] == "qabs":
        try:
            q = P.parse(case["text"])
        except Exception as ex:
            return "replay query does not parse: %r" % ex
        return oracle_query(P, q, case["dir"], case["sel"])
    return "unknown replay kind"
