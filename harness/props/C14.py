"""C14 — mounted stores: routing, key translation and union views are exact.

Correspondence: liquer.store.MountPointStore / PrefixStore over MemoryStore or FileStore parts vs
`mountOps` / `prefixOps` (LiquerModel/StoreMount.lean; `memOps` parts for MemoryStore, `specOps` parts for
FileStore): observations of a fixed key universe + keys() + the content of every part after every operation.
Oracle (on the implementation only): the composite's observations must equal the union of the parts'
observations re-prefixed, computed from the part stores directly (innermost mount owns a key, default
store otherwise, mount points and their parents are directories); every operation changes exactly the
owning part, as the same operation on the stripped key would (dict-based reference per part);
`sub.to_root_key(k)` read through `sub.root_store()` reaches the entry `k` of `sub`.
"""
import itertools, os
import common
import layers as Y
from layers import Ref

RULE = ("all 27 mount tables with <= 3 mounts over prefixes {a, a/b, c, c/d} (outer mounted before inner) x {MemoryStore, FileStore} "
        "x default store {none, empty, populated}; parts pre-populated with random subsets of {x, b/y, d/w} (so that an outer mount holds keys "
        "shadowed by an inner one), default with subsets of {a/hidden, a/b/deep, c/d/w, z}; seeded well-formed histories of <= 15 operations on keys "
        "inside, outside and exactly at mount points; non-trivial = table with a nested mount or a default store shadowed by a mount, and a history "
        "that writes below a mount point")
TRUSTED = ["modelled: MountPointStore (route_to, get_metadata, is_dir, contains, keys, listdir, removedir), RoutingStore, KeyTranslatingStore, PrefixStore.translate_key, to_root_key/root_store (LiquerModel/StoreMount.lean); a FileStore part is modelled by specOps",
           "oracle: harness/props/C14.py (owner = longest matching prefix; union computed from direct reads of the part stores) and harness/layers.py Ref"]
ASSUMPTIONS = ["mount tables satisfy tableWF: distinct non-empty prefixes, an outer prefix is mounted before an inner one; the default store holds no *file* at or above a mount point",
               "all parts of one composite are of the same class (the model instantiates one part model per table)",
               "well-formed histories on the union view; a recursive removedir at or above a mount point (deletes, then raises) is compared with the model but not judged by the oracle"]
EXPLANATION = ("theorems: route_to = innermost (= last mounted) matching mount, else default (every table); under tableWF contains/is_dir/metadata key/listdir/keys of "
               "the composite equal the re-prefixed union of the parts; every write changes only the owning part; to_root_key reaches the same entry when no inner mount shadows it")

# "ab" and "c/dd" extend "a" / "c/d" as TEXT but not as paths: routing and directory flags must respect component boundaries
PREFIXES = ["a", "a/b", "c", "c/d", "ab", "c/dd"]
PARTFILES = ["x", "b/y", "d/w"]
DEFFILES = ["a/hidden", "a/b/deep", "c/d/w", "z"]
NEWKEYS = ["n", "a/n", "a/b/n", "c/d/n", "c/n"]


def closure(keys):
    s = {""}
    for k in keys:
        s.add(k)
        s.update(Y.ancestors(k))
    return sorted(s)


UNIVERSE = closure([p + "/" + f for p in PREFIXES for f in PARTFILES] + DEFFILES + NEWKEYS + PREFIXES + ["zz"])


def tables():
    res = []
    for n in range(0, 4):
        for perm in itertools.permutations(PREFIXES, n):
            # outer before inner: an ancestor prefix never comes after its descendant
            ok = all(not perm[i].startswith(perm[j] + "/") for i in range(n) for j in range(i + 1, n))
            if ok:
                res.append(list(perm))
    return res


class Composite:
    """implementation + the parts it was built from + one reference per part"""

    def __init__(self, kind, default, table, parts_factory, md5):
        import liquer.store as S
        self.kind, self.md5 = kind, md5
        self.default_files, self.table = default, table
        self.inits = []

        def make(files, tag):
            st, ref = parts_factory.make(kind), Ref()
            init = [("s", k, (tag + ":" + k).encode(), "i" + k, None, None) for k in files]
            for op in init:
                md5.add(op[2])
                Y.apply_impl(st, op)
                ref.apply(op)
            self.inits.append(init)
            return st, ref
        if default is None:
            self.default, self.dref = None, None
            self.inits.append(None)
        else:
            self.default, self.dref = make(default, "D")
        self.parts, self.prefs = [], []
        self.mp = S.MountPointStore(self.default)
        for p, files in table:
            st, ref = make(files, p)
            self.parts.append((p, st))
            self.prefs.append(ref)
            self.mp.mount(p, st)

    # --- the union, computed from the parts directly
    def owner(self, k):
        """(index | 'D' | None, stripped key)"""
        best = None
        for i, (p, _) in enumerate(self.parts):
            if k == p or k.startswith(p + "/"):
                if best is None or len(p) > len(self.parts[best][0]):
                    best = i
        if best is not None:
            p = self.parts[best][0]
            return best, k[len(p) + 1:]
        return ("D", k) if self.default is not None else (None, k)

    def store_of(self, o):
        return self.default if o == "D" else self.parts[o][1]

    def ref_of(self, o):
        return self.dref if o == "D" else self.prefs[o]

    def above(self, k):
        return k == "" or any(p == k or p.startswith(k + "/") for p, _ in self.parts)

    def mount_children(self, k):
        pre = k + "/" if k else ""
        return {p[len(pre):].split("/")[0] for p, _ in self.parts if p.startswith(pre) and p != k}

    def u_is_dir(self, k):
        if self.above(k):
            return True
        o, t = self.owner(k)
        return o is not None and bool(self.store_of(o).is_dir(t))

    def u_is_file(self, k):
        if self.above(k):
            return False
        o, t = self.owner(k)
        return o is not None and bool(self.store_of(o).contains(t)) and not self.store_of(o).is_dir(t)

    def u_children(self, k):
        o, t = self.owner(k)
        base = set()
        if o is not None:
            base = set(self.store_of(o).listdir(t) or [])
        return sorted(base | self.mount_children(k))

    def expect(self, k):
        e = dict(contains=False, is_dir=False, get_bytes=None, get_metadata=None, listdir=None)
        o, t = self.owner(k)
        name = k.split("/")[-1]
        if self.u_is_dir(k):
            e.update(contains=True, is_dir=True, get_metadata=dict(key=k, name=name, is_dir=True), listdir=self.u_children(k))
        elif self.u_is_file(k):
            st = self.store_of(o)
            sub = Y.read_key(st, t, self.md5)
            e.update(contains=True, get_bytes=sub["get_bytes"][1] if sub["get_bytes"][0] == "ok" else None)
            m = sub["get_metadata"][1] if sub["get_metadata"][0] == "ok" else None
            if m is not None:
                e["get_metadata"] = dict(key=k, name=name, is_dir=False, size=m["size"], md5=m["md5"], user=m["user"])
        return e

    def expect_keys(self):
        """(exact union, parents of mount points that no part lists)"""
        res = []
        for i, (p, st) in enumerate(self.parts):
            res.append(p)
            res += [p + "/" + kk for kk in st.keys() if kk != "" and self.owner(p + "/" + kk)[0] == i]
        if self.default is not None:
            res += [kk for kk in self.default.keys() if self.owner(kk)[0] == "D"]
        parents = sorted({a for p, _ in self.parts for a in Y.ancestors(p)} - set(res))
        return sorted(res), parents

    # --- well-formedness on the union view
    def wf(self, op):
        t, k = op[0], op[1]
        anc_file = any(self.u_is_file(a) for a in Y.ancestors(k))
        if t == "s":
            return k != "" and not self.u_is_dir(k) and not anc_file
        if t in ("m", "r"):
            return self.u_is_file(k)
        if t == "d":
            return k != "" and self.u_is_dir(k) and (bool(op[2]) or not self.u_children(k))
        if t == "k":
            return k != "" and not anc_file and not self.u_is_file(k)
        return False

    def resync(self):
        """after an operation the oracle does not judge: references := what the parts hold now"""
        def rebuild(st):
            r = Ref()
            for k in st.keys():
                if st.is_dir(k):
                    r.n[k] = ("D",)
                else:
                    try:
                        m = Y.read_key(st, k, self.md5)["get_metadata"][1]
                        r.n[k] = ("F", st.get_bytes(k), m["user"], m["size"], self.md5.m.get(m["md5"]))
                    except Exception:
                        r.n[k] = ("F", None, {}, None, None)      # a part that lists a key it cannot read: the comparison will show it
            return r
        if self.default is not None:
            self.dref = rebuild(self.default)
        self.prefs = [rebuild(st) for _, st in self.parts]

    def parts_dump(self):
        return "|".join([("N" if self.default is None else Y.dump(self.default, self.md5))] + [Y.dump(st, self.md5) for _, st in self.parts])

    def refs_dump(self):
        return "|".join([("N" if self.default is None else self.dref.dump(self.md5))] + [r.dump(self.md5) for r in self.prefs])


def gen_op(rng, C, counter):
    keys = UNIVERSE[1:]
    for _ in range(40):
        kind = rng.choices(["s", "m", "r", "k", "dr", "dn"], [34, 12, 20, 10, 12, 12])[0]
        user = "u%d" % counter
        k = rng.choice(keys)
        if kind == "s":
            op = ("s", k, rng.choice([b"", b"1", b"22", k.encode()]), user, None, None)
        elif kind == "m":
            files = [x for x in keys if C.u_is_file(x)]
            if not files:
                continue
            k = rng.choice(files)
            d = C.expect(k)["get_bytes"] or b""
            op = ("m", k, user, len(d), d) if rng.random() < 0.5 else ("m", k, user, None, None)
        elif kind == "r":
            files = [x for x in keys if C.u_is_file(x)]
            if not files:
                continue
            op = ("r", rng.choice(files))
        elif kind == "k":
            op = ("k", k)
        else:
            dirs = [x for x in keys if C.u_is_dir(x)]
            if not dirs:
                continue
            op = ("d", rng.choice(dirs + [p for p, _ in C.parts]), kind == "dr")
        if C.wf(op):
            return op
    return None


def run_case(kind, default, table, ops=None, rng=None, length=0, stop_on=None):
    """default: None | list of files; table: [(prefix, [files])]"""
    factory = Y.Parts()
    md5 = Y.Md5Map()
    res = dict(ops=[], states=[], findings=[], wf=True, nontrivial=False, roots=[])
    for d in [b"", b"1", b"22"] + [k.encode() for k in UNIVERSE]:
        md5.add(d)
    try:
        C = Composite(kind, default, table, factory, md5)
        res["inits"] = C.inits
        nested = any(p.startswith(q + "/") for p, _ in table for q, _ in table) or (default and any(f == p or f.startswith(p + "/") for f in default for p, _ in table))

        def observe(step, r, judged=True):
            items = [r]
            for k in UNIVERSE:
                got = Y.read_key(C.mp, k, md5)
                items.append(Y.enc_read(k, got, md5))
                for fld, text in Y.diff_obs(got, C.expect(k)):
                    cls = "%s@%s" % (fld, k)
                    if fld == "get_metadata.name" and any(k == p for p, _ in C.parts):
                        cls = "mount-point-name"
                    if got[fld.split(".")[0]] == ("err", "Ern"):
                        cls = "route-not-found:" + fld.split(".")[0]
                    res["findings"].append((cls, "%s(%r): %s" % (fld.split(".")[0], k, text), step))
            ks = Y.read_keys(C.mp)
            items.append(Y.enc_keylist(ks))
            exp, parents = C.expect_keys()
            if ks[0] == "err":
                res["findings"].append(("keys", "keys() raises " + ks[1], step))
            else:
                got = sorted(ks[1])
                dup = sorted({k for k in got if got.count(k) > 1})
                if dup:
                    res["findings"].append(("keys:duplicate", "keys() lists %r more than once: %r" % (dup, got), step))
                if sorted(set(got)) == sorted(set(exp)) and parents:
                    res["findings"].append(("keys:missing-mount-parent", "keys() = %r does not list %r, the parent director%s of a mount point (contains() is True, listdir of the level above shows it)" % (got, parents, "y" if len(parents) == 1 else "ies"), step))
                elif sorted(set(got)) != sorted(set(exp + parents)):
                    res["findings"].append(("keys", "keys() = %r, union of the parts re-prefixed = %r" % (got, sorted(exp + parents)), step))
            items.append("P" + C.parts_dump())
            if judged and C.parts_dump() != C.refs_dump():
                res["findings"].append(("routing", "content of the parts %r differs from the owning part changed by the stripped operation %r" % (C.parts_dump(), C.refs_dump()), step))
            res["states"].append(" ".join(items))

        observe(0, "r=ok")
        n = 0
        while True:
            if ops is not None:
                if n >= len(ops):
                    break
                op = ops[n]
                if not C.wf(op):
                    res["wf"] = False
                    break
            else:
                if n >= length:
                    break
                op = gen_op(rng, C, n)
                if op is None:
                    break
            n += 1
            res["ops"].append(op)
            if op[0] == "s":
                md5.add(op[2])
            o, t = C.owner(op[1])
            at_or_above = op[0] == "d" and any(p == op[1] or p.startswith(op[1] + "/") for p, _ in C.parts)
            if nested and o not in (None, "D") and op[0] in ("s", "m", "r"):
                res["nontrivial"] = True
            r = Y.apply_impl(C.mp, op)
            judged = True
            if at_or_above:
                if op[2]:
                    judged = False      # deletes below, then raises at the mount point: compared with the model only
                elif r == "r=ok":
                    res["findings"].append(("removedir-mount-point", "removedir(%r) of a mount point did not refuse" % op[1], n))
            elif o is None:
                if r == "r=ok":
                    res["findings"].append(("no-route-write", "%s succeeded although no store serves the key" % Y.show_op(op), n))
            else:
                if r != "r=ok":
                    res["findings"].append(("raises:" + op[0], "well-formed %s raised (%s)" % (Y.show_op(op), r), n))
                ref = C.ref_of(o)
                sop = (op[0], t) + tuple(op[2:])
                if t == "":
                    pass                # makedir of a mount point: nothing to do in the part
                elif ref.wf(sop):
                    ref.apply(sop)
                else:
                    res["findings"].append(("oracle", "stripped operation %r is not well-formed on the owning part" % (sop,), n))
            if not judged:
                C.resync()
            observe(n, r, judged)
            if stop_on is not None and any(c == stop_on for c, _, s in res["findings"] if s == n):
                break
        # to_root_key round trip
        for i, (p, st) in enumerate(C.parts):
            for kk in [""] + sorted(st.keys()):
                rk = st.to_root_key(kk)
                res["roots"].append((p, kk, rk))
                if st.root_store() is not C.mp:
                    res["findings"].append(("root_store", "root_store() of the store mounted at %r is not the mount-point store" % p, n))
                if C.owner(rk)[0] != i or kk == "":
                    continue
                a, b = Y.read_key(st, kk, md5), Y.read_key(C.mp, rk, md5)
                if a["get_bytes"] != b["get_bytes"] or a["contains"] != b["contains"] or (b["get_metadata"][0] == "ok" and b["get_metadata"][1]["key"] != rk):
                    res["findings"].append(("to_root_key", "store mounted at %r: to_root_key(%r) = %r does not reach the same entry through the root store" % (p, kk, rk), n))
        if C.default is not None:
            for kk in sorted(C.default.keys()):
                if C.default.to_root_key(kk) != kk:
                    res["findings"].append(("to_root_key", "default store: to_root_key(%r) = %r" % (kk, C.default.to_root_key(kk)), n))
        return res
    finally:
        factory.close()


def model_line(kind, inits, table, ops):
    d = "N" if inits[0] is None else Y.enc_ops(inits[0])
    t = ";".join("%s=%s" % (Y.kx(p), Y.enc_ops(i)) for (p, _), i in zip(table, inits[1:])) or "-"
    return "mt %s %s %s %s %s" % ("M" if kind == "M" else "S", d, t, Y.enc_ops(ops), Y.enc_keys(UNIVERSE))


def cfg_text(kind, default, table):
    return "MountPointStore(default=%s) of %ss, mounts [%s]" % (
        "none" if default is None else "{%s}" % ", ".join(default), {"M": "MemoryStore", "F": "FileStore"}[kind],
        ", ".join("%s:{%s}" % (p, ", ".join(f)) for p, f in table))


def cfg_key(kind, default, table):
    return "%s:default=%s:table=%s" % (kind, "N" if default is None else ",".join(default), ";".join("%s=%s" % (p, ",".join(f)) for p, f in table))


def minimise(kind, default, table, ops, cls):
    def fails(default_, table_, ops_):
        r = run_case(kind, default_, table_, ops=ops_, stop_on=cls)
        return r["wf"] and any(c == cls for c, _, _ in r["findings"])
    ops = Y.shrink(ops, lambda o: fails(default, table, o))
    table = Y.shrink(table, lambda t: fails(default, t, ops))
    table = [(p, Y.shrink(f, lambda ff, p=p, i=i: fails(default, table[:i] + [(p, ff)] + table[i + 1:], ops))) for i, (p, f) in enumerate(table)]
    if default is not None:
        default = Y.shrink(default, lambda d: fails(d, table, ops))
        if fails(None, table, ops):
            default = None
    return default, table, ops


def report(ctx, kind, default, table, ops, cls, seen):
    r0 = run_case(kind, default, table, ops=ops)
    steps = [s for c, _, s in r0["findings"] if c == cls]
    if not steps:
        return
    d2, t2, o2 = minimise(kind, default, table, ops[:min(steps)], cls)
    r = run_case(kind, d2, t2, ops=o2)
    if not any(c == cls for c, _, _ in r["findings"]):
        # the shrunk case does not reproduce (the failure depends on something the shrinker changed, e.g. the mount order): keep the original
        d2, t2, o2, r = default, table, ops, r0
    key = "mt:%s:h=%s:%s" % (cfg_key(kind, d2, t2), Y.enc_ops(o2), cls)
    if key in seen:
        return
    seen.add(key)
    text = [t for c, t, s in r["findings"] if c == cls][-1]
    ctx.violation(key, "%s; %s; then %s" % (cfg_text(kind, d2, t2), Y.show_hist(o2), text),
                  dict(kind="mt", part=kind, default=d2, table=[[p, f] for p, f in t2], ops=[Y.op_json(o) for o in o2], cls=cls))


def probe_recipes_key(ctx):
    """D7 (recipes_key): a RecipeSpecStore writes root keys into `recipes_key`, PrefixStore.get_metadata prefixes it again"""
    try:
        from liquer.store import MemoryStore, MountPointStore
        from liquer.recipes import RecipeSpecStore
        import liquer.ext.basic  # noqa
        sub = MemoryStore()
        sub.store("recipes.yaml", b"RECIPES:\n  - hello/hello.txt\n", {})
        mp = MountPointStore(MemoryStore())
        mp.mount("r", RecipeSpecStore(sub))
        got = mp.get_metadata("r/hello.txt").get("recipes_key")
    except Exception as ex:
        ctx.notes.append("recipes_key probe not runnable: %r" % (ex,))
        return
    if got != "r/recipes.yaml":
        ctx.violation("mt:probe:recipes_key:mount=r:key=r/hello.txt", "RecipeSpecStore over {recipes.yaml} mounted at 'r': get_metadata('r/hello.txt')['recipes_key'] = %r, the recipes file is 'r/recipes.yaml'" % (got,),
                      dict(kind="recipes_key"))


def probe_nested(ctx):
    """a MountPointStore mounted inside a MountPointStore (as get_web_store()/web_mount() build): `sub.to_root_key(k)` read through
    `sub.root_store()` reaches entry `k` of `sub`, for every depth; the key itself is compared with Mt.toRootKeyChain"""
    from liquer.store import MemoryStore, FileStore, MountPointStore
    rng = ctx.rng
    cases = []
    for trial in range(60 if ctx.tier == "thorough" else 14):
        depth = rng.choice([2, 2, 3])
        prefixes = [rng.choice(["web", "gui", "a", "a/b", "x/y/z", "ab"]) for _ in range(depth)]     # outermost first
        tmp = common.scratch_dir()
        try:
            leaf = MemoryStore() if rng.random() < 0.5 else FileStore(tmp)
            root = MountPointStore(MemoryStore())
            cur = root
            parent = root
            for i, p in enumerate(prefixes):
                nxt = leaf if i == depth - 1 else MountPointStore(MemoryStore() if rng.random() < 0.5 else None)
                cur.mount(p, nxt)
                parent, cur = cur, nxt
            keys = rng.sample(["index.html", "d/f.txt", "q", "a/b/c", "web/x"], 3)
            for k in keys:
                leaf.store(k, ("data of " + k).encode(), {})
            if trial % 2:
                parent.mount(prefixes[-1], leaf)      # the same store mounted again at the same key (a set-up function called twice)
            # exclusivity through the levels: a key below an inner mount point is never served by a store further out (a key the inner
            # composite has no route for raises - it is not handed to an outer default store)
            before = sorted(root.default_store.keys())
            for i in range(depth - 1):
                stray = "/".join(prefixes[:i + 1]) + "/zz-unrouted.txt"
                try:
                    root.store(stray, b"stray", {})
                except Exception:
                    pass
                if sorted(root.default_store.keys()) != before:
                    ctx.violation("mt:nested:exclusive:depth=%d" % depth,
                                  "stores nested at %r (outermost first): store(%r) - a key below the mount point %r - changed the OUTERMOST default store (keys %r)" % (
                                      prefixes, stray, "/".join(prefixes[:i + 1]), sorted(root.default_store.keys())), dict(kind="nested", prefixes=prefixes, key=stray))
                    break
            # the key exactly AT each inner mount point is a directory of the composite that lists the next mount
            for i in range(depth - 1):
                at = "/".join(prefixes[:i + 1])
                child = prefixes[i + 1].split("/")[0]
                try:
                    got = (root.is_dir(at), root.contains(at), child in (root.listdir(at) or []))
                except Exception as ex:
                    got = "raises %s" % type(ex).__name__
                if got != (True, True, True):
                    ctx.violation("mt:nested:at-mount-point:depth=%d" % depth,
                                  "stores nested at %r (outermost first): at the mount point %r the root store gives (is_dir, contains, %r in listdir) = %r" % (prefixes, at, child, got),
                                  dict(kind="nested", prefixes=prefixes, key=at))
            for k in keys:
                rk = leaf.to_root_key(k)
                cases.append((prefixes, k, rk))
                want = "/".join(prefixes + [k])
                ok = True
                try:
                    rs = leaf.root_store()
                    ok = rs is root and rs.get_bytes(rk) == leaf.get_bytes(k) and rs.get_metadata(rk)["key"] == rk and rs.contains(rk)
                except Exception:
                    ok = False
                if not ok or rk != want:
                    ctx.violation("mt:nested:to_root_key:depth=%d" % depth,
                                  "stores nested at %r (outermost first): to_root_key(%r) of the innermost store = %r (expected %r); read through the root store it %s" % (
                                      prefixes, k, rk, want, "reaches the same entry" if ok else "does not reach the same entry"),
                                  dict(kind="nested", prefixes=prefixes, key=k))
        finally:
            import shutil
            shutil.rmtree(tmp, ignore_errors=True)
    ans = ctx.driver.ask(["mt.rootchain %s %s" % (",".join(Y.kx(p) for p in reversed(ps)), Y.kx(k)) for ps, k, _ in cases])
    ctx.compare("to_root_key through nested mount-point stores", ["%r: %s" % (ps, k) for ps, k, _ in cases], [Y.kx(rk) for _, _, rk in cases], ans)
    ctx.count("nested mount probes", "depth 2-3", len(cases))


def run(ctx):
    import time
    thorough = ctx.tier == "thorough"
    budget = 420 if thorough else 32
    tabs = tables()
    ctx.exhaustive.append("all %d mount tables with <= 3 mounts over %r respecting outer-before-inner x {MemoryStore, FileStore} x default {none, empty, populated}" % (len(tabs), PREFIXES))
    cfgs = [(kind, dk, t) for t in tabs for kind in "MF" for dk in ("none", "empty", "populated")]
    rng = ctx.rng
    cases, impl, lines, seen, classes, roots = [], [], [], set(), {}, []
    fixed = [(c["part"], c["default"], [(p, f) for p, f in c["table"]], [Y.op_unjson(o) for o in c["ops"]])
             for c in Y.load_corpus("C14") if c.get("kind") == "mt"]
    probe_recipes_key(ctx)
    probe_nested(ctx)
    t0, rounds, done = time.time(), 0, 0
    while True:
        if rounds == 0:
            todo = [(k, d, t, o, 0) for k, d, t, o in fixed]
        else:
            order = list(cfgs)
            rng.shuffle(order)
            todo = []
            for kind, dk, t in order:
                default = None if dk == "none" else ([] if dk == "empty" else [f for f in DEFFILES if rng.random() < 0.7])
                table = [(p, [f for f in PARTFILES if rng.random() < 0.6]) for p in t]
                todo.append((kind, default, table, None, rng.randint(3, 15)))
        for kind, default, table, ops, length in todo:
            if rounds > 0 and time.time() - t0 > budget:
                break
            r = run_case(kind, default, table, ops=ops, rng=rng, length=length)
            done += 1
            ctx.case(cfg_key(kind, default, table) + "|" + Y.enc_ops(r["ops"]) if r["nontrivial"] else None)
            ctx.count("part class", kind)
            ctx.count("default store", "none" if default is None else ("empty" if not default else "populated"))
            ctx.count("mounts", str(len(table)))
            ctx.count("history length", str(len(r["ops"])))
            for op in r["ops"]:
                o = "at mount point" if any(op[1] == p for p, _ in table) else ("inside a mount" if any(op[1].startswith(p + "/") for p, _ in table) else "outside")
                ctx.count("operation target", o)
                ctx.count("operations", {"s": "store", "m": "store_metadata", "r": "remove", "k": "makedir", "d": "removedir"}[op[0]] + (" recursive" if op[0] == "d" and op[2] else ""))
            if len(ctx.samples) < 4 and r["nontrivial"]:
                ctx.sample(dict(configuration=cfg_text(kind, default, table), history=Y.show_hist(r["ops"])))
            for i, st in enumerate(r["states"]):
                cases.append("%s after %s" % (cfg_text(kind, default, table), Y.show_hist(r["ops"][:i])))
                impl.append(st)
            lines.append((model_line(kind, r["inits"], table, r["ops"]), len(r["states"])))
            roots += r["roots"]
            for cls in sorted({c for c, _, _ in r["findings"]}):
                n = classes.get(cls, 0)
                classes[cls] = n + 1
                if n < 2:
                    report(ctx, kind, default, table, r["ops"], cls, seen)
        rounds += 1
        if time.time() - t0 > budget or (rounds > (400 if thorough else 10)):
            break
    ctx.count("histories", "total", done)
    if classes:
        ctx.notes.append("oracle finding classes (class -> histories): %r" % dict(sorted(classes.items())[:40]))
    ans = ctx.driver.ask([l for l, _ in lines])
    model = None
    if ans is not None:
        model = []
        for (l, n), a in zip(lines, ans):
            parts = a.split(";")
            model += parts if len(parts) == n else ["BAD-ANSWER " + a[:80]] * n
    ctx.compare("composite state after every operation", cases, impl, model)
    roots = sorted(set(roots))
    ctx.compare("to_root_key", ["%s: %s" % (p, k) for p, k, _ in roots], [Y.kx(rk) for _, _, rk in roots],
                ctx.driver.ask(["mt.root %s %s" % (Y.kx(p), Y.kx(k)) for p, k, _ in roots]))


def search(ctx, broken, disagreements):
    import time
    t0, seen, tabs = time.time(), set(), tables()
    while time.time() - t0 < (300 if ctx.tier == "thorough" else 40) and not ctx.violations:
        kind, t = ctx.rng.choice("MF"), ctx.rng.choice(tabs)
        default = ctx.rng.choice([None, [], [f for f in DEFFILES if ctx.rng.random() < 0.7]])
        table = [(p, [f for f in PARTFILES if ctx.rng.random() < 0.6]) for p in t]
        r = run_case(kind, default, table, rng=ctx.rng, length=15)
        ctx.case(None)
        for cls in sorted({c for c, _, _ in r["findings"]}):
            report(ctx, kind, default, table, r["ops"], cls, seen)
    ctx.notes.append("search: extra random histories of length 15 over random tables")


def replay(ctx, case):
    if case.get("kind") == "recipes_key":
        class C:
            notes, v = [], []
            def violation(self, k, w, c):
                self.v.append(w)
        c = C()
        probe_recipes_key(c)
        return c.v[0] if c.v else None
    ops = [Y.op_unjson(o) for o in case["ops"]]
    table = [(p, f) for p, f in case["table"]]
    r = run_case(case["part"], case["default"], table, ops=ops)
    if not r["wf"]:
        return "replayed history is not well-formed on the union view"
    bad = [t for c, t, _ in r["findings"] if c == case["cls"]] or [t for _, t, _ in r["findings"]]
    if bad:
        return "%s; %s; then %s" % (cfg_text(case["part"], case["default"], table), Y.show_hist(ops), bad[-1])
    return None
