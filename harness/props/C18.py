"""C18 — metadata truthfully describes every result.

Cases: queries over the evaluator vocabulary (generator of C01, failing steps of C06, file names of EVERY extension in
`liquer.constants.MIMETYPES` in lower/upper case, multi-dot and dot-only spellings, attribute chains, absolute / relative links,
sub-evaluations from inside commands, namespaces), each evaluated
  (a) with NoCache,
  (b) with every cache configuration of evalprops.cache_configs, cold and warm (second evaluation),
  (c) with `store_key=` into a MemoryStore and a FileStore (cold and from a warm cache).
Observables: the projected metadata of the RETURNED state, of `cache.get_metadata(canonical key)` and of `store.get_metadata(key)`.

Correspondence: rendered outcome + projected metadata of the returned state vs the Lean model (`eval.meta`, LiquerModel/EvalMeta.lean);
the model's outcome column vs the reference interpretation (`eval.ref`).
Oracle (implementation only, independent of the Lean model): expectations from harness/oracle_ref.py and the live registry /
`type_identifier_of` / `data_characteristics` / `MIMETYPES` (see `expect` and `judge`).
"""
import os, shutil
import common
from common import hx
import vocab, evalharness as H, evalprops as EP, oracle_ref
import gen_evalmeta

RULE = ("queries over the vocabulary: C01 generator (links, sub-evaluations, namespaces, headers, non-canonical spellings), one injected failure of every "
        "C06 kind, attribute chains (attr1 Keep/low, attr2 Other/low, alt namespace), a trailing / inner file name of every extension of MIMETYPES "
        "(lower, upper, multi-dot, dot-only, unknown); each under NoCache, 16 cache configurations cold+warm, MemoryStore/FileStore store_key cold+warm; "
        "non-trivial = distinct (mode, query) whose evaluation executed at least one command")
TRUSTED = EP.TRUSTED + ["modelled for C18 (LiquerModel/EvalMeta.lean): MetadataContextMixin.metadata, the metadata assembly of evaluate_action, "
                        "State.with_filename/next_state/mimetype, log_subquery, the argument_queries of evaluate_parameter",
                        "translated for C18 (Gen/EvalMeta.lean): type_identifier_of / first word of data_characteristics(...)['description'] per value kind "
                        "(probed), Status.READY/ERROR, default media type; MIMETYPES (Gen/StateTypes.lean)",
                        "the command version hash is opaque to the model (`ver=0|1`); the harness compares it with command_registry().metadata[ns][name].version"]
ASSUMPTIONS = EP.ASSUMPTIONS + ["queries with a resource segment are outside the C01 vocabulary (C08/C17) and skipped",
                                "data_characteristics is compared in full on the implementation side; the model sees the first word of its description",
                                "a store_key evaluation whose value cannot be encoded for the query's extension is a failed save: the kept copy must be marked as error, "
                                "the returned metadata may be either",
                                "a volatile or cache-disabled result is not kept by the cache: no record, or a record with status `expired`, which is not compared"]
EXPLANATION = ("theorems in Props/C18.lean about metaOf for every query and fuel (status/flag agreement, type and kind of the value, last command, "
               "parent query, attribute persistence along any chain of predecessors, file name changes only filename/extension/mimetype, outcome = reference "
               "interpretation); kept copies (cache, store) are covered by the oracle on the implementation")

OCTET = "application/octet-stream"


# ------------------------------------------------------------------ projection (same text as Handlers/EvalMeta.lean: renderMeta)
def opt(x):
    return "~" if x is None else hx(x)


def render_meta(m):
    cmds = m.get("commands") or []
    ext = m.get("extended_commands") or []
    last = ext[-1] if ext else None
    attrs = dict(m.get("attributes") or {})
    attrs.pop("volatile", None)
    dc = m.get("data_characteristics") or {}
    return "M query=%s status=%s err=%s tid=%s dk=%s cmd=%s name=%s ns=%s ver=%s parent=%s argq=%s subq=%s fn=%s ext=%s mime=%s attrs=%s" % (
        hx(m.get("query") or ""), opt(m.get("status")), "1" if m.get("is_error") else "0", hx(m.get("type_identifier") or ""),
        hx(gen_evalmeta.kind_of_description(dc.get("description"))),
        ",".join(hx(x) for x in (cmds[-1] if cmds else [])),
        opt(last.get("command_name") if last else None), opt(last.get("ns") if last else None),
        "1" if last and (last.get("command_metadata") or {}).get("version") else "0",
        opt(m.get("parent_query")),
        ",".join(hx(x.get("query")) for x in m.get("argument_queries") or []),
        ",".join(hx(x.get("query")) for x in m.get("direct_subqueries") or []),
        opt(m.get("filename")), opt(m.get("extension")), opt(m.get("mimetype")),
        ";".join(sorted("%s=%s" % (hx(k), hx(str(v))) for k, v in attrs.items())))


def errors_of(m, field):
    return [str(x.get("message")) for x in (m.get(field) or []) if isinstance(x, dict) and x.get("kind") == "error" and x.get("message")]


def project(m):
    """what the oracle looks at in a metadata dictionary (returned, cached or stored)"""
    if m is None:
        return None
    ext = m.get("extended_commands") or []
    last = ext[-1] if ext else {}
    return dict(line=render_meta(m), query=m.get("query"), status=m.get("status"), is_error=m.get("is_error"),
                tid=m.get("type_identifier"), dc=m.get("data_characteristics"),
                commands=m.get("commands"), name=last.get("command_name"), ns=last.get("ns"), version=(last.get("command_metadata") or {}).get("version"),
                qcommand=last.get("qcommand"), n_ext=len(ext),
                parent=m.get("parent_query"), argq=[x.get("query") for x in m.get("argument_queries") or []],
                subq=[x.get("query") for x in m.get("direct_subqueries") or []],
                filename=m.get("filename"), extension=m.get("extension"), mimetype=m.get("mimetype"),
                attrs={k: v for k, v in (m.get("attributes") or {}).items() if k != "volatile"},
                errs=errors_of(m, "log"), cerrs=errors_of(m, "child_log"))


# ------------------------------------------------------------------ expectations (reference interpreter + live registry)
def expect(q, dflt):
    """dict of expectations, or None when the query is outside the quantifier (resource segment, parse error)"""
    from liquer.parser import parse, Query, TransformQuerySegment, LinkActionParameter, StringActionParameter
    from liquer.commands import command_registry
    from liquer.constants import MIMETYPES
    from pyparsing import ParseException
    try:
        pq = parse(q)
    except Exception:
        return None
    reg = command_registry()
    R = oracle_ref.Ref(reg, dflt)
    try:
        steps = R.steps(pq)
        r = R.run(pq)
    except oracle_ref.Unsupported:
        return None
    except Exception:
        return None
    finally:
        vocab.CALLS.clear()
    e = dict(canonical=pq.encode(), steps=len(steps))
    if "raised" in r:
        e["kind"] = "raised"
        return e
    # positions of the steps in the AST (own flattening, not Query.predecessor)
    pos = []
    for si, seg in enumerate(pq.segments):
        for ai in range(len(seg.query)):
            pos.append((si, ai))
        if seg.filename is not None:
            pos.append((si, None))
    if any(len(seg.query) == 0 and seg.filename is None for seg in pq.segments):
        return None          # header-only segment: not generated, predecessor of such a segment is a corner of C02

    def prefix_text(k):
        """canonical text of the query made of the first k steps"""
        if k == 0:
            return ""
        si, ai = pos[k - 1]
        seg = pq.segments[si]
        cut = TransformQuerySegment(header=seg.header, query=list(seg.query) if ai is None else list(seg.query[:ai + 1]), filename=seg.filename if ai is None else None)
        return Query(list(pq.segments[:si]) + [cut], absolute=pq.absolute).encode()

    failed = "error" in r
    n_exec = r["error"] + 1 if failed else len(steps)
    acts = [i for i in range(n_exec) if steps[i][0] == "act"]
    e.update(kind="error" if failed else "value", value=None if failed else r["value"], filename=r["filename"], extension=r["extension"], n_actions=len(acts),
             uncached=bool(r.get("volatile")) or not r.get("caching", True))
    if not acts:
        e["last"] = None
        e["mimetype"] = None if r["filename"] is None else MIMETYPES.get(r["extension"], OCTET)
        return e
    j = acts[-1]
    act = steps[j][1]

    def resolve(i):
        """(ns, command metadata) of the action at step i, with the namespaces active after the first i steps"""
        vars_ = dflt if i == 0 else R.run_steps(steps[:i], None, None, None).get("vars", {})
        vocab.CALLS.clear()
        for ns in vars_.get("active_namespaces", ["root"]):
            if ns in reg.executables and steps[i][1].name in reg.executables[ns]:
                return ns, reg.metadata[ns][steps[i][1].name]
        return None, None

    try:
        resolved = [(i,) + resolve(i) for i in acts]
    except TypeError:
        return None          # a namespace variable holding a non-string (a list from a link argument): outside the vocabulary's use of `ns`
    ns, md = resolved[-1][1], resolved[-1][2]
    e.update(last=[act.name] + [p.string if isinstance(p, StringActionParameter) else "~X~" + p.link.encode() + "~E" for p in act.parameters],
             name=act.name, ns=ns, version=None if md is None else md.version, parent=prefix_text(j),
             mimetype=OCTET if r["filename"] is None else MIMETYPES.get(r["extension"], OCTET))
    links = [p.link for p in act.parameters if isinstance(p, LinkActionParameter)]
    if md is None:
        e.update(argq=[], subq=[], subq_exact=True)
    else:
        e["argq"] = [l.encode() for l in links]
        parent = e["parent"]
        subq = [l.encode() if (l.absolute or parent in ("", "/")) else parent + "/" + l.encode() for l in links]
        exact = True
        if act.name == "sub" and ns == "root":
            if len(act.parameters) == 1 and isinstance(act.parameters[0], StringActionParameter):
                qs = act.parameters[0].string
                try:
                    R.run_steps(R.steps(parse(qs)), None, None, None)
                    subq.append(qs)              # logged when context.evaluate(q) returned (a value or an error state)
                except (ParseException, oracle_ref.RefRaise):
                    pass
                except Exception:
                    exact = False
                finally:
                    vocab.CALLS.clear()
            elif len(act.parameters) >= 1:
                exact = len(act.parameters) > 1  # a link as the query text: only the link part is predicted; too many arguments: never called
        e.update(subq=subq, subq_exact=exact)
    # attributes: capitalised ones of every executed command persist (the latest definition wins); the others are the last command's
    cap = {}
    for i, n_, m_ in resolved:
        if m_ is not None:
            for k, v in m_.attributes.items():
                if k[:1].isupper():
                    cap[k] = str(v)
    e["cap_attrs"] = cap
    e["low_attrs"] = {} if md is None else {k: str(v) for k, v in md.attributes.items() if not k[:1].isupper() and k != "volatile"}
    return e


def encodable(value, extension):
    from liquer.state_types import encode_state_data
    try:
        if extension is None:
            encode_state_data(value)
        else:
            encode_state_data(value, extension=extension)
        return True
    except Exception:
        return False
    finally:
        vocab.CALLS.clear()


# ------------------------------------------------------------------ the oracle
def judge(q, tag, e, ev, kept, kept_kind, save_ok=True):
    """violations [(key, text)] of one evaluation. e = expectations, ev = observation of the returned state, kept = projection of
    the copy kept by the cache / store (None: no copy), tag = mode label used in keys"""
    from liquer.state_types import type_identifier_of, data_characteristics
    bad = []

    def v(check, text):
        bad.append(("%s:%s:%s" % (check, tag, q), "evaluate(%r) [%s]: %s" % (q, tag, text)))
    if e is None or ev["kind"] in ("parse-error", "exception"):
        return bad
    if e["kind"] == "raised":
        if ev["kind"] != "raised":
            v("outcome", "returned a state, the reference interpretation raises (failing link argument)")
        elif kept is not None:
            marks(v, kept, kept_kind, None)
        return bad
    if ev["kind"] == "raised":
        v("outcome", "raised, the reference interpretation gives %s" % e["kind"])
        return bad
    p = ev["meta"]
    # -- query text, status / flag / get()
    if p["query"] != e["canonical"]:
        v("query", "metadata query %r, canonical text %r" % (p["query"], e["canonical"]))
    if e["last"] is None:
        # no command at all (file name only): State() defaults, never through evaluate_action
        if p["status"] not in ("ready", "error") and save_ok:
            bad.append(("no-action-status", "evaluate(%r) [%s]: a query without any action returns metadata with status %r" % (q, tag, p["status"])))
        if p["filename"] != e["filename"] or (e["filename"] and p["mimetype"] != e["mimetype"]):
            v("filename", "file name %r media type %r, expected %r %r" % (p["filename"], p["mimetype"], e["filename"], e["mimetype"]))
        return bad
    failed = e["kind"] == "error"
    unsaved = not failed and not save_ok
    if not unsaved:
        if p["status"] != ("error" if failed else "ready"):
            v("status", "final status %r, the reference interpretation %s" % (p["status"], "fails" if failed else "succeeds"))
        if bool(p["is_error"]) != failed:
            v("error-flag", "is_error=%r, the reference interpretation %s" % (p["is_error"], "fails" if failed else "succeeds"))
    if (p["status"] == "ready") != (not p["is_error"]) or bool(p["is_error"]) != bool(ev["get_raises"]) or p["status"] not in ("ready", "error"):
        v("status-agreement", "status %r, is_error %r, get() %s" % (p["status"], p["is_error"], "raises" if ev["get_raises"] else "returns a value"))
    # -- the value
    if not failed and not ev["get_raises"]:
        if ev["value"] != vocab.canon(e["value"]):
            v("value", "value %s, reference interpretation %s" % (ev["value"], vocab.canon(e["value"])))
    if not unsaved:
        actual = None if failed else e["value"]
        if p["tid"] != type_identifier_of(actual):
            v("type-identifier", "type_identifier %r, type_identifier_of(value) = %r" % (p["tid"], type_identifier_of(actual)))
        if p["dc"] != data_characteristics(actual):
            v("data-characteristics", "data_characteristics %r, of the value: %r" % (p["dc"], data_characteristics(actual)))
    # -- last command
    if (p["commands"] or [None])[-1] != e["last"] or p["qcommand"] != e["last"]:
        v("last-command", "commands[-1] = %r, extended qcommand %r; last executed action %r" % ((p["commands"] or [None])[-1], p["qcommand"], e["last"]))
    if p["name"] != e["name"] or p["ns"] != e["ns"]:
        v("last-namespace", "extended_commands[-1] names %r in namespace %r; executed: %r in %r" % (p["name"], p["ns"], e["name"], e["ns"]))
    if p["version"] != e["version"]:
        v("version", "command version %r, registry version of %s.%s is %r" % (p["version"], e["ns"], e["name"], e["version"]))
    if p["parent"] != e["parent"]:
        v("parent-query", "parent_query %r, canonical predecessor of the last executed action %r" % (p["parent"], e["parent"]))
    if p["argq"] != e["argq"]:
        v("argument-queries", "argument_queries %r, link arguments of the last action %r" % (p["argq"], e["argq"]))
    if (p["subq"] != e["subq"]) if e["subq_exact"] else (p["subq"][:len(e["subq"])] != e["subq"]):
        v("direct-subqueries", "direct_subqueries %r, evaluated from the last action's context: %r" % (p["subq"], e["subq"]))
    # -- file name
    if p["filename"] != e["filename"] or (e["filename"] is not None and p["extension"] != e["extension"]):
        v("filename", "filename/extension %r/%r, expected %r/%r" % (p["filename"], p["extension"], e["filename"], e["extension"]))
    if p["mimetype"] != e["mimetype"]:
        v("mimetype", "mimetype %r, implied by the file name %r: %r" % (p["mimetype"], e["filename"], e["mimetype"]))
    # -- attributes
    if not failed:
        for k, val in e["cap_attrs"].items():
            if str(p["attrs"].get(k)) != val:
                v("attribute-persistence", "capitalised attribute %s=%r of an executed command is %r at the end" % (k, val, p["attrs"].get(k)))
    low = {k: str(x) for k, x in p["attrs"].items() if not k[:1].isupper()}
    if low != e["low_attrs"]:
        v("attribute-last", "non-capitalised attributes %r, the last command's are %r" % (low, e["low_attrs"]))
    # -- kept copy
    if failed or unsaved:
        if failed:
            marks(v, p, "returned metadata", None)
        if kept is not None:
            marks(v, kept, kept_kind, p if failed else None)
    elif kept is not None and not (kept["status"] == "expired" and e["uncached"] and kept_kind.startswith("cached")):
        # (a volatile / cache-disabled result is not kept by the CACHE: there is no record, or one that says `expired`; a result saved
        # under a store key is kept whatever its cacheability)
        if kept["line"] != p["line"] or kept["dc"] != p["dc"] or kept["version"] != p["version"]:
            diff = {k: (kept[k], p[k]) for k in p if k not in ("line", "errs", "cerrs") and kept[k] != p[k]}
            v("kept-disagrees-" + kept_kind.split(" ")[0], "the %s differs from the returned metadata: %r" % (kept_kind, diff))
    return bad


def marks(v, m, what, returned):
    """failed evaluation: marked as error in status and flag, message in log or child_log"""
    name = what.split(" ")[0]
    if m["status"] != "error":
        v("failed-status-" + name, "failed evaluation, but the %s has status %r" % (what, m["status"]))
    if not m["is_error"]:
        v("failed-flag-" + name, "failed evaluation, but the %s has is_error=%r" % (what, m["is_error"]))
    msgs = m["errs"] + m["cerrs"]
    if not msgs:
        v("failed-message-" + name, "failed evaluation, but neither log nor child_log of the %s carries an error message" % what)
    elif returned is not None and returned["errs"] and not (set(msgs) & set(returned["errs"] + returned["cerrs"])):
        v("failed-message-" + name, "the %s carries %r, the returned metadata %r" % (what, msgs[:2], returned["errs"][:2]))


# ------------------------------------------------------------------ running the implementation
def evaluate_once(q, store=None, store_key=None):
    from liquer.context import get_context
    holder = {}

    def f():
        st = get_context().evaluate(q, store_key=store_key, store_to=store) if store_key else get_context().evaluate(q)
        holder["st"] = st
        return st
    o = H.observe(f)
    ev = dict(kind=o["kind"], get_raises=o.get("get_raises"), value=o.get("value"))
    if o["kind"] == "state":
        st = holder["st"]
        ev["meta"] = project(st.metadata)
        ev["line"] = H.render_state(st) + " # " + ev["meta"]["line"]
    elif o["kind"] == "raised":
        ev["line"] = "RAISED pos=%s q=%s # ~" % ("~" if o["pos"] is None else o["pos"], H.opt_hex(o["query"]))
    elif o["kind"] == "parse-error":
        ev["line"] = "PARSEERR # ~"
    else:
        ev["line"] = "EXC " + o["exc"]
    return ev


def run_task(task):
    """never raises: a harness exception becomes a finding that names the task"""
    try:
        return run_task_(task)
    except Exception:
        import traceback
        return dict(lines=[], bad=[("harness:%s" % (task[2],), "harness exception for task %r: %s" % (task, traceback.format_exc()[-700:]))], outcome="harness-error", actions=0, tags=[])


def run_task_(task):
    """worker: (mode, cfg, query, defaults) -> dict(lines=[...], bad=[(key, text)], kinds=[...])
    mode 'nocache' | 'cache' (cfg = index in cache_configs) | 'store' (cfg = 'mem' | 'file')"""
    mode, cfg, q, dflt = task
    tmp = EP.scratch()
    res = dict(lines=[], bad=[], outcome=None, actions=0, tags=[])
    try:
        from liquer.cache import NoCache, MemoryCache
        from liquer.store import MemoryStore, FileStore
        if mode == "nocache":
            cache, name = NoCache(), "NoCache"
        elif mode in ("cache", "seq"):
            name, factory, _ = EP.cache_configs(tmp)[cfg]
            cache = factory()
        else:
            # store_key evaluations: with a MemoryCache, and ("-nc") with the default NoCache (where un-caching a volatile result fails)
            cache, name = (NoCache() if cfg.endswith("-nc") else MemoryCache()), "store-" + cfg
        EP.set_global(cache, dflt)
        e = expect(q, dflt)
        if e is None:
            res["outcome"] = "skipped"
            return res
        res["outcome"], res["actions"] = e["kind"], e.get("n_actions", 0)
        key = e["canonical"]
        rounds = ["only"] if mode == "nocache" else ["cold", "after-extensions"] if mode == "seq" else ["cold", "warm"]
        first = None
        for rnd in rounds:
            EP.set_global(cache, dflt)
            if rnd == "after-extensions":
                # evaluate extensions of the (now cached) query in between: they must not change what the query itself returns / keeps
                for tail in ("/x_seq.txt", "/ident", "/attr2/y.JSON"):
                    try:
                        evaluate_once(q + tail)
                    except Exception:
                        pass
                EP.set_global(cache, dflt)
            tag = name if mode == "nocache" else "%s:%s" % (name, rnd)
            if mode == "store":
                ext = e.get("extension") if e["kind"] == "value" else None
                store = MemoryStore() if cfg.startswith("mem") else FileStore(os.path.join(tmp, "st-" + rnd))
                # the value is serialised in the format of the key's extension (as for recipes, C08): no extension in the query -> none in the key
                skey = "res/x." + ext if ext else "res/x"
                ev = evaluate_once(q, store, skey)
                try:
                    kept = project(store.get_metadata(skey))
                except Exception:
                    kept = None
                save_ok = e["kind"] != "value" or encodable(e["value"], ext)
                res["bad"] += judge(q, tag, e, ev, kept, "stored copy (store.get_metadata)", save_ok)
                if not save_ok:
                    ev["line"] = "UNSAVED"
            else:
                ev = evaluate_once(q)
                try:
                    kept = project(cache.get_metadata(key))
                except Exception as x:
                    kept = None
                    res["bad"].append(("get-metadata-raises:%s:%s" % (tag, q), "cache.get_metadata(%r) raised %s after evaluate(%r) [%s]" % (key, type(x).__name__, q, tag)))
                res["bad"] += judge(q, tag, e, ev, kept, "cached copy (cache.get_metadata)")
            res["lines"].append(ev["line"])
            res["tags"].append(tag)
            if first is None:
                first = ev
            elif ev["kind"] == "state" and first["kind"] == "state" and ev["line"] != first["line"] and ev["line"] != "UNSAVED" and first["line"] != "UNSAVED":
                res["bad"].append(("warm-differs:%s:%s" % (name, q), "evaluate(%r) [%s]: the second evaluation returns other metadata than the first: %r vs %r" % (
                    q, name, ev["line"], first["line"])))
        return res
    finally:
        shutil.rmtree(tmp, ignore_errors=True)


# ------------------------------------------------------------------ generators
BASES = ["one", "num-5", "hello-a", "vals-a-b", "one/add-2", "hello-x/cat-y", "one/attr1", "vals-1/app-z", "one/bo-t", "one/ns-alt/only", "one/let-a-1/getvar-a",
         "hello-w/cat-~X~cat-b~E", "one/add-~X~/num-3~E", "one/sub-num~_4~Iadd-1"]
TAILS = ["ident", "cat-z", "attr2", "add-1", "vol", "nocache", "boom", "let-x-y"]


def filenames(ext, rng):
    up = ext.upper()
    return ["x." + ext, "X." + up, "a.b." + ext, "." + ext, "x.tar." + up, "data_1." + ext[:1].upper() + ext[1:], "x_y." + ext]


def gen_filename_queries(rng, per_ext):
    from liquer.constants import MIMETYPES
    out = []
    for ext in list(MIMETYPES) + ["zzz", "", "tar.gz", "JSON.bak"]:
        names = filenames(ext, rng) if ext else ["x.", ".", "a.b."]
        for name in (names if per_ext is None else rng.sample(names, min(per_ext, len(names)))):
            base = rng.choice(BASES)
            r = rng.random()
            if r < 0.6:
                q = base + "/" + name
            elif r < 0.85:
                q = base + "/" + name + "/" + rng.choice(TAILS)          # an inner file name is inherited by what follows
            else:
                q = base + "/" + name + "/" + rng.choice(TAILS) + "/" + rng.choice(filenames(rng.choice(["txt", "json", "png"]), rng))
            out.append(("filename", q))
    return out


def gen_attr_chains(rng, n):
    pool = ["attr1", "attr2", "ident", "add-1", "cat-a", "attr1", "attr2", "ns-alt", "only", "add-2", "vol", "let-a-b", "ns-root", "bo-f", "x.txt", "boom"]
    out = []
    for _ in range(n):
        k = rng.randint(2, 8)
        acts = [rng.choice(["one", "hello-a", "num-3"])] + [rng.choice(pool if rng.random() < 0.9 else ["zzz", "add-x"]) for _ in range(k)]
        out.append(("attributes", "/".join(acts)))
    return out


def gen_links_subs(rng, n):
    out = []
    for _ in range(n):
        r = rng.random()
        pre = rng.choice(["one", "num-2/add-3", "hello-a", "one/attr1", "one/x.txt", "one/ns-alt"])
        inner = rng.choice(["add-5", "cat-b", "ident", "add-~X~/one~E", "boom", "zzz", "attr1", "add-1/ident"])
        if r < 0.3:
            q = pre + "/" + rng.choice(["cat", "argsc", "vals", "add"]) + "-~X~" + inner + "~E"
        elif r < 0.55:
            q = pre + "/" + rng.choice(["cat", "argsc-q", "add"]) + "-~X~/" + rng.choice(["one", "hello-b", "num-4/add-1", "one/boom", "one/attr1/x.json"]) + "~E" + rng.choice(["", "-~X~cat-c~E"])
        elif r < 0.85:
            q = pre + "/sub-" + H.enc(rng.choice(["one", "one/add-4", "hello-z/cat-y", "one/boom", "zzz", "one/(", "one/sub-" + H.enc("num-9"), "one/attr1/x.md", "one/add-~X~/one~E"]))
        else:
            q = pre + "/sub-~X~/hello-" + H.enc(rng.choice(["one", "one/add-1", "boom"])) + "~E"      # the sub-query text is itself the value of a link
        if rng.random() < 0.3:
            q += "/" + rng.choice(TAILS + ["out.html", "r.JSON"])
        out.append(("links-subs", q))
    return out


def gen_failing(ctx, n):
    import props.C06 as C06
    return [("failing-" + kind, q) for kind, npre, nsuf, q, cfg in C06.gen(ctx, n)]


NO_ACTION = ["x.txt", "a.B.JSON", ".", "-/x.csv"]


DICT_QUERIES = ["dct-a/setk-b", "dct-a/setk-b/setk-c", "dct/ident/setk-z", "dct-a/setk-b/x.json", "dct-a/setk-b/attr1/setk-c", "dct-k/setk-k"]


def gen_cases(ctx, quick):
    rng = ctx.rng
    ncfg = len(EP.cache_configs("/nonexistent"))
    general = [("general", H.g_query(rng, 2, special=0.2)) for _ in range(500 if quick else 9000)]
    fn_all = gen_filename_queries(rng, None)
    attrs = gen_attr_chains(rng, 150 if quick else 3000)
    links = gen_links_subs(rng, 150 if quick else 3000)
    failing = gen_failing(ctx, 150 if quick else 3000)
    pool = general + fn_all + attrs + links + failing + [("no-action", q) for q in NO_ACTION] + [("dict", q) for q in DICT_QUERIES]
    tasks = [("nocache", None, q, {}, fam) for fam, q in pool]
    # every cache configuration: a slice of every family
    per = 36 if quick else 480
    for ci in range(ncfg):
        fam_pick = (rng.sample(general, per // 4) + rng.sample(fn_all, per // 4) + rng.sample(attrs, per // 6) + rng.sample(links, per // 6) +
                    rng.sample(failing, per // 6))
        tasks += [("cache", ci, q, {} if rng.random() < 0.8 else {"a": "dflt"}, fam) for fam, q in fam_pick]
    # every extension once per cache kind over the run: rotate the file-name queries over the configurations
    for i, (fam, q) in enumerate(fn_all if not quick else fn_all[::3]):
        tasks.append(("cache", i % ncfg, q, {}, fam))
    # in-place mutated dictionaries (implementation-side oracle only) and re-evaluation after an extension was evaluated
    for ci in range(ncfg):
        tasks += [("cache", ci, q, {}, "dict") for q in DICT_QUERIES[:3]]
        tasks += [("seq", ci, q, {}, fam) for fam, q in rng.sample(general + attrs, 4 if quick else 40) + [("general", "hello-x/cat-y"), ("attributes", "one/attr1")]]
    for skind in ("mem", "file", "mem-nc", "file-nc"):
        n = (110 if quick else 1500) // (2 if skind.endswith("-nc") else 1)
        pick = rng.sample(fn_all, min(len(fn_all), n // 2)) + rng.sample(general, n // 6) + rng.sample(links, n // 6) + rng.sample(failing, n // 6) + [("no-action", "x.txt")]
        tasks += [("store", skind, q, {}, fam) for fam, q in pick]
    return tasks


# ------------------------------------------------------------------ check
def dflt_wire(d):
    return ";".join("%s=%s" % (hx(k), vocab.canon(v)) for k, v in d.items()) or "-"


def account(ctx, tasks, results):
    seen = set()
    for (mode, cfg, q, dflt, fam), res in zip(tasks, results):
        nontrivial = res["actions"] > 0
        ctx.case(("%s|%s|%s" % (mode, cfg, q)) if nontrivial else None)
        ctx.count("mode", mode if mode not in ("cache", "seq") else mode + ":" + EP.cache_configs("/nonexistent")[cfg][0])
        ctx.count("family", fam.split("-")[0] if fam.startswith("failing") else fam)
        ctx.count("reference outcome", res["outcome"])
        for key, text in res["bad"]:
            if key not in seen:
                seen.add(key)
                ctx.violation(key, text, dict(kind="meta", mode=mode, cfg=cfg, query=q, defaults=dflt, key=key))
        if fam in ("filename", "links-subs", "attributes") and len(ctx.samples) < 9 and res["lines"] and res["lines"][0].startswith("ST") and mode != "nocache":
            ctx.sample(dict(mode=mode, config=cfg, query=q, returned=decode_line(res["lines"][-1])))


def decode_line(line):
    """human-readable form of a rendered metadata line (samples in the evidence file)"""
    try:
        meta = line.split(" # ")[1]
        d = {}
        for kv in meta.split(" ")[1:]:
            k, _, v = kv.partition("=")
            if k in ("cmd", "argq", "subq"):
                d[k] = [common.unhxs(x) for x in v.split(",") if x]
            elif k == "attrs":
                d[k] = {common.unhxs(a.split("=")[0]): common.unhxs(a.split("=")[1]) for a in v.split(";") if a}
            elif k in ("err", "ver"):
                d[k] = v
            else:
                d[k] = None if v == "~" else common.unhxs(v)
        return d
    except Exception:
        return line


def correspond(ctx, tasks, results):
    """returned metadata vs the Lean model, per mode; model outcome vs reference interpretation"""
    reqs, impl, cases, streams = [], [], [], []
    for (mode, cfg, q, dflt, fam), res in zip(tasks, results):
        if fam == "dict":
            continue            # dictionaries are outside the model's value domain: implementation-side oracle only
        for line, tag in zip(res["lines"], res["tags"]):
            if line == "UNSAVED" or line.startswith("EXC "):
                continue
            reqs.append("eval.meta %s %s" % (dflt_wire(dflt), "E:" + hx(q)))
            impl.append(line)
            cases.append("%s %s" % (tag, q))
            streams.append({"nocache": "returned metadata vs eval.meta (NoCache)", "cache": "returned metadata vs eval.meta (cache configurations, cold and warm)", "seq": "returned metadata vs eval.meta (re-evaluation after extensions were evaluated)",
                            "store": "returned metadata vs eval.meta (store_key, cold and warm)"}[mode])
    uniq = sorted(set(reqs))
    ans = ctx.driver.ask(uniq)
    table = None if ans is None else dict(zip(uniq, ans))
    for s in sorted(set(streams)):
        idx = [i for i, x in enumerate(streams) if x == s]
        ctx.compare(s, [cases[i] for i in idx], [impl[i] for i in idx], None if table is None else [table[reqs[i]] for i in idx])
    if table is not None:
        refreqs = [r.replace("eval.meta ", "eval.ref ", 1) for r in uniq]
        ref = ctx.driver.ask(refreqs)
        a = [("UNMODELLED" if "UNMODELLED" in table[r] else table[r].split(" # ")[0]) for r in uniq]
        b = [("UNMODELLED" if "UNMODELLED" in x else x.split(" # ")[0]) for x in ref]
        keep = [i for i in range(len(uniq)) if a[i] != "UNMODELLED" or b[i] != "UNMODELLED"]
        ctx.compare("outcome of eval.meta vs reference interpretation eval.ref (model vs specification)", [uniq[i] for i in keep], [a[i] for i in keep],
                    [b[i] if b[i] != "UNMODELLED" else "UNMODELLED(ref)" for i in keep])


def load_corpus():
    import json
    d = os.path.join(common.VERIF, "corpus", "C18")
    out = []
    if os.path.isdir(d):
        for f in sorted(os.listdir(d)):
            if f.endswith(".json"):
                c = json.load(open(os.path.join(d, f)))
                c = c.get("case", c)
                out.append((c["mode"], c["cfg"], c["query"], c.get("defaults", {}), "corpus"))
    return out


def run(ctx):
    tasks = load_corpus() + gen_cases(ctx, ctx.tier != "thorough")
    results = common.pmap(run_task, [t[:4] for t in tasks])
    account(ctx, tasks, results)
    correspond(ctx, tasks, results)
    from liquer.constants import MIMETYPES
    exts = {x.rsplit(".", 1)[-1].lower() for m, c, q, d, fam in tasks for x in q.split("/") if fam == "filename" and "." in x}
    ctx.exhaustive.append(dict(space="extensions of liquer.constants.MIMETYPES used as trailing/inner file names", size=len(MIMETYPES), covered=len(exts & set(MIMETYPES))))
    if len(exts & set(MIMETYPES)) != len(MIMETYPES):
        ctx.notes.append("extensions never generated: %r" % sorted(set(MIMETYPES) - exts))


def search(ctx, broken, disagreements):
    rng = ctx.rng
    pool = ([("general", H.g_query(rng, 3, special=0.25)) for _ in range(3000)] + gen_filename_queries(rng, None) + gen_attr_chains(rng, 800) +
            gen_links_subs(rng, 800) + gen_failing(ctx, 800))
    tasks = [("nocache", None, q, {}, fam) for fam, q in pool] + [("cache", rng.randrange(16), q, {}, fam) for fam, q in rng.sample(pool, 1500)]
    tasks += [("store", rng.choice(["mem", "file", "mem-nc", "file-nc"]), q, {}, fam) for fam, q in rng.sample(pool, 500)]
    results = common.pmap(run_task, [t[:4] for t in tasks])
    account(ctx, tasks, results)
    if not ctx.violations:
        ctx.notes.append("enlarged search over %d further evaluations found no failing input" % len(tasks))


def replay(ctx, case):
    res = run_task((case["mode"], case["cfg"], case["query"], case.get("defaults", {})))
    want = case.get("key")
    hit = [t for k, t in res["bad"] if want is None or k == want]
    return hit[0] if hit else None
