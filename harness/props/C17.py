"""C17 — access boundaries.

(a) read-only view: operation histories (well-formed or not) through `.read_only()` over MemoryStore, FileStore,
    a mount-point store and an overlay; every mutator must raise ReadOnlyStoreException and leave a raw snapshot
    of the underlying store unchanged, every read must equal the read on the underlying store; `openbin` for
    writing is probed too.  Memory/File are compared with `readOnlyOps memOps/fileOps` run by the driver.
(b) containment: every key of <= 4 components over {a, ., .., "", __metadata__, b.txt}, with and without a leading
    '/', every store operation, on a FileStore whose root sits four levels deep in a sandbox full of sentinel
    files; reached directly, through a mount and through `-R/...` resource queries.  The part of the sandbox outside
    the root is snapshotted (paths + contents) around every operation, returned data is searched for sentinel
    content, and `path_for_key` / `metadata_path_for_key` are wrapped: a path outside the root is recorded, a path
    outside the *sandbox* is never touched (the operation is blocked).  Paths and result classes are compared with
    the model (`store.path`, `store.fileop`).
"""
import os, json, glob, shutil, itertools, multiprocessing
import common
from common import hx
import storelib as L

RULE = ("(a) seeded random set-up history (well-formed, 0-10 operations) followed by 1-12 arbitrary operations through read_only() over 4 kinds "
        "of store; (b) exhaustive: all keys of <= 4 components over {a, ., .., '', __metadata__, b.txt} with and without leading '/', 13 operations, "
        "3 routes (direct, mount, resource query); non-trivial = (a) history whose underlying store is non-empty, (b) key with a '..', '.', empty, "
        "reserved or absolute component")
TRUSTED = ["modelled: ReadOnlyStore (LiquerModel/StoreProxy.lean readOnlyOps), FileStore.check_key / path_for_key / metadata_path_for_key and every "
           "FileStore operation's use of them (LiquerModel/StoreFile.lean)",
           "pathlib's lexical join and the operating system's resolution of '..' as modelled by pathOfC/osResolve (no symbolic links)",
           "PrefixStore/MountPointStore/evaluate_resource hand the remaining key to the FileStore unchanged: checked by the wrapper that records every key reaching path_for_key, not proved",
           "translator: the mutator lists in Gen/StoreMethods.lean come from ast/inspect of the live classes"]
ASSUMPTIONS = ["no symbolic links inside the store directory", "the store root is an absolute, already resolved directory path"]
EXPLANATION = ("ro_refuses / ro_reads for any underlying store model and whole histories; generated obligation: every mutator of MemoryStore/FileStore is "
               "refused by ReadOnlyStore; keyOK -> path within root, metaKeyOK -> metadata path within root, for every root and key; not keyOK -> every "
               "FileStore operation raises KeyNotSupported; state level: after any history on a store whose root exists no path outside the root "
               "has changed (contained_state)")

OBS = [""] + L.UNIVERSE
COMPS = ["a", ".", "..", "", "__metadata__", "b.txt"]
MARK = b"OUTSIDE-SENTINEL"
OUTSIDE_NAMES = {"OUTSIDE_MARK", "sentinel.txt", "root", "p1", "p2", "p3", "p4"}
OPS = ["get_bytes", "get_metadata", "store", "store_metadata", "remove", "removedir", "removedir_r", "makedir", "contains", "is_dir", "listdir", "openbin_r", "openbin_w"]
MODEL_OPS = OPS[:11]


# =========================================================================== (a) read-only view
RO_KINDS = ["mem", "file", "mount-file", "overlay-mem"]


def ro_underlying(kind, scratch):
    import liquer.store as S
    d = None
    if kind == "mem":
        u = S.MemoryStore()
        K = lambda k: k
    elif kind == "file":
        d = os.path.join(scratch, "ro%d" % ro_underlying.n)
        os.makedirs(d)
        u = S.FileStore(d)
        K = lambda k: k
    elif kind == "mount-file":
        d = os.path.join(scratch, "ro%d" % ro_underlying.n)
        os.makedirs(d)
        u = S.MountPointStore(S.MemoryStore()).mount(L.MOUNT, S.FileStore(d))
        K = lambda k: L.MOUNT if k == "" else L.MOUNT + "/" + k
    elif kind == "overlay-mem":
        low = S.MemoryStore()
        low.store("e.txt", b"1", {L.USER_FIELD: "low"})
        u = S.OverlayStore(S.MemoryStore(), low)
        K = lambda k: k
    ro_underlying.n += 1
    return u, K, d


ro_underlying.n = 0


def any_op(rng):
    k = rng.choice(L.UNIVERSE + [""])
    t = rng.choice("SMRDDK")
    if t == "S":
        return ("S", k, rng.choice(L.DATA), rng.choice(L.USERS))
    if t == "M":
        return ("M", k, rng.choice(L.USERS), None, None)
    if t == "R":
        return ("R", k)
    if t == "D":
        return ("D", k, rng.choice([0, 1]))
    return ("K", k)


def ro_check(kind, setup, ops, scratch):
    """returns (failure | None, view-state texts per op, underlying-state texts per op)"""
    u, K, d = ro_underlying(kind, scratch)
    unK = (lambda k: k) if kind != "mount-file" else (lambda k: "" if k == L.MOUNT else k[len(L.MOUNT) + 1:] if isinstance(k, str) and k.startswith(L.MOUNT + "/") else "?" + str(k))
    try:
        for op in setup:
            L.apply_op(u, K, op)
        view = u.read_only()
        if view.read_only() is not view:
            return ("ro-idempotent", "read_only() of a read-only store is not the store itself"), [], []
        vs, us = [], []
        for i, op in enumerate(ops):
            raw0 = L.raw_snapshot(u)
            res = L.apply_op(view, K, op)
            raw1 = L.raw_snapshot(u)
            where = "set-up [%s], then through read_only(): step %d %s" % (L.show_hist(setup), i + 1, L.show(op))
            if res != "Ero":
                return ("ro-refuses", "%s: result %s instead of ReadOnlyStoreException" % (where, res)), vs, us
            if raw0 != raw1:
                return ("ro-unchanged", "%s: the underlying store changed" % where), vs, us
            vk, vo = L.observe(view, K, unK, OBS)
            uk, uo = L.observe(u, K, unK, OBS)
            vt, ut = L.state_text(vk, vo), L.state_text(uk, uo)
            if vt != ut:
                dd = L.first_difference(["", "x;" + vt], ["", "x;" + ut], OBS, [op])
                return ("ro-reads", "%s: the view reads %s, the underlying store %s" % (where, dd[0], dd[1])), vs, us
            if L.raw_snapshot(u) != raw1:
                return ("ro-unchanged", "%s: reading through the view changed the underlying store" % where), vs, us
            vs.append(res + ";" + vt)
            us.append(ut)
        # the view is LIVE: the owner changes the underlying store directly (the same operations), the view reads what the store reads
        for i, op in enumerate(ops):
            L.apply_op(u, K, op)
            vk, vo = L.observe(view, K, unK, OBS)
            uk, uo = L.observe(u, K, unK, OBS)
            vt, ut = L.state_text(vk, vo), L.state_text(uk, uo)
            if vt != ut:
                dd = L.first_difference(["", "x;" + vt], ["", "x;" + ut], OBS, [op])
                return ("ro-live", "set-up [%s], %d reads through read_only(), then DIRECTLY on the underlying store: [%s]: the view reads %s, "
                        "the underlying store %s" % (L.show_hist(setup), len(ops), L.show_hist(ops[:i + 1]), dd[0], dd[1])), vs, us
        # ... also for FINISHED items (metadata with status 'ready', what evaluate_and_save leaves): read through the view, replaced and
        # removed by the owner, read again
        if kind in ("mem", "file", "mount-file"):
            kk = K("a/ready.txt")
            try:
                u.store(kk, b"first", {L.USER_FIELD: "u1", "status": "ready"})
                view.get_metadata(kk), view.get_bytes(kk)
                u.store(kk, b"second, longer", {L.USER_FIELD: "u2", "status": "ready"})
                a, b = view.get_metadata(kk), u.get_metadata(kk)
                pick = lambda m: (m.get("fileinfo", {}).get("size"), m.get("fileinfo", {}).get("md5"), m.get(L.USER_FIELD), m.get("status"))
                if pick(a) != pick(b):
                    return ("ro-live", "set-up [%s]: the owner replaced the finished item 'a/ready.txt'; metadata through the view (size, md5, user, status) "
                            "%r, from the underlying store %r" % (L.show_hist(setup), pick(a), pick(b))), vs, us
                u.remove(kk)
                ra, rb = L.tf(lambda: view.contains(kk)), L.tf(lambda: u.contains(kk))
                try:
                    view.get_metadata(kk)
                    ma = "metadata"
                except Exception as ex:
                    ma = L.err(ex)
                try:
                    u.get_metadata(kk)
                    mb = "metadata"
                except Exception as ex:
                    mb = L.err(ex)
                if (ra, ma) != (rb, mb):
                    return ("ro-live", "set-up [%s]: the owner removed the finished item 'a/ready.txt'; through the view contains/get_metadata give %r, the "
                            "underlying store %r" % (L.show_hist(setup), (ra, ma), (rb, mb))), vs, us
            except Exception:
                pass          # the set-up left a file where the directory 'a' is needed: nothing to compare
        # mounting through the view: the composite it hands out must not open a way around the view
        import liquer.store as S
        # (MemoryStore.get_metadata refreshes derived fields of the record it keeps - key, name, is_dir - in place when it is read; the direct
        # operations of the previous phases may have left such fields stale: read everything once, so that the raw snapshot taken next is
        # one that reads alone do not alter)
        L.observe(u, K, unK, OBS)
        raw0, keys0 = L.raw_snapshot(u), sorted(u.keys())
        try:
            comp = view.mount("zz-mounted", S.MemoryStore())
        except Exception:
            comp = None
        if (L.raw_snapshot(u), sorted(u.keys())) != (raw0, keys0):
            return ("ro-mount", "set-up [%s]: read_only().mount('zz-mounted', MemoryStore()) changed the underlying store" % L.show_hist(setup)), vs, us
        if comp is not None:
            for i, op in enumerate(ops):
                res = L.apply_op(comp, K, op)
                if (L.raw_snapshot(u), sorted(u.keys())) != (raw0, keys0):
                    return ("ro-mount", "set-up [%s]: c = read_only().mount('zz-mounted', MemoryStore()); c: %s (result %s) changed the store "
                            "underneath the read-only view" % (L.show_hist(setup), L.show(op), res)), vs, us
        # openbin through the view: writing modes are refused, reading gives the same bytes
        for k in OBS[1:]:
            for mode in ("w", "wb", "a", "r+b"):
                raw0 = L.raw_snapshot(u)
                try:
                    f = view.openbin(K(k), mode)
                    try:
                        if f is not None and hasattr(f, "close"):
                            f.close()
                    except Exception:
                        pass
                    res = "ok"
                except Exception as ex:
                    res = L.err(ex)
                if L.raw_snapshot(u) != raw0:
                    return ("ro-openbin-write", "set-up [%s]: read_only().openbin(%r, %r) changed the underlying store" % (L.show_hist(setup), k, mode)), vs, us
                if res == "ok" and kind in ("file", "mount-file"):
                    return ("ro-openbin-write", "set-up [%s]: read_only().openbin(%r, %r) handed out a writable file" % (L.show_hist(setup), k, mode)), vs, us
        return None, vs, us
    finally:
        if d:
            shutil.rmtree(d, ignore_errors=True)


def ro_job(args):
    kind, cases, model = args
    common.silence()
    scratch = common.scratch_dir()
    out = dict(kind=kind, bad=[], diff=[], n=0)
    try:
        for i, (setup, ops) in enumerate(cases):
            bad, vs, us = ro_check(kind, setup, ops, scratch)
            out["n"] += 1
            if bad:
                out["bad"].append((i, bad[0], bad[1]))
            elif model is not None:
                impl = [v + ";U;" + u_ for v, u_ in zip(vs, us)]
                d = L.first_difference(["x;" + s for s in impl], ["x;" + s for s in model[i].split(" ")], ["result", "keys"] + OBS, ops)
                if impl != model[i].split(" "):
                    a = next((x for x, y in zip(impl, model[i].split(" ")) if x != y), "length")
                    b = next((y for x, y in zip(impl, model[i].split(" ")) if x != y), "length")
                    out["diff"].append((i, a[:300], b[:300]))
    finally:
        shutil.rmtree(scratch, ignore_errors=True)
    return out


def run_ro(ctx, procs):
    n = 400 if ctx.tier == "thorough" else 60
    cases = []
    for _ in range(n):
        setup = L.random_history(ctx.rng, ctx.rng.randint(0, 10))
        ops = [any_op(ctx.rng) for _ in range(ctx.rng.randint(1, 12))]
        cases.append((setup, ops))
    cases.append(([("S", "a/b", b"1", "u1")], [("S", "a/b", b"", "u2"), ("M", "a/b", "u2", None, None), ("R", "a/b"), ("D", "a", 1), ("D", "a", 0), ("K", "e")]))
    u = ",".join(hx(k) for k in OBS)
    lines = ["store.ro %%s %s %s / %s" % (u, " ".join(L.tok(o) for o in s), " ".join(L.tok(o) for o in o_)) for s, o_ in cases]
    models = dict(mem=ctx.driver.ask([l % "mem" for l in lines]), file=ctx.driver.ask([l % "file" for l in lines]))
    with multiprocessing.get_context("fork").Pool(procs) as pool:
        results = pool.map(ro_job, [(k, cases, models.get(k)) for k in RO_KINDS], chunksize=1)
    for r in results:
        kind = r["kind"]
        for s, o_ in cases:
            ctx.case("ro:%s:%s|%s" % (kind, L.show_hist(s), L.show_hist(o_)) if s else None)
        ctx.count("read-only histories", kind, r["n"])
        seen = set()
        for i, clause, text in r["bad"]:
            if clause in seen:
                continue
            seen.add(clause)
            s, o_ = cases[i]
            # smaller reproductions first: no set-up / one operation
            for s2, o2 in [([], o_[j:j + 1]) for j in range(len(o_))] + [(s, o_[j:j + 1]) for j in range(len(o_))] + [([], o_), (s, [])]:
                scratch = common.scratch_dir()
                try:
                    b2, _, _ = ro_check(kind, s2, o2, scratch)
                finally:
                    shutil.rmtree(scratch, ignore_errors=True)
                if b2 and b2[0] == clause:
                    s, o_, text = s2, o2, b2[1]
                    break
            ctx.violation(clause if clause == "ro-openbin-write" else "%s:%s" % (clause, kind), "underlying %s, %s" % (kind, text),
                          dict(kind="ro", underlying=kind, setup=[L.op_to_json(x) for x in s], ops=[L.op_to_json(x) for x in o_]))
        if kind in models:
            diff = {i: (a, b) for i, a, b in r["diff"]}
            ctx.compare("read_only(%s) vs readOnlyOps %sOps" % (kind, kind), ["%s | %s" % (L.show_hist(s), L.show_hist(o_)) for s, o_ in cases],
                        [diff[i][0] if i in diff else "same" for i in range(len(cases))],
                        None if models[kind] is None else [diff[i][1] if i in diff else "same" for i in range(len(cases))])
    ctx.sample(dict(part="a", setup=L.show_hist(cases[0][0])[:200], through_read_only=L.show_hist(cases[0][1])[:200]))


# =========================================================================== (b) containment
def all_keys():
    seen, res = set(), []
    for n in range(0, 5):
        for t in itertools.product(COMPS, repeat=n):
            k = "/".join(t)
            for kk in (k, "/" + k):
                if kk not in seen:
                    seen.add(kk)
                    res.append(kk)
    return res


def key_class(k):
    parts = [x for x in k.split("/") if x not in ("", ".")]
    if k.startswith("/"):
        return "absolute"
    if ".." in parts:
        return "dotdot"
    if not parts:
        return "root"
    if "__metadata__" in parts:
        return "reserved"
    if "." in k.split("/") or "" in k.split("/"):
        return "dot-or-empty"
    return "plain"


class Sandbox:
    """sb/p1/p2/p3/p4/root is the store; every level around it holds look-alike files with sentinel content"""

    def __init__(self, scratch):
        import liquer.store as S
        self.sb = os.path.realpath(os.path.join(scratch, "sb"))
        self.root = os.path.join(self.sb, "p1", "p2", "p3", "p4", "root")
        os.makedirs(self.root)
        d = self.sb
        for lvl in ["", "p1", "p2", "p3", "p4"]:
            d = os.path.join(d, lvl) if lvl else d
            for rel in ["OUTSIDE_MARK", "sentinel.txt", "b.txt", "a/b.txt", "a/OUTSIDE_MARK", "__metadata__/b.txt.json", "__metadata__/root.json", "a/__metadata__/b.txt.json"]:
                p = os.path.join(d, rel)
                if os.path.commonpath([p, self.root]) == self.root or p == self.root:
                    continue
                os.makedirs(os.path.dirname(p), exist_ok=True)
                if not os.path.isdir(p):
                    with open(p, "wb") as f:
                        f.write(MARK + b" " + rel.encode())
        self.log = []
        sandbox = self

        class Guarded(S.FileStore):
            """records every path the store derives from a key; never lets a path outside the sandbox be used"""

            def _guard(self, fn, key, p):
                rp = os.path.normpath(str(p))
                inside = rp == sandbox.root or rp.startswith(sandbox.root + os.sep)
                insb = rp == sandbox.sb or rp.startswith(sandbox.sb + os.sep)
                if not inside:
                    sandbox.log.append((fn, key, rp))
                if not insb:
                    raise EscapeBlocked("%s(%r) = %s" % (fn, key, rp))
                return p

            def path_for_key(self, key):
                return self._guard("path_for_key", key, super().path_for_key(key))

            def metadata_path_for_key(self, key):
                return self._guard("metadata_path_for_key", key, super().metadata_path_for_key(key))

        self.Guarded = Guarded
        self.fill()
        self.pristine_inside = L.tree_snapshot(self.root)
        self.outside = self.snapshot_outside()

    def fill(self):
        import liquer.store as S
        if os.path.lexists(self.root):
            shutil.rmtree(self.root, ignore_errors=True)
        os.makedirs(self.root, exist_ok=True)
        s = S.FileStore(self.root)
        s.store("a/b.txt", b"\x01\x02", {L.USER_FIELD: "u"})
        s.makedir("a/c")
        # time stamps in the metadata JSON would make every rebuild look different
        self.store = self.Guarded(self.root)

    def snapshot_outside(self):
        rootrel = os.path.relpath(self.root, self.sb)
        res = []
        for rel, v in L.tree_snapshot(self.sb):
            if rel == rootrel:
                res.append((rel, "root"))
            elif rel.startswith(rootrel + os.sep):
                continue
            else:
                res.append((rel, v))
        return res

    def inside_names(self):
        return [rel for rel, v in L.tree_snapshot(self.root)]

    def restore_if_needed(self):
        cur = L.tree_snapshot(self.root) if os.path.isdir(self.root) else None
        if cur is None or [(r, v if v == "d" or not r.endswith(".json") else "json") for r, v in cur] != [(r, v if v == "d" or not r.endswith(".json") else "json") for r, v in self.pristine_inside]:
            self.fill()

    def repair_outside(self):
        """after an escape the outside is rebuilt from scratch (only ever inside the sandbox directory)"""
        scratch = os.path.dirname(self.sb)
        shutil.rmtree(self.sb, ignore_errors=True)
        self.__init__(scratch)


class EscapeBlocked(Exception):
    pass


def do_op(store, key, op):
    """-> (result class, returned value)"""
    try:
        if op == "get_bytes":
            v = store.get_bytes(key)
        elif op == "get_metadata":
            v = store.get_metadata(key)
        elif op == "store":
            v = store.store(key, b"s", {L.USER_FIELD: "w"})
        elif op == "store_metadata":
            v = store.store_metadata(key, {L.USER_FIELD: "w"})
        elif op == "remove":
            v = store.remove(key)
        elif op == "removedir":
            v = store.removedir(key)
        elif op == "removedir_r":
            v = store.removedir(key, recursive=True)
        elif op == "makedir":
            v = store.makedir(key)
        elif op == "contains":
            v = store.contains(key)
        elif op == "is_dir":
            v = store.is_dir(key)
        elif op == "listdir":
            v = store.listdir(key)
        elif op == "openbin_r":
            with store.openbin(key, "r") as f:
                v = f.read()
        elif op == "openbin_w":
            with store.openbin(key, "w") as f:
                f.write(b"w")
            v = None
        else:
            raise ValueError(op)
    except EscapeBlocked as ex:
        return "blocked", None
    except Exception as ex:
        return L.err(ex), None
    return "ok", v


def leaks(v):
    """does a returned value show sentinel content / names from outside the root?"""
    if isinstance(v, bytes):
        return MARK in v
    if isinstance(v, str):
        return MARK.decode() in v
    if isinstance(v, (list, tuple, set)):
        return any((isinstance(x, str) and x in OUTSIDE_NAMES) or leaks(x) for x in v)
    if isinstance(v, dict):
        return any(leaks(x) for x in v.values())
    return False


def snapshot_diff(a, b):
    da, db = dict(a), dict(b)
    for k in sorted(set(da) | set(db)):
        if da.get(k) != db.get(k):
            return "%s: %s -> %s" % (k, "absent" if k not in da else "present", "absent" if k not in db else ("changed" if k in da else "created"))
    return "?"


def boundary_one(sbx, route, key, op):
    """runs one operation; returns (result class, failure text | None, keys that reached the FileStore)"""
    import liquer.store as S
    sbx.log.clear()
    before = sbx.outside
    if route == "direct":
        res, v = do_op(sbx.store, key, op)
    elif route == "mount":
        m = S.MountPointStore().mount("m", sbx.store)
        res, v = do_op(m, "m/" + key, op)
    else:
        res, v = query_op(sbx, key, op)
    after = sbx.snapshot_outside()
    bad = None
    esc = [e for e in sbx.log]
    if after != before:
        bad = "changed the file system outside the root (%s)" % snapshot_diff(before, after)
    elif leaks(v):
        bad = "returned content or names from outside the root (%r)" % (repr(v)[:80],)
    elif esc:
        bad = "%s(%r) = %s lies outside the root %s%s" % (esc[0][0], esc[0][1], esc[0][2], sbx.root, " (blocked by the harness: outside the sandbox)" if res == "blocked" else "")
    if after != before:
        sbx.repair_outside()
    else:
        sbx.restore_if_needed()
    return res, bad


def query_op(sbx, key, op):
    """reads through the resource part of a query; returns like do_op ('inexpressible' if the text does not denote that key)"""
    import liquer.store as S
    import liquer.parser as P
    from liquer.context import Context
    from liquer.cache import NoCache
    text = ("-R-meta/m/" if op == "get_metadata" else "-R/m/") + key
    try:
        q = P.parse(text)
        if not q.is_resource_query():
            return "inexpressible", None
    except Exception:
        return "inexpressible", None
    old = S.STORE
    try:
        S.set_store(S.MountPointStore().mount("m", sbx.store))
        try:
            st = Context().evaluate(text, cache=NoCache())
        except EscapeBlocked:
            return "blocked", None
        except Exception as ex:
            return L.err(ex), None
        if st.is_error:
            return "Eot", st.data
        return "ok", st.data
    finally:
        S.set_store(old)


def boundary_job(args):
    keys, routes = args
    common.silence()
    scratch = common.scratch_dir()
    out = dict(bad=[], results=[], paths=[], counts={})
    try:
        sbx = Sandbox(scratch)
        import liquer.store as S
        plain = S.FileStore(sbx.root)
        out["root"] = sbx.root
        for key in keys:
            # path arithmetic of the implementation
            pr = []
            for fn in (plain.path_for_key, plain.metadata_path_for_key):
                try:
                    pr.append("ok:" + hx(os.path.normpath(str(fn(key)))))
                except Exception as ex:
                    pr.append(L.err(ex))
            out["paths"].append((key, " ".join(pr)))
            for route in routes:
                ops = OPS if route != "query" else ["get_bytes", "get_metadata"]
                for op in ops:
                    res, bad = boundary_one(sbx, route, key, op)
                    c = "%s %s" % (route, res)
                    out["counts"][c] = out["counts"].get(c, 0) + 1
                    if route == "direct" and op in MODEL_OPS:
                        out["results"].append((key, op, res))
                    if bad:
                        out["bad"].append((route, key, op, bad))
    finally:
        shutil.rmtree(scratch, ignore_errors=True)
    return out


def run_boundary(ctx, procs):
    keys = all_keys()
    ctx.exhaustive.append("all %d keys of <= 4 components over %r with and without leading '/', %d operations, routes direct/mount (+ get_bytes/get_metadata through -R queries)" % (len(keys), COMPS, len(OPS)))
    n = (len(keys) + procs * 4 - 1) // (procs * 4)
    chunks = [keys[i:i + n] for i in range(0, len(keys), n)]
    with multiprocessing.get_context("fork").Pool(procs) as pool:
        results = pool.map(boundary_job, [(c, ["direct", "mount", "query"]) for c in chunks], chunksize=1)
    paths, res_cases, bad = [], [], []
    for r in results:
        paths += [(k, p, r["root"]) for k, p in r["paths"]]
        res_cases += [(k, op, res, r["root"]) for k, op, res in r["results"]]
        bad += r["bad"]
        for c, v in r["counts"].items():
            ctx.count("boundary results", c, v)
    for k in keys:
        cls = key_class(k)
        ctx.count("key classes", cls)
        for _ in range(len(OPS) * 2 + 2):
            ctx.case(("b:" + k) if cls != "plain" else None)
    # oracle (the most telling escapes first: data read or written outside, '..' keys, direct route)
    rank = lambda b: (0 if (b[3].startswith("returned") or b[3].startswith("changed")) else 1,
                      ["dotdot", "absolute", "root"].index(key_class(b[1])) if key_class(b[1]) in ("dotdot", "absolute", "root") else 3,
                      ["direct", "mount", "query"].index(b[0]), len(b[1]))
    bad.sort(key=rank)
    seen = set()
    for route, key, op, text in bad:
        vk = "escape:%s:%s:%s" % (route, op, key_class(key))
        if vk in seen:
            continue
        seen.add(vk)
        ctx.violation(vk, "FileStore(root) %s, %s(%r): %s" % ({"direct": "directly", "mount": "mounted at 'm', key 'm/'+key", "query": "through the resource query -R/m/<key>"}[route], op, key, text),
                      dict(kind="boundary", route=route, key=key, op=op))
    # correspondence: path arithmetic and result classes
    def rootfield(root):
        return hx(root)
    model = ctx.driver.ask(["store.path %s %s" % (rootfield(root), hx(k)) for k, p, root in paths])
    ctx.compare("path_for_key / metadata_path_for_key vs File.path / File.metaPath", [k for k, p, root in paths], [p for k, p, root in paths],
                None if model is None else [" ".join(m.split(" ")[:2]) for m in model], show=repr)
    if model is not None:
        for (k, p, root), m in zip(paths, model):
            f = m.split(" ")
            # the theorem's reading: keyOK -> within, on the model's own answer
            if (f[2] == "T" and f[4] != "T") or (f[3] == "T" and f[5] != "T"):
                ctx.disagree("model self-check keyOK -> within", k, "-", m)
    model = ctx.driver.ask(["store.fileop %s %s %s" % (rootfield(root), hx(k), op) for k, op, res, root in res_cases])
    norm = lambda r: "Ens" if r == "Ens" else ("ok" if r == "ok" else "E")
    ctx.compare("FileStore operation result class (ok / KeyNotSupported / other failure) vs fileOps", ["%s(%r)" % (op, k) for k, op, res, root in res_cases],
                [norm(res) for k, op, res, root in res_cases], None if model is None else [norm(m) for m in model])
    ctx.sample(dict(part="b", keys=len(keys), example_keys=keys[40:46]))


def run(ctx):
    procs = min(16, os.cpu_count() or 4)
    for p in sorted(glob.glob(os.path.join(common.VERIF, "corpus", "C17", "*.json"))):
        case = json.load(open(p))["case"]
        still = replay(ctx, case)
        ctx.case("corpus:" + os.path.basename(p))
        if still:
            k = case.get("violation_key") or "corpus:" + os.path.basename(p)
            ctx.violation(k, still, case)
    run_boundary(ctx, procs)
    run_ro(ctx, procs)


def search(ctx, broken, disagreements):
    ctx.notes.append("part (b) is exhaustive over its key space in both tiers; part (a): further read-only histories")
    old = ctx.tier
    ctx.tier = "thorough"
    try:
        run_ro(ctx, min(16, os.cpu_count() or 4))
    finally:
        ctx.tier = old


def replay(ctx, case):
    scratch = common.scratch_dir()
    try:
        if case["kind"] == "boundary":
            sbx = Sandbox(scratch)
            res, bad = boundary_one(sbx, case["route"], case["key"], case["op"])
            return None if bad is None else "%s %s(%r): %s" % (case["route"], case["op"], case["key"], bad)
        if case["kind"] == "ro":
            bad, _, _ = ro_check(case["underlying"], [L.op_from_json(o) for o in case["setup"]], [L.op_from_json(o) for o in case["ops"]], scratch)
            return None if bad is None else "underlying %s, %s" % (case["underlying"], bad[1])
        return "unknown replay kind"
    finally:
        shutil.rmtree(scratch, ignore_errors=True)
