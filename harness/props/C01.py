"""C01 — pipeline semantics: a query means left-to-right function composition.

Correspondence: liquer evaluate() (NoCache) vs the Lean evaluator model (`eval.session N`) and vs the Lean
reference interpretation (`eval.ref`, the specification): full rendered outcome + call log.
Oracle: the independent Python reference interpreter (harness/oracle_ref.py) — value, variables visible at the
end, last recorded command, file-name labelling, and the call log (each action received the previous result and
exactly the converted arguments).
"""
import evalprops as EP
import evalharness as H
import vocab, oracle_ref

RULE = ("type-directed random queries over the vocabulary (1-6 actions, every argument shape: plain, escaped/non-canonical, empty, missing, "
        "surplus, nested absolute/relative links to depth 2-3, namespaces, let/flag before readers, sub-evaluations, file names, headers), x "
        "{no input, injected input value, extra positional / keyword parameters}; non-trivial = distinct query with >= 2 actions or a link")
TRUSTED = EP.TRUSTED
ASSUMPTIONS = EP.ASSUMPTIONS
EXPLANATION = "theorems in Props/C01.lean (evaluation refines the reference interpretation); see evidence obligations"


def check_against_ref(q, op, o, defaults):
    """None or failure text; oracle = independent reference interpreter"""
    from liquer.commands import command_registry
    if "one" not in command_registry().executables.get("root", {}):
        vocab.register()
    if o["kind"] in ("parse-error", "exception"):
        return None
    try:
        r = oracle_ref.Ref(command_registry(), defaults).run(q, input_value=op[2] if op[0] == "V" else None,
                                                             extra=op[2] if op[0] in ("XL", "XD") and op[2] else None)
    except oracle_ref.Unsupported:
        return None
    except Exception as e:
        return None
    what = "evaluate(%r%s)" % (q, "" if op[0] == "E" else ", " + repr(op[2:]))
    if o["kind"] == "raised":
        return None if "raised" in r else "%s raised but the reference interpretation gives %r" % (what, {k: r.get(k) for k in ("value", "error")})
    if "raised" in r:
        return "%s returned a state but a link argument fails in the reference interpretation" % what
    if o["is_error"]:
        if "error" not in r:
            return "%s is an error but the reference interpretation gives %s" % (what, vocab.canon(r["value"]))
    else:
        if "error" in r:
            return "%s = %s but the reference interpretation fails at step %s" % (what, o["value"], r["error"])
        if vocab.canon(r["value"]) != o["value"]:
            return "%s = %s, reference interpretation: %s" % (what, o["value"], vocab.canon(r["value"]))
        rv = {k: vocab.canon(v) for k, v in r["vars"].items()}
        if rv != o["vars"]:
            return "%s: state variables at the end %r, reference: %r" % (what, o["vars"], rv)
        if r["last"] != o["last"]:
            return "%s: last recorded command %r, reference: %r" % (what, o["last"], r["last"])
        if r["filename"] != o["filename"] or (r["filename"] and r["extension"] != o["extension"]):
            return "%s: file name/extension %r/%r, reference: %r/%r" % (what, o["filename"], o["extension"], r["filename"], r["extension"])
    if r["calls"] != o["calls"]:
        return "%s: commands called %r, reference: %r" % (what, o["calls"], r["calls"])
    return None


def gen_ops(ctx, n):
    rng = ctx.rng
    ops = []
    for _ in range(n):
        q = H.g_query(rng, 3 if rng.random() < 0.3 else 2)
        r = rng.random()
        if r < 0.72:
            op = ("E", q)
        elif r < 0.84:
            op = ("V", q, rng.choice([5, "s", [1], True, 0]), True)
        elif r < 0.93:
            op = ("XL", q, [rng.choice(["x", "7", 3]) for _ in range(rng.randint(1, 2))])
        else:
            op = ("XD", q, {rng.choice(["y", "s", "b", "zz", "n"]): rng.choice(["2", 4, "t"])})
        ops.append((op, {} if rng.random() < 0.7 else {"a": "dflt", "flagged": True}))
    return ops


FRESH_QUERIES = ["let-a-1/one/fresh/getvar-a", "one/let-x-2/fresh/state_variable-x", "ns-alt/one/fresh/add-5", "flag-flagged-true/one/fresh/ident/getvar-flagged",
                 "one/fresh/let-b-3/fresh/getvar-b", "let-a-1/one/fresh/cat-~X~getvar-a~E", "hello-w/let-b-q/fresh/fresh/argsc-~X~state_variable-b~E-1",
                 "ns-alt/one/fresh/ident/only", "one/fresh", "let-a-7/vals-p/fresh/app-~X~/one/getvar-a~E"]


def run(ctx):
    from liquer.cache import NoCache
    n = 24000 if ctx.tier == "thorough" else 4000
    cases = gen_ops(ctx, n)
    lines = []
    results = EP.common.pmap(EP.run_session_task, [(None, [op], dflt) for op, dflt in cases])
    for (op, dflt), res in zip(cases, results):
        line, o = res[0][0], res[0][1]
        lines.append(line)
        q = op[1]
        ctx.case(q if (q.count("/") >= 1 or "~X~" in q) else None)
        ctx.count("operation", op[0])
        ctx.count("outcome", o["kind"] if o["kind"] != "state" else ("error-state" if o["is_error"] else "value"))
        ctx.count("actions", str(min(q.count("/") + 1, 8)))
        if "~X~" in q:
            ctx.count("features", "link")
        bad = check_against_ref(q, op, o, dflt)
        if bad:
            # known finding (consequence of C02's rtq-capture): a relative link re-parses the CANONICAL text of its parent at top level
            ctx.violation("rtq-ambiguous-text" if EP.rtq_involved([q]) else "ref:" + H.op_wire(op), bad, dict(kind="ref", op=list(op), defaults=dflt))
        if len(ctx.samples) < 6 and o["kind"] == "state" and q.count("/") >= 2:
            ctx.sample(dict(query=q, value=o.get("value"), vars=o.get("vars"), last=o.get("last"), calls=o["calls"]))
    # a command that returns its own State object (vocab.fresh, as liquer's df_from): the state variables, namespaces and flags set to its
    # left must still reach the steps to its right. Implementation-side oracle only (reference interpreter), no file names / attributes.
    fresh = [(("E", q), d) for q in FRESH_QUERIES for d in ({}, {"a": "dflt"})]
    for (op, dflt), res in zip(fresh, EP.common.pmap(EP.run_session_task, [(None, [op], dflt) for op, dflt in fresh])):
        ctx.case("fresh|" + op[1])
        ctx.count("features", "command returning its own State")
        bad = check_against_ref(op[1], op, res[0][1], dflt)
        if bad:
            ctx.violation("ref:" + H.op_wire(op), bad, dict(kind="ref", op=list(op), defaults=dflt))
    sessions = [([op], dflt) for op, dflt in cases]
    EP.model_sessions(ctx, "evaluate under NoCache vs evaluator model", sessions, ["N"] * len(sessions), lines)
    # the specification itself (reference interpretation in Lean) vs the implementation: outcome and calls, cache column dropped
    reqs = ["eval.ref %s %s" % (";".join("%s=%s" % (EP.hx(k), vocab.canon(v)) for k, v in dflt.items()) or "-", H.op_wire(op)) for op, dflt in cases]
    ans = ctx.driver.ask(reqs)
    impl2 = [" # ".join(l.split(" # ")[:2]) for l in lines]
    ctx.compare("evaluate under NoCache vs reference interpretation (Lean spec)", [H.op_wire(op) for op, _ in cases], impl2,
                None if ans is None else ["UNMODELLED" if "UNMODELLED" in a else a for a in ans])


def search(ctx, broken, disagreements):
    """more queries, deeper links, through the independent oracle only"""
    from liquer.cache import NoCache
    more = gen_ops(ctx, 6000)
    for (op, dflt), res in zip(more, EP.common.pmap(EP.run_session_task, [(None, [op], d) for op, d in more])):
        o = res[0][1]
        bad = check_against_ref(op[1], op, o, dflt)
        if bad and not EP.rtq_involved([op[1]]):
            ctx.violation("ref:" + H.op_wire(op), bad, dict(kind="ref", op=list(op), defaults=dflt))
            return
    ctx.notes.append("enlarged search over 6000 further queries found no failing input")


def replay(ctx, case):
    from liquer.cache import NoCache
    op = tuple(case["op"])
    if op[0] == "XD":
        op = (op[0], op[1], dict(op[2]))
    s = EP.ImplSession(NoCache(), case["defaults"])
    _, o = s.run(op)
    return check_against_ref(op[1], op, o, case["defaults"])
