"""C03 — any text can be an argument; encoded arguments are URL-path safe.

Correspondence: encode_token / decode_token / encode / decode (liquer.parser) vs the Lean model
(LiquerModel.Token over the regenerated escape table).
Oracle (failing-input search, on the implementation only): token round trip, character class of
the encoded form, round trip through Query.with_action(...).encode() -> parse at every argument
position, inside links and header parameters, list-of-lists round trip.
"""
import itertools, string
from common import hx, unhxs

RULE = ("single code points (quick: all < U+0800 + 4000 sampled; thorough: every scalar value), all strings up to "
        "length 3 (thorough 4) over the structural alphabet, seeded random strings to length 40 biased to entity-/"
        "percent-/protocol-like fragments; non-trivial = distinct text containing at least one character that "
        "encode_token must rewrite")
TRUSTED = ["modelled (hand-written Lean mirror): encode_token, decode_token, encode, decode, str.replace, urllib quote/unquote on scalar-value strings",
           "byte decoder: core ByteArray.utf8Decode? (invalid UTF-8 is outside the model and reported as UNMODELLED)"]
ASSUMPTIONS = ["Python str restricted to Unicode scalar values (lone surrogates make quote() raise; outside the property's quantifier)"]
EXPLANATION = "theorems: decodeToken∘encodeToken = id for every List Char and every table with tableOK; tableOK re-proved by decide for the regenerated table"

ALPHA = ["~", "/", "-", "%", "+", " ", ":", "h", "H", "f", "P", "I", "_", ".", "E", "X", "0", "a"]
FRAGS = ["~", "~~", "~X~", "~E", "~H", "~h", "~f", "~P", "~I", "~_", "~.", "~/", "~3", "%", "%41", "%7E", "%7e", "%2", "%zz", "%C3%A9", "%FF",
         "http://", "https://", "file://", "://", "s://", "/", "-", "--", " ", "+", ".", "..", "_", "é", "ß", "€", "𝄞", "\u00a0", "\u2028", "\x00", "\x7f", "\n", "\t", "a", "Z", "0"]
SAFE = set(string.ascii_letters + string.digits + "_.~%")
HEXU = set("0123456789ABCDEF")


def rand_text(rng):
    n = rng.randint(0, 12)
    parts = []
    for _ in range(n):
        r = rng.random()
        if r < 0.6:
            parts.append(rng.choice(FRAGS))
        elif r < 0.8:
            parts.append(rng.choice(ALPHA))
        elif r < 0.9:
            parts.append(chr(rng.choice([rng.randint(0, 0x7F), rng.randint(0x80, 0x7FF), rng.randint(0x800, 0xD7FF), rng.randint(0xE000, 0xFFFF), rng.randint(0x10000, 0x10FFFF)])))
        else:
            parts.append(rng.choice(string.ascii_letters + string.digits))
    return "".join(parts)[:40]


def gen_tokens(ctx):
    toks = []
    if ctx.tier == "thorough":
        cps = [c for c in range(0x110000) if not 0xD800 <= c < 0xE000]
    else:
        cps = list(range(0x800)) + [ctx.rng.choice([ctx.rng.randint(0x800, 0xD7FF), ctx.rng.randint(0xE000, 0xFFFF), ctx.rng.randint(0x10000, 0x10FFFF)]) for _ in range(4000)]
    toks += [chr(c) for c in cps]
    ctx.count("tokens", "single code point", len(cps))
    L = 4 if ctx.tier == "thorough" else 3
    n0 = len(toks)
    for k in range(0, L + 1):
        toks += ["".join(t) for t in itertools.product(ALPHA, repeat=k)]
    ctx.count("tokens", "exhaustive <=%d over %d-char alphabet" % (L, len(ALPHA)), len(toks) - n0)
    ctx.exhaustive.append("all strings of length <= %d over %r" % (L, "".join(ALPHA)))
    if ctx.tier == "thorough":
        ctx.exhaustive.append("every Unicode scalar value as a one-character token")
    nr = 60000 if ctx.tier == "thorough" else 6000
    toks += [rand_text(ctx.rng) for _ in range(nr)]
    ctx.count("tokens", "random biased", nr)
    return toks


def check_charclass(enc):
    """None or a description of the offending position"""
    i = 0
    while i < len(enc):
        c = enc[i]
        if c not in SAFE:
            return "character %r at %d is not URL-path-safe / is a bare separator" % (c, i)
        if c == "%":
            if i + 2 >= len(enc) + 0 and len(enc) < i + 3:
                return "truncated percent escape at %d" % i
            if not (enc[i + 1] in HEXU and enc[i + 2] in HEXU):
                return "percent escape at %d is not two upper-case hex digits" % i
            i += 3
            continue
        i += 1
    return None


def oracle_token(P, s):
    """returns None or a failure description (implementation only)"""
    try:
        e = P.encode_token(s)
    except Exception as ex:
        return "encode_token raised %r" % ex
    bad = check_charclass(e)
    if bad:
        return "encode_token(%r) = %r: %s" % (s, e, bad)
    try:
        d = P.decode_token(e)
    except Exception as ex:
        return "decode_token(%r) raised %r" % (e, ex)
    if d != s:
        return "decode_token(encode_token(%r)) = %r (encoded %r)" % (s, d, e)
    return None


def struct(q):
    """shape of a parsed query: per segment (kind, header?, [ (action, n params) ])"""
    from liquer.parser import TransformQuerySegment
    res = []
    for seg in q.segments:
        hdr = None if seg.header is None else (seg.header.name, seg.header.level, len(seg.header.parameters), seg.header.resource)
        if isinstance(seg, TransformQuerySegment):
            res.append(("T", hdr, [(a.name, len(a.parameters)) for a in seg.query], None if seg.filename is None else str(seg.filename)))
        else:
            res.append(("R", hdr, [str(x) for x in seg.query]))
    return (q.absolute, res)


def embed_shapes(P, args):
    """queries embedding the same arguments at several positions; yields (query object, getter description, expected args)"""
    a = list(args)
    q1 = P.Query().with_action("cmd", *a)
    yield "1 action", q1, lambda p: [x.string for x in p.segments[0].query[0].parameters]
    q2 = P.Query().with_action("first").with_action("cmd", *a).with_action("last", "x")
    yield "middle of 3 actions", q2, lambda p: [x.string for x in p.segments[0].query[1].parameters]
    inner = P.Query([P.TransformQuerySegment(query=[P.ActionRequest.from_arguments("sub", *a)])])
    q3 = P.Query().with_action("outer", "u", P.LinkActionParameter(inner), "w")
    yield "inside link", q3, lambda p: [x.string for x in p.segments[0].query[0].parameters[1].link.segments[0].query[0].parameters]
    # built step by step WITH the encoded form looked at in between (str(), logging, an f-string): the text of the finished query must
    # be the text of the same query built in one go - every argument of the later actions comes back
    q5 = P.Query().with_action("first", "u")
    q5.encode()
    q5.with_action("cmd", *a)
    str(q5)
    q5.with_action("last", "x")
    yield "built step by step, encoded in between", q5, lambda p: [x.string for x in p.segments[0].query[1].parameters]
    hdr = P.SegmentHeader(name="ns", level=2, parameters=[P.StringActionParameter(x) for x in a])
    q4 = P.Query([P.TransformQuerySegment(header=hdr, query=[P.ActionRequest.from_arguments("cmd", "k")])])
    yield "header parameters", q4, lambda p: [x.string for x in p.segments[0].header.parameters]


def oracle_embed(P, args):
    for name, q, getter in embed_shapes(P, args):
        try:
            text = q.encode()
            p = P.parse(text)
        except Exception as ex:
            return "%s: %r does not parse back (%s: %s)" % (name, q.encode() if hasattr(q, "encode") else q, type(ex).__name__, str(ex)[:100])
        if p.encode() != text:
            return "%s: re-encoding %r gives %r" % (name, text, p.encode())
        try:
            got = getter(p)
        except Exception as ex:
            return "%s: structure of %r changed (%s)" % (name, text, type(ex).__name__)
        if got != list(args):
            return "%s: arguments %r came back as %r via %r" % (name, list(args), got, text)
        if struct(p) != struct(q):
            return "%s: embedding changed the structure of %r" % (name, text)
    return None


def oracle_ll(P, ql):
    try:
        e = P.encode(ql)
        d = P.decode(e)
    except Exception as ex:
        return "encode/decode raised %r on %r" % (ex, ql)
    if d != ql:
        return "decode(encode(%r)) = %r (text %r)" % (ql, d, e)
    return None


def gen_ll(ctx, toks, n):
    rng = ctx.rng
    res = []
    for _ in range(n):
        ql = []
        for _ in range(rng.randint(1, 3)):
            cmd = [rng.choice(["a", "cmd", "x1", rand_text(rng) or "c"])]
            for _ in range(rng.randint(0, 3)):
                cmd.append(rng.choice(toks) if rng.random() < 0.5 else rand_text(rng))
            ql.append(cmd)
        res.append(ql)
    return res


def run(ctx):
    import liquer.parser as P
    rng = ctx.rng
    toks = gen_tokens(ctx)
    # ---- stream tok.enc + oracle on every token
    enc_impl = []
    for s in toks:
        ctx.case(s if P.encode_token(s) != s else None)
        enc_impl.append(hx(P.encode_token(s)))
        bad = oracle_token(P, s)
        if bad:
            ctx.violation("token:" + s.encode("utf-8").hex(), bad, dict(kind="token", text=s))
    for s in toks[0x41:0x44] + toks[-3:]:
        ctx.sample(dict(token=s, encoded=P.encode_token(s)))
    ctx.compare("encode_token", toks, enc_impl, ctx.driver.ask(["tok.enc " + hx(s) for s in toks]))
    # ---- stream tok.dec on arbitrary (also malformed) encoded text
    dtoks = [P.encode_token(s) for s in toks[-3000:]] + [rand_text(rng) for _ in range(3000)] + ["".join(t) for t in itertools.product(["~", "%", "4", "1", "H", "a", "é"], repeat=4)]
    dec_impl = [hx(P.decode_token(t)) for t in dtoks]
    ctx.count("decode inputs", "well-formed", 3000)
    ctx.count("decode inputs", "malformed/random", len(dtoks) - 3000)
    ctx.compare("decode_token", dtoks, dec_impl, ctx.driver.ask(["tok.dec " + hx(t) for t in dtoks]))
    # ---- embedding into queries (oracle only: the grammar is C02's correspondence)
    n_embed = 6000 if ctx.tier == "thorough" else 1200
    pool = toks[:0x100] + toks[-(len(toks) // 3):]
    for i in range(n_embed):
        k = rng.randint(1, 3)
        args = [rng.choice(pool) if rng.random() < 0.7 else rand_text(rng) for _ in range(k)]
        ctx.case("embed:" + repr(args))
        bad = oracle_embed(P, args)
        if bad:
            ctx.violation("embed:" + "|".join(a.encode("utf-8").hex() for a in args), bad, dict(kind="embed", args=args))
        if i < 2:
            ctx.sample(dict(args=args, query=P.Query().with_action("cmd", *args).encode()))
    ctx.count("embedding", "argument lists x 4 positions (1 action, middle of 3, inside link, header parameters)", n_embed)
    # ---- list-of-lists form
    lls = gen_ll(ctx, pool, 3000 if ctx.tier == "thorough" else 600)
    impl = []
    for ql in lls:
        ctx.case("ll:" + repr(ql))
        impl.append(hx(P.encode(ql)))
        if all(len(c) and len(c[0]) for c in ql):
            bad = oracle_ll(P, ql)
            if bad:
                ctx.violation("ll:" + repr(ql), bad, dict(kind="ll", ql=ql))
    ctx.compare("encode(list of lists)", lls, impl, ctx.driver.ask(["tok.encll " + " ".join(",".join(hx(t) for t in c) for c in ql) for ql in lls]))
    texts = [P.encode(ql) for ql in lls[:300]] + [rand_text(rng) for _ in range(300)]
    impl = [" ".join(",".join(hx(t) for t in c) for c in P.decode(t)) for t in texts]
    ctx.compare("decode(text)", texts, impl, ctx.driver.ask(["tok.decll " + hx(t) for t in texts]))


def search(ctx, broken, disagreements):
    """enlarged failing-input search after a broken obligation / correspondence: seed from the table"""
    import liquer.parser as P
    rng = ctx.rng
    pats = [s for s, e in P.ESCAPE_SEQUENCES] + [e for s, e in P.ESCAPE_SEQUENCES] + [e[1:] for s, e in P.ESCAPE_SEQUENCES]
    pats += [d["case"] for d in disagreements if isinstance(d["case"], str)]
    seen = 0
    for k in (1, 2, 3):
        for combo in itertools.product(pats, repeat=k):
            s = "".join(combo)
            seen += 1
            bad = oracle_token(P, s) or (oracle_embed(P, [s]) if k < 3 else None)
            if bad:
                ctx.violation("token:" + s.encode("utf-8").hex(), bad, dict(kind="token", text=s))
                return
    for _ in range(20000):
        s = "".join(rng.choice(pats + FRAGS) for _ in range(rng.randint(1, 5)))
        bad = oracle_token(P, s)
        if bad:
            ctx.violation("token:" + s.encode("utf-8").hex(), bad, dict(kind="token", text=s))
            return
    ctx.notes.append("enlarged search over %d table-derived strings found no failing input" % (seen + 20000))


def replay(ctx, case):
    import liquer.parser as P
    if case["kind"] == "token":
        return oracle_token(P, case["text"]) or oracle_embed(P, [case["text"]])
    if case["kind"] == "embed":
        return oracle_embed(P, case["args"])
    if case["kind"] == "ll":
        return oracle_ll(P, case["ql"])
    return "unknown replay kind"
