"""C07 — store contract: every writable store, alone or behind the provided proxies, is one hierarchical
file system.

Correspondence: each of the 12 stacks {MemoryStore, FileStore} x {plain, ProxyStore, IndexerStore,
OverlayStore(., empty MemoryStore), MountPointStore mount, global default composition} against `specOps`
(LiquerModel/StoreCore.lean) run by the driver on the same well-formed history, all universe keys observed
after every operation; MemoryStore / FileStore additionally against their mirrors `memOps` / `fileOps`.
Oracle: the clauses of the contract evaluated on the implementation's own observations (read-back, metadata
fields, presence of ancestors, exactly-once listing, removal, frame, purity of reads against a raw snapshot
of the backing store) and pairwise agreement of the stacks.
"""
import os, json, glob, hashlib, shutil, multiprocessing
import common
from common import hx
import storelib as L

RULE = ("seeded random well-formed histories (length 1-25; wfHist re-checked by the driver) over the keys "
        "{a, a/b, a/c, a/b/d, a/b/d/f, e, e.txt}, 3 byte values, 2 caller tokens, both flavours of metadata update; thorough adds all "
        "well-formed histories of length <= 4 over {a, a/b, a/b/d, e}; every history on 12 stacks; non-trivial = history with at least "
        "one overwrite of an existing file and one removal")
TRUSTED = ["modelled: MemoryStore, FileStore (incl. Store.finalize_metadata on key/name/is_dir/size/md5/caller field), ProxyStore, IndexerStore "
           "(LiquerModel/StoreMem.lean, StoreFile.lean, StoreProxy.lean); OverlayStore / MountPointStore / PrefixStore stacks are tied to specOps by correspondence only here (their models belong to C14/C15)",
           "md5 is modelled as an injective function of the data (the oracle checks hashlib.md5 on the implementation)",
           "POSIX directory tree at the granularity of mkdir -p / write / unlink / rmdir / iterdir; JSON text of metadata files not modelled",
           "generator: harness/storelib.py Ref (mirror of specOps/wfOp, used only to pick operations)"]
ASSUMPTIONS = ["histories are well-formed (wfOp): store needs a non-directory key without file ancestors, store_metadata/remove an existing file, "
               "non-recursive removedir an empty directory, makedir no file on the way",
               "metadata files below __metadata__ are written by the store only (a corrupt one makes get_metadata delete the key)",
               "listing order, None-versus-empty listing of a non-directory and the exception class of get_bytes on a directory are not part of the contract"]
EXPLANATION = ("spec-level contract theorems for specOps on every tree state; tree invariant over whole histories; MemoryStore model refines the "
               "specification on all well-formed histories (simulation); proxies are the identity")

OBS = [""] + L.UNIVERSE
SMALL_OBS = [""] + L.SMALL_UNIVERSE
OPNAME = dict(S="store", M="store_metadata", R="remove", D="removedir", K="makedir")


def uni_field(universe):
    return ",".join(hx(k) for k in universe)


def model_lines(stack, universe, hists):
    u = uni_field(universe)
    return ["store.run %s %s %s" % (stack, u, " ".join(L.tok(o) for o in h)) for h in hists]


def digest(states):
    return hashlib.md5("\n".join(L.canon_state_text(s) for s in states).encode()).hexdigest()


def check_one(stack, hist, universe):
    """contract clauses + purity on one stack; returns (states, (clause, text) | None)"""
    states, full, impure = L.run_history(stack, hist, universe)
    bad = L.contract(hist, states, full, universe)
    if bad is None and impure:
        bad = ("reads-pure", impure)
    return states, bad


def job(args):
    base, wrap, universe, hists, spec, mirror = args
    common.silence()
    scratch = common.scratch_dir()
    res = dict(stack="%s-%s" % (wrap, base), bad=[], spec_diff=[], mirror_diff=[], digests=[], results={})
    try:
        for i, h in enumerate(hists):
            st = L.Stack(base, wrap, scratch)
            try:
                states, bad = check_one(st, h, universe)
            finally:
                st.close()
            for s in states[1:]:
                r = s.split(";", 1)[0]
                res["results"][r] = res["results"].get(r, 0) + 1
            res["digests"].append(digest(states))
            if bad:
                res["bad"].append((i, bad[0], bad[1]))
            if spec is not None:
                d = L.first_difference([L.canon_state_text(s) for s in states], [L.canon_state_text(s) for s in spec[i].split(" ")[1:]], universe, h)
                if d:
                    res["spec_diff"].append((i, d[0], d[1]))
            if mirror is not None:
                d = L.first_difference(states, mirror[i].split(" ")[1:], universe, h)
                if d:
                    res["mirror_diff"].append((i, d[0], d[1]))
    finally:
        shutil.rmtree(scratch, ignore_errors=True)
    return res


def fails(stack_name, hist, universe, clause=None):
    """does the contract oracle fail for this history on this stack (fresh stack)? -> text | None"""
    wrap, base = stack_name.split("-")
    scratch = common.scratch_dir()
    try:
        st = L.Stack(base, wrap, scratch)
        try:
            _, bad = check_one(st, hist, universe)
        finally:
            st.close()
    finally:
        shutil.rmtree(scratch, ignore_errors=True)
    if bad and (clause is None or bad[0] == clause):
        return bad
    return None


def well_formed(hist):
    r = L.Ref()
    for op in hist:
        if not r.wf(op):
            return False
        r.apply(op)
    return True


def shrink(stack_name, hist, universe, clause):
    """greedy: drop operations while the history stays well-formed and the same clause still fails"""
    h = list(hist)
    changed = True
    while changed:
        changed = False
        for i in range(len(h)):
            c = h[:i] + h[i + 1:]
            if well_formed(c) and fails(stack_name, c, universe, clause):
                h, changed = c, True
                break
    return h


def report(ctx, stack_name, hist, universe, clause, text):
    h = shrink(stack_name, hist, universe, clause)
    bad = fails(stack_name, h, universe, clause) or (clause, text)
    last = h[-1] if h else ("S",)
    # the operation the failing clause talks about
    step_op = last
    import re
    m = re.search(r"after step (\d+)", bad[1])
    if m and 0 < int(m.group(1)) <= len(h):
        step_op = h[int(m.group(1)) - 1]
    key = "%s:%s:%s" % (clause, stack_name, OPNAME.get(step_op[0], "?"))
    ctx.violation(key, "stack %s, history [%s]: %s" % (stack_name, L.show_hist(h), bad[1]),
                  dict(kind="history", stack=stack_name, universe=universe, history=[L.op_to_json(o) for o in h], clause=clause))


def run_batch(ctx, label, universe, hists, procs):
    """all 12 stacks on the same histories"""
    spec = ctx.driver.ask(model_lines("spec", universe, hists))
    mem = ctx.driver.ask(model_lines("mem", universe, hists))
    fil = ctx.driver.ask(model_lines("file", universe, hists))
    prox = ctx.driver.ask(model_lines("proxy.spec", universe, hists[:200]))
    if spec is not None:
        notwf = [h for h, s in zip(hists, spec) if not s.startswith("wf=T ")]
        if notwf:
            raise RuntimeError("generator produced a history the model calls ill-formed: " + L.show_hist(notwf[0]))
        if prox is not None and prox != spec[:200]:
            ctx.disagree("proxyOps(specOps) vs specOps", "model self-check", "differs", "differs")
    jobs = []
    for base in L.BASES:
        for wrap in L.WRAPS:
            mirror = (mem if base == "mem" else fil) if wrap == "plain" else None
            n = max(1, (len(hists) + procs - 1) // procs) if len(hists) > 400 else len(hists)
            for lo in range(0, len(hists), n):
                jobs.append((base, wrap, universe, hists[lo:lo + n], None if spec is None else spec[lo:lo + n], None if mirror is None else mirror[lo:lo + n], lo))
    with multiprocessing.get_context("fork").Pool(procs) as pool:
        results = pool.map(job, [j[:6] for j in jobs], chunksize=1)
    per_stack = {}
    for j, r in zip(jobs, results):
        lo = j[6]
        d = per_stack.setdefault(r["stack"], dict(bad=[], spec_diff=[], mirror_diff=[], digests={}, results={}))
        d["bad"] += [(lo + i, c, t) for i, c, t in r["bad"]]
        d["spec_diff"] += [(lo + i, a, b) for i, a, b in r["spec_diff"]]
        d["mirror_diff"] += [(lo + i, a, b) for i, a, b in r["mirror_diff"]]
        for i, dg in enumerate(r["digests"]):
            d["digests"][lo + i] = dg
        for k, v in r["results"].items():
            d["results"][k] = d["results"].get(k, 0) + v
    ref_stack = "plain-mem"
    order = ["%s-%s" % (w, b) for w in L.WRAPS for b in L.BASES]
    for name in sorted(per_stack, key=order.index):
        d = per_stack[name]
        for k, v in d["results"].items():
            ctx.count("operation results (%s)" % label, "%s %s" % (name, k), v)
        # correspondence streams
        diff = {i: (a, b) for i, a, b in d["spec_diff"]}
        ctx.compare("%s vs specOps [%s]" % (name, label), [L.show_hist(h) for h in hists],
                    [diff[i][0] if i in diff else "same" for i in range(len(hists))],
                    None if spec is None else [diff[i][1] if i in diff else "same" for i in range(len(hists))])
        if name in ("plain-mem", "plain-file"):
            diff = {i: (a, b) for i, a, b in d["mirror_diff"]}
            ctx.compare("%s vs %s [%s]" % (name, "memOps" if name == "plain-mem" else "fileOps", label), [L.show_hist(h) for h in hists],
                        [diff[i][0] if i in diff else "same" for i in range(len(hists))],
                        None if mem is None else [diff[i][1] if i in diff else "same" for i in range(len(hists))])
        # oracle
        seen = set()
        for i, clause, text in d["bad"]:
            k = (clause, hists[i][int(text.split("after step ")[1].split(" ")[0]) - 1][0] if "after step " in text else "?")
            if k in seen:
                continue
            seen.add(k)
            report(ctx, name, hists[i], universe, clause, text)
        if name != ref_stack:
            for i in range(len(hists)):
                if d["digests"].get(i) != per_stack[ref_stack]["digests"].get(i):
                    if ("agree", name) in seen:
                        break
                    seen.add(("agree", name))
                    if not d["bad"] and not per_stack[ref_stack]["bad"]:
                        ctx.violation("agree:%s" % name, "stacks %s and %s observe different things on the history [%s]" % (name, ref_stack, L.show_hist(hists[i])),
                                      dict(kind="agree", stack=name, other=ref_stack, universe=universe, history=[L.op_to_json(o) for o in hists[i]]))
    return per_stack


def nontrivial_key(h):
    stored, over, rem = set(), False, False
    for op in h:
        if op[0] == "S":
            over = over or op[1] in stored
            stored.add(op[1])
        elif op[0] in ("R", "D"):
            rem = True
            stored = {k for k in stored if k != op[1] and not k.startswith(op[1] + "/")}
    return " ".join(L.tok(o) for o in h) if (over and rem) else None


def run(ctx):
    procs = min(16, os.cpu_count() or 4)
    # corpus first
    for p in sorted(glob.glob(os.path.join(common.VERIF, "corpus", "C07", "*.json"))):
        case = json.load(open(p))["case"]
        still = replay(ctx, case)
        ctx.case("corpus:" + os.path.basename(p))
        if still:
            ctx.violation("corpus:" + os.path.basename(p), still, case)
    n = 2500 if ctx.tier == "thorough" else 100
    hists = [L.random_history(ctx.rng, ctx.rng.randint(1, 25)) for _ in range(n)]
    # a few directed ones (every operation kind on nested and sibling keys)
    hists += [
        [("K", "a"), ("D", "a", 0)],
        [("S", "a/b/d/f", b"1", "u1"), ("D", "a/b", 1), ("S", "a/b", b"", "u2"), ("R", "a/b"), ("D", "a", 0)],
        [("S", "e", b"1", "u1"), ("S", "e.txt", b"22\xff", "u2"), ("R", "e"), ("M", "e.txt", "u1", None, None), ("S", "e", b"", "u1"), ("S", "e", b"1", "u2")],
        [("K", "a/b/d"), ("S", "a/c", b"1", "u1"), ("S", "a/b/d/f", b"1", "u1"), ("M", "a/c", "u2", 1, b"1"), ("D", "a/b/d", 1), ("D", "a/b", 0), ("R", "a/c"), ("D", "a", 0)],
    ]
    for h in hists:
        ctx.count("history length", str(len(h)))
        for op in h:
            ctx.count("operation kinds", OPNAME[op[0]] + (" recursive" if op[0] == "D" and op[2] else ""))
        nt = nontrivial_key(h)
        for _ in range(12):
            ctx.case(nt)
    run_batch(ctx, "random", OBS, hists, procs)
    ctx.sample(dict(history=L.show_hist(hists[0])[:300], stacks=12))
    ctx.sample(dict(history=L.show_hist(hists[-1])[:300], stacks=12))
    if ctx.tier == "thorough":
        ex = L.all_histories(4)
        ctx.exhaustive.append("all %d well-formed histories of length <= 4 over %r (one byte value, one caller token), 12 stacks" % (len(ex), L.SMALL_UNIVERSE))
        for h in ex:
            nt = nontrivial_key(h)
            for _ in range(12):
                ctx.case(nt)
        ctx.count("histories", "exhaustive length <= 4", len(ex))
        run_batch(ctx, "exhaustive", SMALL_OBS, ex, procs)
    ctx.count("histories", "random + directed", len(hists))


def search(ctx, broken, disagreements):
    """a proof or the correspondence broke and the oracle found nothing: more histories, oracle only"""
    procs = min(16, os.cpu_count() or 4)
    n = 3000 if ctx.tier == "thorough" else 600
    hists = [L.random_history(ctx.rng, ctx.rng.randint(1, 25)) for _ in range(n)]
    ctx.notes.append("enlarged search: %d further random histories on 12 stacks" % n)
    run_batch(ctx, "search", OBS, hists, procs)


def replay(ctx, case):
    hist = [L.op_from_json(o) for o in case["history"]]
    universe = case.get("universe", OBS)
    if case.get("kind") == "agree":
        outs = []
        for name in (case["stack"], case["other"]):
            wrap, base = name.split("-")
            scratch = common.scratch_dir()
            try:
                st = L.Stack(base, wrap, scratch)
                states, _, _ = L.run_history(st, hist, universe, purity=False)
                st.close()
            finally:
                shutil.rmtree(scratch, ignore_errors=True)
            outs.append([L.canon_state_text(s) for s in states])
        d = L.first_difference(outs[0], outs[1], universe, hist)
        return None if d is None else "%s: %s / %s: %s" % (case["stack"], d[0], case["other"], d[1])
    bad = fails(case["stack"], hist, universe)
    return None if bad is None else "stack %s, history [%s]: %s" % (case["stack"], L.show_hist(hist), bad[1])
