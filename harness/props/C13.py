"""C13 — every cache back-end is a faithful key-value map of states.

Correspondence: every cache class / combinator of liquer.cache, built by its documented constructor, vs the
Lean model of that configuration (LiquerModel/Cache*.lean) on seeded operation histories in which every
operation is followed by a sweep of `get` + `contains` over the whole key universe and `keys()`.
Oracle (on the implementation only): a Python dict reference — store -> present / listed / equal value /
ready / carries the query; remove / clean -> absent; metadata-only writes never create data; operations on
one key never change what another key shows — plus a scan of the raw files of the obfuscating and encrypting
caches for the plain bytes of values and metadata.
"""
import os, ast, json, glob, shutil, hashlib, multiprocessing
import common
from common import hx

RULE = ("17 configurations (NoCache, MemoryCache, FileCache, XORFileCache, FernetFileCache, SQLCache/SQLStringCache.from_sqlite, "
        "StoreCache flat/nested on MemoryStore/FileStore, Memory+File, No+Memory, if_contains, if_not_contains, if_attribute_equal, "
        "CacheProxy) x seeded histories of <= 20 operations (store, store_metadata, get, get_metadata, contains, keys, remove, clean) "
        "over 12 confusable keys and 13 values of every built-in state type, each operation followed by a probe sweep over all keys; "
        "non-trivial = history with at least one overwrite and at least one removal (or clean) of a stored key")
TRUSTED = ["modelled (hand-written Lean mirrors): NoCache, MemoryCache, FileCache/XORFileCache/FernetFileCache, SQLCache/SQLStringCache, StoreCache, "
           "CacheCombine, CacheIfHasAttributes, CacheIfHasNotAttributes, CacheAttributeCondition, CacheProxy",
           "parameters with laws: md5 (injective on the key universe), json / state-type codecs (decode after encode is the identity), "
           "Fernet (decrypt after encrypt is the identity), base64 (bijection), sqlite3 (a table is a list of rows)",
           "store models LiquerModel/StoreMem.lean, StoreFile.lean (MemoryStore / FileStore under StoreCache)"]
ASSUMPTIONS = ["states handed to store() carry one of the built-in value types; metadata dictionaries carry query, status, type_identifier",
               "a metadata-only write on a key that holds data names the type identifier the data was stored with (refinement theorems; the "
               "correspondence also runs histories that break this for the memory, file and SQL caches)",
               "nested StoreCache on a FileStore: keys whose '/'-components are non-empty and none of '.', '..' (other keys: known finding D19)"]
EXPLANATION = ("theorems: spec lemmas of the key-value specification for every state and every key string; refinement of the memory, file "
               "(any injective digest, any codec with decode-after-encode = id), SQL (delete_before_insert) and store-backed caches and "
               "congruence of the combinators, for histories of any length; XOR involution and byte-wise hiding")

KEYS = ["a", "a/b", "a-b", "a~_b", "a/", "a//b", "-R/x", "x/-/a", "a-~X~b~E", "é", "..", "a b", "/a"]
UNSAFE_NESTED = {"a/", "a//b", "..", "/a"}
# "is it ok?" / b"\xfb\xff\xfe": their base64 texts contain '/' and '+' (the two characters in which the standard and the url-safe alphabet differ)
VALUES = [None, 0, 7, 1.5, True, "", "text é value", b"", b"\x00\xffbinary\x01", {"a": 1, "b": [1, 2]}, {}, [1, "x"], (1, 2), "is it ok?", b"\xfb\xff\xfe"]
STATUSES = ["ready", "evaluation", "error", "evaluating parent"]
ATTR_VALUES = [True, False, "x", "", "y"]
XOR_CODE = bytes([0x5A, 0x13, 0xC7, 0x2E, 0x91, 0x7F, 0x08])
# "scfm/" / "scnm/" / "scfm//" / "scnm//": StoreCache(MemoryStore(), "/cache" or "//cache") - a cache path with leading slashes
# is the same cache as without them; the model receives the path as given and normalises it like the constructor does
CONFIGS = ["no", "mem", "file", "xor", "fernet", "sql", "sqlstr", "scfm", "scnm", "scff", "scnf", "mem+file", "no+mem", "ifhas", "ifhasnot", "attreq", "proxy", "scfm/", "scnm/", "scfm//", "scnm//", "ifhas+mem", "scnm0", "scfm0"]
SLASHED = {"scfm/": "/cache", "scnm/": "/cache", "scfm//": "//cache", "scnm//": "//cache", "scnm0": "", "scfm0": ""}      # "": the cache IS the store
EXACT_UNSTABLE = {"mem", "file", "xor", "fernet", "sql", "sqlstr", "mem+file", "no+mem", "proxy", "no"}


def tok(v):
    return type(v).__name__ + ":" + repr(v)


def render_attr(v):
    if isinstance(v, bool):
        return "b:" + repr(v)
    return "s:" + str(v)


_L = {}


def L():
    """lazy import of liquer (after ./check has silenced the output)"""
    if not _L:
        import liquer.cache as C
        import liquer.store as S
        from liquer.state import State
        from liquer.state_types import state_types_registry, type_identifier_of
        import liquer.ext.basic  # noqa: registers nothing needed, keeps the registry as in normal use
        _L.update(C=C, S=S, State=State, reg=state_types_registry, tid=type_identifier_of)
    return _L


def ext_table():
    l = L()
    tids = sorted({l["tid"](v) for v in VALUES} | {"generic", "text", "bytes", "dictionary", "pickle"})
    return {t: l["reg"]().get(t).default_extension() for t in tids}


def ext_field(tbl):
    return ";".join("%s=%s" % (hx(t), hx(e)) for t, e in sorted(tbl.items()))


# ---------------------------------------------------------------- wire
def meta_wire(m):
    attrs = ";".join("%s=%s" % (hx(a), hx(render_attr(v))) for a, v in sorted(m["attrs"].items())) or "-"
    return ",".join([hx(m["q"]), hx(m["status"]), hx(m["tid"]), "1" if m["is_error"] else "0", attrs, hx(m["rest"])])


def op_wire(op):
    k = op[0]
    if k in "gmrc":
        return "%s:%s" % (k, hx(op[1]))
    if k == "s":
        m = op[1]
        return "s:" + meta_wire(dict(m, status="evaluation")) + "," + hx(tok(ast.literal_eval(m["vrepr"])))
    if k == "t":
        return "t:" + meta_wire(op[1])
    return k


def canon_meta(md):
    if md is None:
        return None
    attrs = md.get("attributes") or {}
    a = ";".join("%s=%s" % (hx(n), hx(render_attr(v))) for n, v in sorted(attrs.items())) or "-"
    return ",".join([hx(md.get("query") or ""), hx(md.get("status") or ""), hx(md.get("type_identifier") or ""),
                     "1" if md.get("is_error") else "0", a, hx(md.get("message") or "")])


def canon_out(kind, r):
    if isinstance(r, tuple) and r and r[0] == "EXC":
        return "EXC:" + r[1]
    if kind == "g":
        return "S:none" if r is None else "S:" + canon_meta(r.metadata) + "," + hx(tok(r.data))
    if kind == "m":
        return "M:none" if r is None else "M:" + canon_meta(r)
    if kind == "s":
        return "R:T" if r is True else "R:F" if r is False else "R:N" if r is None else "R:?" + repr(r)
    if kind in "trc":
        return "B:1" if r is True else "B:0" if r is False else "B:?" + repr(r)
    if kind == "k":
        ks = sorted(hx(x if isinstance(x, str) else repr(x)) for x in r)
        return "K:" + (",".join(ks) if ks else "-")
    return "U"


# ---------------------------------------------------------------- implementation
def mk_metadata(m):
    l = L()
    md = dict(l["State"]().metadata)
    md.update(query=m["q"], status=m["status"], type_identifier=m["tid"], is_error=m["is_error"], attributes=dict(m["attrs"]), message=m["rest"])
    return md


def mk_state(m):
    l = L()
    v = ast.literal_eval(m["vrepr"])
    s = l["State"]().with_data(v)
    s.metadata.update(query=m["q"], status="evaluation", is_error=m["is_error"], attributes=dict(m["attrs"]), message=m["rest"])
    return s


class Built:
    def __init__(self, cfg):
        l = L()
        C, S = l["C"], l["S"]
        self.dirs, self.scan = [], None
        d = lambda: self._dir()
        if cfg == "no":
            c = C.NoCache()
        elif cfg == "mem":
            c = C.MemoryCache()
        elif cfg == "file":
            c = C.FileCache(d())
        elif cfg == "xor":
            p = d()
            c = C.XORFileCache(p, XOR_CODE)
            self.scan = p
        elif cfg == "fernet":
            from cryptography.fernet import Fernet
            p = d()
            c = C.FernetFileCache(p, Fernet.generate_key())
            self.scan = p
        elif cfg == "sql":
            c = C.SQLCache.from_sqlite()
        elif cfg == "sqlstr":
            c = C.SQLStringCache.from_sqlite()
        elif cfg in ("scfm", "scnm") or cfg in SLASHED:
            c = C.StoreCache(S.MemoryStore(), SLASHED.get(cfg, "cache"), flat=cfg.startswith("scfm"))
        elif cfg in ("scff", "scnf"):
            c = C.StoreCache(S.FileStore(d()), "cache", flat=(cfg == "scff"))
        elif cfg == "mem+file":
            c = C.MemoryCache() + C.FileCache(d())
        elif cfg == "no+mem":
            c = C.NoCache() + C.MemoryCache()
        elif cfg == "ifhas+mem":
            c = C.MemoryCache().if_contains("abc") + C.MemoryCache()      # a conditional member in front of an unconditional one
        elif cfg == "ifhas":
            c = C.MemoryCache().if_contains("abc")
        elif cfg == "ifhasnot":
            c = C.MemoryCache().if_not_contains("abc")
        elif cfg == "attreq":
            c = C.MemoryCache().if_attribute_equal("abc", "x")
        elif cfg == "proxy":
            c = C.CacheProxy(C.MemoryCache())
        else:
            raise ValueError(cfg)
        self.cache = c

    def _dir(self):
        p = common.scratch_dir("liquer-verif-c13-")
        self.dirs.append(p)
        return p

    def close(self):
        for p in self.dirs:
            shutil.rmtree(p, ignore_errors=True)


def model_cfg(cfg):
    return {"xor": "xor:" + XOR_CODE.hex(), "ifhas": "ifhas:" + hx("abc"), "ifhas+mem": "ifhas+mem:" + hx("abc"), "ifhasnot": "ifhasnot:" + hx("abc"),
            "attreq": "attreq:%s:%s" % (hx("abc"), hx("s:x")),
            **{c: "%s:%s" % (c[:4], hx(p)) for c, p in SLASHED.items()}}.get(cfg, cfg)


def apply_op(cache, op):
    k = op[0]
    try:
        if k == "g":
            return cache.get(op[1])
        if k == "m":
            return cache.get_metadata(op[1])
        if k == "s":
            return cache.store(mk_state(op[1]))
        if k == "t":
            return cache.store_metadata(mk_metadata(op[1]))
        if k == "r":
            return cache.remove(op[1])
        if k == "c":
            return cache.contains(op[1])
        if k == "k":
            return list(cache.keys())
        if k == "x":
            return cache.clean()
    except Exception as ex:  # no cache operation is documented to raise
        return ("EXC", type(ex).__name__)


def expand(hist, universe):
    """every operation followed by the probe sweep"""
    out_ = []
    for op in hist:
        out_.append(op)
        for k in universe:
            out_.append(["g", k])
            out_.append(["c", k])
        out_.append(["k"])
    return out_


def scan_plain(b, hist, upto):
    """plain bytes of stored values / metadata must not occur in the files of an obfuscating cache"""
    l = L()
    pats = []
    for op in hist[:upto + 1]:
        if op[0] == "s":
            v = ast.literal_eval(op[1]["vrepr"])
            try:
                raw = l["reg"]().get(l["tid"](v)).as_bytes(v)[0]
            except Exception:
                raw = b""
            if len(raw) >= 8:
                pats.append(("value " + op[1]["vrepr"], raw))
        if op[0] in "st":
            pats.append(("metadata field " + op[1]["rest"], op[1]["rest"].encode()))
            pats.append(("metadata key", b'"type_identifier"'))
    for f in glob.glob(os.path.join(b.scan, "*")):
        try:
            content = open(f, "rb").read()
        except OSError:
            continue
        for what, p in pats:
            if p and p in content:
                return "%s found in plain in %s" % (what, os.path.basename(f))
    return None


def run_history(cfg, hist, universe):
    """-> (canonical outputs of the expanded history, oracle failure (rule, text) or None)"""
    b = Built(cfg)
    try:
        outs, bad = [], None
        ref = {k: ("absent",) for k in universe}
        prev = None
        n = len(universe)
        for i, op in enumerate(hist):
            r = apply_op(b.cache, op)
            outs.append(canon_out(op[0], r))
            probes = {}
            for k in universe:
                g = apply_op(b.cache, ["g", k])
                c = apply_op(b.cache, ["c", k])
                outs.append(canon_out("g", g))
                outs.append(canon_out("c", c))
                probes[k] = (g, c)
            ks = apply_op(b.cache, ["k"])
            outs.append(canon_out("k", ks))
            if bad is None:
                bad = judge(cfg, op, r, ref, probes, ks, prev, universe)
                if bad is None and b.scan and op[0] in "st":
                    s = scan_plain(b, hist, i)
                    if s:
                        bad = ("plain-bytes-on-disk", s)
                if bad is not None:
                    bad = (bad[0], "after operation %d %s: %s" % (i + 1, show_op(op), bad[1]))
            prev = {k: (canon_out("g", probes[k][0]), canon_out("c", probes[k][1])) for k in universe}
        return outs, bad
    finally:
        b.close()


def show_op(op):
    k = op[0]
    if k in "gmrc":
        return {"g": "get", "m": "get_metadata", "r": "remove", "c": "contains"}[k] + "(%r)" % op[1]
    if k == "s":
        return "store(%r := %s%s)" % (op[1]["q"], op[1]["vrepr"], ", is_error" if op[1]["is_error"] else "")
    if k == "t":
        return "store_metadata(%r, status=%s, type=%s)" % (op[1]["q"], op[1]["status"], op[1]["tid"])
    return {"k": "keys()", "x": "clean()"}[k]


def judge(cfg, op, r, ref, probes, ks, prev, universe):
    """the Python-dict reference; returns (rule, text) on the first broken rule"""
    kind = op[0]
    if isinstance(r, tuple) and r and r[0] == "EXC":
        return ("raises", "the operation raised %s" % r[1])
    target = None
    if kind == "s":
        target = op[1]["q"]
        v = tok(ast.literal_eval(op[1]["vrepr"]))
        if r is True:
            ref[target] = ("data", v, True)
        else:
            old = ref[target]
            ref[target] = ("data", old[1], False) if old[0] == "data" else ("nodata",)
    elif kind == "t":
        target = op[1]["q"]
        old = ref[target]
        ref[target] = ("data", old[1], False) if old[0] == "data" else ("nodata",)
    elif kind == "r":
        target = op[1]
        ref[target] = ("absent",)
    elif kind == "x":
        for k in universe:
            ref[k] = ("absent",)
    if isinstance(ks, tuple):
        return ("raises", "keys() raised %s" % ks[1])
    for k in universe:
        g, c = probes[k]
        for x, nm in ((g, "get"), (c, "contains")):
            if isinstance(x, tuple) and x and x[0] == "EXC":
                return ("raises", "%s(%r) raised %s" % (nm, k, x[1]))
        e = ref[k]
        if e[0] == "absent":
            if g is not None:
                return ("served-after-removal" if kind in "rx" else "served-without-store", "get(%r) returns a state (data %r) although the key was removed / never stored" % (k, g.data))
            if c:
                return ("contains-after-removal", "contains(%r) is True although the key was removed / never stored" % k)
            if k in ks:
                return ("listed-after-removal", "keys() lists %r although the key was removed / never stored" % k)
        elif e[0] == "nodata":
            if g is not None:
                return ("metadata-only-serves-data", "get(%r) returns a state (data %r) although only metadata was ever written for the key" % (k, g.data))
        else:
            _, v, strict = e
            if g is None:
                if strict:
                    return ("stored-value-lost", "get(%r) returns nothing right after a successful store" % k)
            else:
                if tok(g.data) != v:
                    return ("wrong-value", "get(%r) returns %s, the value stored last is %s" % (k, tok(g.data), v))
                if g.metadata.get("status") != "ready":
                    return ("not-ready", "get(%r) returns a state whose status is %r" % (k, g.metadata.get("status")))
                if g.metadata.get("query") != k:
                    return ("wrong-query", "get(%r) returns a state carrying the query %r" % (k, g.metadata.get("query")))
            if strict:
                if not c:
                    return ("stored-not-contained", "contains(%r) is False right after a successful store" % k)
                if list(ks).count(k) != 1:
                    return ("stored-not-listed", "keys() lists %r %d times right after a successful store" % (k, list(ks).count(k)))
    if prev is not None and kind != "x":
        for k in universe:
            if k != target:
                now = (canon_out("g", probes[k][0]), canon_out("c", probes[k][1]))
                if now != prev[k]:
                    return ("frame", "the operation on %r changed what key %r shows (get/contains before: %s, after: %s)" % (target, k, short(prev[k]), short(now)))
    return None


def short(p):
    return "%s/%s" % ("none" if p[0] == "S:none" else "state", p[1])


# ---------------------------------------------------------------- generator
def gen_history(rng, cfg, universe, tids, unstable):
    n = rng.randint(3, 20)
    focus = rng.sample(universe, min(len(universe), rng.choice([1, 2, 2, 3, 5])))
    last_tid, hist = {}, []
    for _ in range(n):
        k = rng.choice(focus) if rng.random() < 0.85 else rng.choice(universe)
        r = rng.random()
        attrs = {}
        for a in ("abc", "volatile"):
            if rng.random() < 0.5:
                attrs[a] = rng.choice(ATTR_VALUES)
        rest = "REST%04d" % rng.randint(0, 9999)
        if r < 0.30:
            v = rng.choice(VALUES)
            hist.append(["s", dict(q=k, vrepr=repr(v), tid=L()["tid"](v), is_error=rng.random() < 0.06, attrs=attrs, rest=rest, status="evaluation")])
            if not hist[-1][1]["is_error"]:
                last_tid[k] = hist[-1][1]["tid"]
        elif r < 0.50:
            tid = last_tid.get(k)
            if tid is None or (unstable and rng.random() < 0.5):
                tid = rng.choice(tids)
            hist.append(["t", dict(q=k, status=rng.choice(STATUSES + ["ready"]), tid=tid, is_error=False, attrs=attrs, rest=rest)])
        elif r < 0.62:
            hist.append(["r", k])
            last_tid.pop(k, None)
        elif r < 0.72:
            hist.append(["m", k])
        elif r < 0.80:
            hist.append(["g", k])
        elif r < 0.86:
            hist.append(["c", k])
        elif r < 0.91:
            hist.append(["k"])
        elif r < 0.95:
            hist.append(["x"])
            last_tid.clear()
        else:
            hist.append(["s", dict(q=k, vrepr=repr(rng.choice(VALUES)), tid="", is_error=False, attrs=attrs, rest=rest, status="evaluation")])
            hist[-1][1]["tid"] = L()["tid"](ast.literal_eval(hist[-1][1]["vrepr"]))
            last_tid[k] = hist[-1][1]["tid"]
    return hist


def nontrivial(hist):
    stored, over, rem = set(), False, False
    for op in hist:
        if op[0] == "s" and not op[1]["is_error"]:
            over = over or op[1]["q"] in stored
            stored.add(op[1]["q"])
        elif op[0] == "r" and op[1] in stored:
            rem = True
            stored.discard(op[1])
        elif op[0] == "x" and stored:
            rem = True
            stored.clear()
    return over and rem


def universe_of(cfg):
    return [k for k in KEYS if not (cfg == "scnf" and k in UNSAFE_NESTED)]


def directed():
    """short histories aimed at the places where back-ends are known to have differed"""
    def s(q, v, **kw):
        return ["s", dict(dict(q=q, vrepr=repr(v), tid=L()["tid"](v), is_error=False, attrs={}, rest="RESTd", status="evaluation"), **kw)]

    def t(q, status, tid, **kw):
        return ["t", dict(dict(q=q, status=status, tid=tid, is_error=False, attrs={}, rest="RESTm"), **kw)]
    return [
        [t("a", "ready", "generic"), ["g", "a"]],
        [t("a", "ready", "bytes"), ["g", "a"]],
        [t("a", "ready", "text"), ["g", "a"], s("a", None), ["g", "a"]],
        [s("a", 1), ["c", "a"], ["r", "a"], ["c", "a"], ["k"]],
        [s("a", 1), s("a", 2), ["g", "a"], ["k"]],
        [s("a", 1), s("a", "x"), ["r", "a"], t("a", "ready", "generic"), ["g", "a"]],
        [s("a", 1), t("a", "evaluation", "text"), ["r", "a"], t("a", "ready", "generic"), ["g", "a"]],
        [s("a", 1), s("a", "x"), t("a", "ready", "generic"), ["g", "a"]],
        [s("a", 1, attrs={"abc": True}), s("a", 2), ["g", "a"], ["c", "a"]],
        [s("a", 1, attrs={"abc": "x"}), s("a", 2, attrs={"abc": True}), ["g", "a"]],
        [s("a/b", b"bytes value 1"), s("a-b", "text value 2"), ["r", "a/b"], ["g", "a-b"], ["x"], ["k"]],
        [s("a", 1, is_error=True), ["g", "a"], s("a", 2), s("a", 3, is_error=True), ["g", "a"]],
    ]


def unsafe_nested_cases():
    def s(q, v):
        return ["s", dict(q=q, vrepr=repr(v), tid=L()["tid"](v), is_error=False, attrs={}, rest="RESTu", status="evaluation")]
    return [("a|a/", ["a", "a/"], [s("a", "one"), s("a/", "two"), ["g", "a"]]),
            ("a/b|a//b", ["a/b", "a//b"], [s("a/b", "one"), s("a//b", "two"), ["g", "a/b"]]),
            ("..", ["a", ".."], [s("..", "one"), ["k"]])]


# ---------------------------------------------------------------- driver
def work(args):
    cfg, seed, count, tier = args
    import random
    rng = random.Random("%s-%s" % (seed, cfg))
    tbl = ext_table()
    tids = sorted(tbl)
    uni = universe_of(cfg)
    res = []
    hs = [("directed", h) for h in directed()]
    for i in range(count):
        hs.append(("random", gen_history(rng, cfg, uni, tids, cfg in EXACT_UNSTABLE and i % 4 == 0)))
    for origin, h in hs:
        outs, bad = run_history(cfg, h, uni)
        res.append(dict(cfg=cfg, origin=origin, hist=h, outs=outs, bad=bad))
    return res


def shrink(cfg, hist, uni, rule):
    """greedy removal of operations while the same rule keeps failing"""
    cur = list(hist)
    i = 0
    while i < len(cur):
        cand = cur[:i] + cur[i + 1:]
        _, bad = run_history(cfg, cand, uni)
        if bad is not None and bad[0] == rule:
            cur = cand
        else:
            i += 1
    return cur


def line_for(cfg, tbl, hist, uni):
    return "cache.run %s %s %s" % (model_cfg(cfg), ext_field(tbl), " ".join(op_wire(o) for o in expand(hist, uni)))


def run(ctx):
    L()
    tbl = ext_table()
    count = 4000 if ctx.tier == "thorough" else 70
    # corpus first
    for p in sorted(glob.glob(os.path.join(common.VERIF, "corpus", "C13", "*.json"))):
        entry = json.load(open(p))
        case = entry["case"]
        ctx.case("corpus:" + os.path.basename(p))
        still = replay(ctx, case)
        if still:
            ctx.violation(entry.get("key", "corpus:" + os.path.basename(p)), still, case)
    jobs = [(cfg, ctx.seed, count, ctx.tier) for cfg in CONFIGS]
    with multiprocessing.get_context("fork").Pool(min(16, len(jobs))) as pool:
        results = pool.map(work, jobs, chunksize=1)
    lines, impl, cases = [], [], []
    seen_rules = {tuple(v["key"].split(":", 1)) for v in ctx.violations if ":" in v["key"]}
    for res in results:
        for r in res:
            cfg, h = r["cfg"], r["hist"]
            uni = universe_of(cfg)
            ctx.case((cfg + json.dumps(h, sort_keys=True)) if nontrivial(h) else None)
            ctx.count("histories", cfg + "/" + r["origin"])
            ctx.count("length", str(len(h)))
            for op in h:
                ctx.count("operations", op[0])
            lines.append(line_for(cfg, tbl, h, uni))
            impl.append(" ".join(r["outs"]))
            cases.append(dict(config=cfg, history=[show_op(o) for o in h]))
            if r["bad"] and (cfg, r["bad"][0]) not in seen_rules:
                seen_rules.add((cfg, r["bad"][0]))
                small = shrink(cfg, h, uni, r["bad"][0])
                _, bad = run_history(cfg, small, uni)
                bad = bad or r["bad"]
                ctx.violation("%s:%s" % (cfg, bad[0]), "%s — %s; history: %s" % (cfg, bad[1], "; ".join(show_op(o) for o in small)),
                              dict(kind="hist", config=cfg, universe=uni, history=small, rule=bad[0], key="%s:%s" % (cfg, bad[0])))
    ctx.sample(dict(config=cases[len(directed()) + 1]["config"], history=cases[len(directed()) + 1]["history"][:8]))
    ctx.sample(dict(line=lines[len(directed()) + 1][:300]))
    ctx.compare("cache histories (operation outputs + probe sweeps)", cases, impl, ctx.driver.ask(lines))
    # nested StoreCache on a FileStore, keys outside NestedSafe: oracle only
    for name, uni, h in unsafe_nested_cases():
        ctx.case("unsafe:" + name)
        _, bad = run_history("scnf", h, uni)
        if bad:
            ctx.violation("scnf:confusable:" + name, "StoreCache(nested) on FileStore, keys %s — %s; history: %s" % (name, bad[1], "; ".join(show_op(o) for o in h)),
                          dict(kind="hist", config="scnf", universe=uni, history=h, rule=bad[0], key="scnf:confusable:" + name))
    ctx.exhaustive.append("12 directed histories x 17 configurations")


def search(ctx, broken, disagreements):
    """a proof or the correspondence broke and the oracle was silent: more histories, oracle only"""
    jobs = [(cfg, ctx.seed + 1000 + i, 400, ctx.tier) for cfg in CONFIGS for i in range(2)]
    with multiprocessing.get_context("fork").Pool(16) as pool:
        results = pool.map(work, jobs, chunksize=1)
    for res in results:
        for r in res:
            if r["bad"]:
                cfg, uni = r["cfg"], universe_of(r["cfg"])
                small = shrink(cfg, r["hist"], uni, r["bad"][0])
                ctx.violation("%s:%s" % (cfg, r["bad"][0]), "%s — %s; history: %s" % (cfg, r["bad"][1], "; ".join(show_op(o) for o in small)),
                              dict(kind="hist", config=cfg, universe=uni, history=small, rule=r["bad"][0], key="%s:%s" % (cfg, r["bad"][0])))
                return
    ctx.notes.append("enlarged search: %d further histories, oracle silent" % sum(len(r) for r in results))


def replay(ctx, case):
    L()
    if case.get("kind") != "hist":
        return "unknown replay kind"
    _, bad = run_history(case["config"], case["history"], case["universe"])
    return None if bad is None else "%s — %s; history: %s" % (case["config"], bad[1], "; ".join(show_op(o) for o in case["history"]))
