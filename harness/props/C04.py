"""C04 — cache transparency: a cache never changes what an evaluation returns.

Correspondence: histories of evaluations (plain, injected input value, extra parameters), removals and cleans over
families of related queries, for every cache configuration, implementation vs the Lean evaluator model (`eval.session`).
Oracle: every evaluation of every history is repeated with no cache at all in a fresh registry/context and the
observables C04 names (value or failure, volatility, final state variables, file name, extension) must be equal.
"""
import os
import evalprops as EP
import evalharness as H

RULE = ("cache configurations (16, built by documented constructors/factories) x seeded histories of 3-8 operations (evaluate, evaluate with input value, "
        "extra parameters, remove, clean) over a family of related queries (prefixes, extensions, link sub-queries, non-canonical spellings, failing / "
        "volatile / cache-disabling / mutating commands); non-trivial = history in which some evaluation was served from or stored into the cache")
TRUSTED = EP.TRUSTED
ASSUMPTIONS = EP.ASSUMPTIONS
EXPLANATION = "theorems in Props/C04.lean (Sound is an invariant of every history; evaluation over a Sound cache refines the reference interpretation)"


def gen_sessions(ctx, per_config):
    rng = ctx.rng
    cfgs = EP.cache_configs("/nonexistent")
    tasks = []
    for ci, (name, _, kind) in enumerate(cfgs):
        for _ in range(per_config):
            fam = EP.gen_family(rng, size=3, depth=2, special=0.2)
            ops = EP.gen_history(rng, fam, rng.randint(3, 8))
            dflt = {} if rng.random() < 0.7 else {"a": "dflt"}
            tasks.append((ci, ops, dflt, ("fresh",)))
    return cfgs, tasks


def judge(ctx, cfgs, tasks, results):
    for (ci, ops, dflt, _), res in zip(tasks, results):
        name = cfgs[ci][0]
        hit = False
        for i, (op, (line, o, fo, _)) in enumerate(zip(ops, res)):
            if o is None:
                continue
            ctx.count("operation", op[0])
            a, b = EP.obs_public(o), EP.obs_public(fo)
            if a != b:
                diff = {k: (a[k], b[k]) for k in a if a[k] != b[k]}
                vkey = "rtq-ambiguous-text" if EP.rtq_ambiguous(op[1]) else "transparency:%s:%s" % (name, H.op_wire(op))
                ctx.violation(vkey,
                              "%s: operation %d %r of history %r returns %r, the same evaluation without any cache returns %r" % (
                                  name, i, op, [x[:2] for x in ops[:i]], {k: v[0] for k, v in diff.items()}, {k: v[1] for k, v in diff.items()}),
                              dict(kind="history", config=name, ops=[list(x) for x in ops[:i + 1]], defaults=dflt))
            if len(o["calls"]) < len(fo["calls"]):
                hit = True
        ctx.case(("%s|%r" % (name, ops)) if hit else None)
        ctx.count("configuration", name)
        if hit and len(ctx.samples) < 6:
            ctx.sample(dict(config=name, history=[list(o) for o in ops]))


RES_QUERIES = ["-R/cache_in/hello.txt/-/ident", "cachex.txt/-/ident/cat-a", "-R/present.txt/-/ident", "one/cat-~X~/cache_in/hello.txt/-/ident~E"]


def shared_store_task(task):
    """'fixed store contents': a store-backed cache that lives in the SAME store as the resources the queries read (cache directory
    `cache`, resources under names that merely start with that text). history: evaluate, evaluate something cacheable, clean / remove,
    evaluate again -> every outcome equals the NoCache outcome, and no store key outside the cache directory has changed.  Oracle only
    (resource segments are outside the evaluator model)."""
    kind, flat = task
    import shutil
    from liquer.cache import StoreCache, NoCache, set_cache
    from liquer.store import MemoryStore, FileStore, set_store
    from liquer.context import get_context
    import liquer.state as S
    import evalharness as H
    tmp = EP.scratch()
    bad = []
    try:
        def fill(st):
            st.store("cache_in/hello.txt", b"hello", {})
            st.store("cachex.txt", b"x", {})
            st.store("present.txt", b"present", {})
            return st

        def outside(st):
            return sorted((k, st.get_bytes(k)) for k in st.keys() if not st.is_dir(k) and not (k + "/").startswith("cache/"))
        EP.vocab.register()
        S._vars = {}
        # reference: NoCache on an identical store
        set_store(fill(MemoryStore()))
        set_cache(NoCache())
        want = {q: EP.obs_public(H.observe_nolog(lambda q=q: get_context().evaluate(q))) for q in RES_QUERIES}
        st = fill(MemoryStore() if kind == "mem" else FileStore(os.path.join(tmp, "st")))
        set_store(st)
        cache = StoreCache(st, "cache", flat=flat)
        set_cache(cache)
        before = outside(st)
        hist = []
        for step in ("E", "warm", "E", "clean", "E", "warm", "remove", "E"):
            hist.append(step)
            if step == "E":
                for q in RES_QUERIES:
                    got = EP.obs_public(H.observe_nolog(lambda q=q: get_context().evaluate(q)))
                    if got != want[q]:
                        bad.append(("shared-store:%s:%s" % (kind, q), "StoreCache(%s, 'cache', flat=%s) living in the store the resources are read from, history %s: evaluate(%r) gives %r, with NoCache %r" % (
                            kind, flat, "/".join(hist), q, got, want[q])))
            elif step == "warm":
                get_context().evaluate("one/add-1")
            elif step == "clean":
                cache.clean()
            elif step == "remove":
                cache.remove("one/add-1")
            now = outside(st)
            if now != before:
                bad.append(("shared-store-contents:%s" % kind, "StoreCache(%s, 'cache', flat=%s), history %s: store keys outside the cache directory changed from %r to %r" % (
                    kind, flat, "/".join(hist), [k for k, _ in before], [k for k, _ in now])))
                before = now
        return bad
    finally:
        shutil.rmtree(tmp, ignore_errors=True)


def shared_store_family(ctx):
    tasks = [(k, f) for k in ("mem", "file") for f in (True, False)]
    for t, bad in zip(tasks, EP.common.pmap(shared_store_task, tasks)):
        ctx.case("shared-store|%s|%s" % t)
        ctx.count("family", "store-backed cache sharing the store with the resources (oracle only)")
        for key, text in bad:
            ctx.violation(key, text, dict(kind="shared-store", store=t[0], flat=t[1]))


MUTATOR_HISTORIES = EP.MUTATOR_HISTORIES


def mutator_sessions(ctx, cfgs):
    """in-place mutators on DICTIONARY values (nested containers too): implementation-side oracle only (the model's value domain has no
    dictionaries; C10's heap model covers in-place mutation of lists): every evaluation equals the evaluation without cache"""
    tasks = [(ci, [("E", q) for q in h], {}, ("fresh",)) for ci in range(len(cfgs)) for h in MUTATOR_HISTORIES]
    judge(ctx, cfgs, tasks, EP.common.pmap(EP.run_session_task, tasks))
    ctx.count("family", "in-place mutators on dictionaries (oracle only)", len(tasks))


def run(ctx):
    shared_store_family(ctx)
    per = 150 if ctx.tier == "thorough" else 40
    cfgs, tasks = gen_sessions(ctx, per)
    mutator_sessions(ctx, cfgs)
    results = EP.common.pmap(EP.run_session_task, tasks)
    judge(ctx, cfgs, tasks, results)
    sessions = [(t[1], t[2]) for t in tasks]
    kinds = [cfgs[t[0]][2] for t in tasks]
    lines = [" | ".join(r[0] for r in res) for res in results]
    EP.model_sessions(ctx, "histories on each cache configuration vs evaluator model", sessions, kinds, lines)


def search(ctx, broken, disagreements):
    cfgs, tasks = gen_sessions(ctx, 40)
    results = EP.common.pmap(EP.run_session_task, tasks)
    judge(ctx, cfgs, tasks, results)
    if not ctx.violations:
        ctx.notes.append("enlarged search over %d further histories found no failing input" % len(tasks))


def replay(ctx, case):
    if case.get("kind") == "shared-store":
        bad = shared_store_task((case["store"], case["flat"]))
        return bad[0][1] if bad else None
    cfgs = EP.cache_configs("/nonexistent")
    ci = [c[0] for c in cfgs].index(case["config"])
    ops = [tuple(o) if o[0] != "XD" else (o[0], o[1], dict(o[2])) for o in case["ops"]]
    res = EP.run_session_task((ci, ops, case["defaults"], ("fresh",)))
    line, o, fo, _ = res[-1]
    if o is None:
        return None
    a, b = EP.obs_public(o), EP.obs_public(fo)
    return None if a == b else "with %s: %r, without cache: %r" % (case["config"], a, b)
