"""C06 — error containment: a failing step never yields a normal-looking result.

Correspondence: queries with exactly one injected failure (command raises, unknown command, unconvertible argument, too few /
too many arguments, failing nested link at depth 1-3, failing sub-evaluation) at every position, followed by 0-3 further actions,
under NoCache and MemoryCache, vs the Lean evaluator model: outcome incl. reported position and query, call log.
Oracle (implementation only): the evaluation raises or returns an error state whose get() raises; no instrumented command to the
right of the failing step ran (call log = reference interpreter's call log up to the failure); the reported query text, at the
reported offset, starts with the failing action's name (or with `~X~` for a failing link argument).
"""
import evalprops as EP
import evalharness as H
import vocab, oracle_ref

RULE = ("well-typed prefix of 0-3 actions + one failing step of each kind (raise, unknown command, bad int/float argument, too few, too many, failing "
        "absolute/relative link nested 1-3 deep, failing sub-evaluation) + 0-3 further actions, with NoCache and MemoryCache, canonical and "
        "non-canonical spellings; non-trivial = distinct (failure kind, position, suffix length)")
TRUSTED = EP.TRUSTED
ASSUMPTIONS = EP.ASSUMPTIONS + ["positions are compared for white-space-free query text (pyparsing's loc under white-space skipping is modelled, see C02)"]
EXPLANATION = "theorems in Props/C06.lean (ref_error_stops, ref_failure_is_error) and the refinement of Props/C04.lean"

FAILS = {
    "raise": lambda rng, d: "boom",
    "unknown": lambda rng, d: "zzz" + rng.choice(["", "-1", "-a-b"]),
    "bad-int": lambda rng, d: "add-" + rng.choice(["x", "1.5", "", "~~"]),
    "bad-float": lambda rng, d: "fl-" + rng.choice(["abc", "1,5", "--1"]),
    "too-few": lambda rng, d: rng.choice(["rep", "argsc", "let-a", "getvar"]),
    # also commands whose signature has a `context` parameter (it consumes no query argument)
    "too-many": lambda rng, d: rng.choice(["add-1-2", "ident-x", "cat-a-b", "bo-t-f", "one-1", "nocache-t", "nocache-1-2", "sub-one-x"]),
    "type": lambda rng, d: rng.choice(["app-x", "add-1"]) if False else "app-x",
    "link-abs": lambda rng, d: "add-" + nest(rng, d, True),
    "link-rel": lambda rng, d: "cat-" + nest(rng, d, False),
    "sub": lambda rng, d: "sub-" + H.enc(rng.choice(["one/boom", "zzz", "one/add-x", "one/(", "num-1-2"])),
}

# a referenced resource is missing (implementation-side oracle only: resource segments are outside the evaluator model): the global
# store holds `present.txt` only; (query, calls that may have been executed before the failure)
MISSING_RESOURCE = [("-R/nokey/x.txt", []), ("nokey/x.txt/-/ident", []), ("nokey/-/ident/add-1", []), ("-R/nokey/-/cat-a/boom", []),
                    ("one/cat-~X~/nokey/x.txt/-/ident~E", ["root.one(N;)"]), ("one/cat-~X~-R/nokey~E/add-1", ["root.one(N;)"]),
                    ("one/add-1/cat-~X~/nokey/-/ident/cat-b~E/cat-c", ["root.one(N;)", "root.add(I1;I1)"]), ("-R/present.txt/zz/-/ident", []),
                    # a key that exists but has no data (a directory): known finding C06-dataless-resource
                    ("-R/dir", []), ("dir/-/ident/add-1", []), ("one/cat-~X~/dir/-/ident~E", ["root.one(N;)"])]


def judge_resource(q, allowed, o):
    what = "evaluate(%r) [the resource does not exist in the store]" % q
    if o["kind"] in ("parse-error", "exception", "raised"):
        bad_calls = [c for c in o.get("calls", []) if c not in allowed]
        return ("calls:resource", "%s raised but executed %r" % (what, bad_calls)) if bad_calls else None
    if not o["is_error"]:
        return "normal:resource", "%s returned a normal-looking state with value %s" % (what, o["value"])
    if not o["get_raises"]:
        return "get:resource", "%s: state is marked as error but get() returned a value" % what
    bad_calls = [c for c in o.get("calls", []) if c not in allowed]
    if bad_calls:
        return "calls:resource", "%s executed %r although the resource to their left is missing" % (what, bad_calls)
    return None


def nest(rng, depth, absolute):
    inner = rng.choice(["boom", "zzz", "add-x", "one/rep", "one/boom/add"]) if absolute else rng.choice(["boom", "zzz-1", "add-x", "rep"])
    q = ("/" if absolute else "") + (("one/" if absolute and not inner.startswith("one") else "") + inner)
    for _ in range(depth - 1):
        q = ("/" if rng.random() < 0.5 else "") + "one/cat-~X~" + q + "~E"
    return "~X~" + q + "~E"


def good_prefix(rng, n):
    acts = []
    for i in range(n):
        if i == 0:
            acts.append(rng.choice(["one", "num-5", "hello-a", "vals-a-b", "one/add-%31", "num-~_3"]))
        else:
            acts.append(rng.choice(["add-2", "ident", "cat-x", "let-a-1", "attr1", "add-%32", "cat-a~.b", "ns-alt", "flag-b"]))
    return acts


def gen(ctx, n):
    rng = ctx.rng
    items = []
    kinds = list(FAILS)
    for i in range(n):
        kind = kinds[i % len(kinds)]
        pre = good_prefix(rng, rng.randint(0 if kind in ("unknown", "sub") else 1, 3))
        if kind == "type":
            pre = ["one"] + pre[1:]   # app on an int raises
        fail = FAILS[kind](rng, rng.randint(1, 3))
        suf = [rng.choice(["add-1", "ident", "cat-z", "let-x-y", "vol", "boom", "out.txt"]) for _ in range(rng.randint(0, 3))]
        q = "/".join(pre + [fail] + suf)
        items.append((kind, len(pre), len(suf), q, rng.choice([None, 1])))   # cache config index: None = NoCache, 1 = MemoryCache
    return items


def judge_one(kind, npre, nsuf, q, o, dflt={}):
    """None or (violation key, text). oracle on the implementation's observation only"""
    from liquer.commands import command_registry
    if "one" not in command_registry().executables.get("root", {}):
        vocab.register()
    try:
        r = oracle_ref.Ref(command_registry(), dflt).run(q)
    except Exception:
        return None
    failed_in_ref = "error" in r or "raised" in r
    if not failed_in_ref:
        return None   # the injected step did not fail after all (e.g. a type that happens to convert)
    what = "evaluate(%r) [%s failure at step %d]" % (q, kind, npre)
    if o["kind"] == "parse-error":
        return None
    if o["kind"] == "exception":
        return None   # the evaluation call itself raises: allowed
    if o["kind"] == "state":
        if not o["is_error"]:
            return "normal:" + kind, "%s returned a normal-looking state with value %s" % (what, o["value"])
        if not o["get_raises"]:
            return "get:" + kind, "%s: state is marked as error but get() returned a value" % what
        if o.get("status") != "error":
            return "status:" + kind, "%s: error state has status %r" % (what, o.get("status"))
    if not is_subsequence(o["calls"], r["calls"]):
        # a cache may skip calls of the reference interpretation, never add one: the reference stops at the failing step
        return "calls:" + kind, "%s executed %r; the reference interpretation stops after %r" % (what, o["calls"], r["calls"])
    # position: named query text at the reported offset starts with the failing action / link
    pos, qq = (o.get("pos"), o.get("query")) if o["kind"] == "raised" else (o.get("epos"), o.get("equery"))
    if qq is None or pos is None:
        return "noposition:" + kind, "%s: the failure does not name the query / position (query=%r, position=%r)" % (what, qq, pos)
    if " " in q or "\t" in q:
        return None
    tail = qq[pos:]
    ok = tail[:1].isalpha() or tail[:1] == "_" or tail.startswith("~X~")
    if ok and o["kind"] == "raised":
        ok = tail.startswith("~X~")
    if not ok:
        return "position:" + kind, "%s: reported position %d in %r points at %r, not at an action or link argument" % (what, pos, qq, tail[:12])
    if tail[:1] != "~":
        # must be the start of an action: preceded by '/' or start of text
        if pos > 0 and qq[pos - 1] not in "/":
            return "position:" + kind, "%s: reported position %d in %r is not the start of an action (%r)" % (what, pos, qq, qq[max(0, pos - 3):pos + 8])
    return None


def classify_known(q, o):
    """known finding C06-pos-subevaluation-text: a failure inside a sub-evaluation (predecessor evaluated in a child context, link
    argument, sub-query) is reported with the canonical text of that sub-query but with a position that refers to the text the
    Query object was originally parsed from (the as-typed outer text, or the re-encoded `parent + link` text). Position and named
    query are consistent exactly when the named query is a prefix of the as-typed text — that case is always checked."""
    pos, qq = (o.get("pos"), o.get("query")) if o["kind"] == "raised" else (o.get("epos"), o.get("equery"))
    if pos is None or qq is None:
        return False
    return not q.startswith(qq)


def is_subsequence(a, b):
    it = iter(b)
    return all(x in it for x in a)


def run(ctx):
    n = 6000 if ctx.tier == "thorough" else 900
    items = gen(ctx, n)
    tasks = [(cfg, [("E", q)], {}) for kind, npre, nsuf, q, cfg in items]
    results = EP.common.pmap(EP.run_session_task, tasks)
    lines = []
    for (kind, npre, nsuf, q, cfg), res in zip(items, results):
        line, o = res[0][0], res[0][1]
        lines.append(line)
        ctx.case("%s|%d|%d|%s" % (kind, npre, nsuf, "m" if cfg else "n"))
        ctx.count("failure kind", kind)
        ctx.count("outcome", o["kind"] if o["kind"] != "state" else ("error-state" if o["is_error"] else "value"))
        bad = judge_one(kind, npre, nsuf, q, o)
        if bad:
            key, text = bad
            if key.startswith("position:") and classify_known(q, o):
                key = "pos-subevaluation-text"
            else:
                key = key + ":" + q
            ctx.violation(key, text, dict(kind="fail", fkind=kind, npre=npre, nsuf=nsuf, query=q, cache=cfg))
        if len(ctx.samples) < 8 and o["kind"] in ("state", "raised"):
            ctx.sample(dict(query=q, failure=kind, outcome=o["kind"], position=o.get("epos", o.get("pos")), named_query=o.get("equery", o.get("query")), calls=o["calls"]))
    sessions = [([("E", q)], {}) for kind, npre, nsuf, q, cfg in items]
    kinds = ["1" if cfg else "N" for kind, npre, nsuf, q, cfg in items]
    EP.model_sessions(ctx, "failing queries vs evaluator model (outcome, reported position/query, calls)", sessions, kinds, lines)
    # missing resources: oracle only
    rtasks = [(cfg, [("E", q)], {}) for q, _ in MISSING_RESOURCE for cfg in (None, 1)]
    rres = [EP.run_session_task(t) for t in rtasks]
    for (cfg, ops, _), res in zip(rtasks, rres):
        q = ops[0][1]
        allowed = dict(MISSING_RESOURCE)[q]
        o = res[0][1]
        ctx.case("resource|%s|%s" % (q, "m" if cfg else "n"))
        ctx.count("failure kind", "missing resource")
        bad = judge_resource(q, allowed, o)
        if bad:
            dataless = q in ("-R/dir", "dir/-/ident/add-1", "one/cat-~X~/dir/-/ident~E")
            ctx.violation("dataless-resource" if dataless else bad[0] + ":" + q, bad[1], dict(kind="resource", query=q, cache=cfg))


def search(ctx, broken, disagreements):
    items = gen(ctx, 4000)
    results = EP.common.pmap(EP.run_session_task, [(cfg, [("E", q)], {}) for kind, npre, nsuf, q, cfg in items])
    for (kind, npre, nsuf, q, cfg), res in zip(items, results):
        bad = judge_one(kind, npre, nsuf, q, res[0][1])
        if bad and not (bad[0].startswith("position:") and classify_known(q, res[0][1])):
            ctx.violation(bad[0] + ":" + q, bad[1], dict(kind="fail", fkind=kind, npre=npre, nsuf=nsuf, query=q, cache=cfg))
            return
    ctx.notes.append("enlarged search over 4000 further failing queries found no failing input")


def replay(ctx, case):
    if case.get("kind") == "resource":
        res = EP.run_session_task((case["cache"], [("E", case["query"])], {}))
        bad = judge_resource(case["query"], dict(MISSING_RESOURCE)[case["query"]], res[0][1])
        return bad[1] if bad else None
    res = EP.run_session_task((case["cache"], [("E", case["query"])], {}))
    bad = judge_one(case["fkind"], case["npre"], case["nsuf"], case["query"], res[0][1])
    return None if not bad else bad[1]
