"""C11 — state types serialize and deserialize losslessly.

LiQuer's own logic is DISPATCH (registry look-up, default extension, media type), FRAMING (the `djson`
dictionary format) and the two own codecs (TextStateType: UTF-8 with strict decoding, BytesStateType: identity),
whose round-trip law is proved; the other codecs are third party.  Correspondence: registry look-up, dispatch
decisions of encode_state_data, JSON key escaping, `djson` text and its decoding, as_bytes / from_bytes of the text
and bytes state types (invalid UTF-8 included) vs LiquerModel.StateTypes / StateTypesCodec over the regenerated registry.  Oracle (implementation only): for every (state type, extension) pair the translator
probed as written and read, on the value domain the property quantifies over, decode(encode(x)) == x with
the same type through the recorded type identifier; copy_state_data equality and non-aliasing.
"""
import base64, glob, json, math, os, pickle, warnings
import common
from common import hx, unhxs
import gen_statetypes
from props.C03 import rand_text

RULE = ("seeded generators per (state type, extension) pair in writes∩reads (quick 60, thorough 3000 values per pair): bytes, "
        "text (non-ASCII, newlines), None/int/float (huge, negative, nan, ±inf), JSON-shaped and arbitrary-picklable dictionaries with "
        "adversarial string keys (quotes, backslashes, newlines, colons, unicode, empty), lists, pickle objects (tuples, sets, nested, "
        "class instances), data frames with mixed columns (None/NaN, empty, non-default index) in pickle/parquet/feather; "
        "non-trivial = value that is not one of the translator's probe samples")
TRUSTED = ["modelled (hand-written Lean mirror): StateTypesRegistry.get, encode_state_data / decode_state_data dispatch, media type per core state type, "
           "DictStateType djson framing, encode_element / decode_element triples, json.dumps key escaping and the JSON string scanner, "
           "TextStateType / BytesStateType as_bytes, from_bytes, copy (ownCodec; UTF-8 = Lean core's String.utf8EncodeChar / ByteArray.utf8Decode?, "
           "compared with str.encode / bytes.decode on valid and invalid input)",
           "third-party codecs (json, pickle, base64, pandas/pyarrow) are hypotheses of the theorems (CodecLaw, ElemEnvLaw): validated here differentially, not proved",
           "registry content probed from the live state type objects on the sample values listed in Gen/StateTypes.lean"]
ASSUMPTIONS = ["Python str restricted to Unicode scalar values (lone surrogates cannot be UTF-8 encoded)",
               "a value the codec refuses at encoding time (exception) is outside 'representable in the format' (counted as refused, never silently accepted)",
               "dictionaries nested inside a djson dictionary have string keys as well (the format asserts it)",
               "data frames: only pickle/pkl/parquet/feather are claimed lossless; csv/tsv/json/html are checked for decoder acceptance only"]
EXPLANATION = ("theorems: c11_dispatch (decide over the regenerated registry), c11_roundtrip_generic under CodecLaw, c11_text_codec_law / c11_bytes_codec_law "
               "(the law PROVED for the two own codecs, every scalar-value string and every byte string) and c11_own_roundtrip / c11_own_copy (no codec hypothesis), c11_key_roundtrip for every scalar-value "
               "string, c11_djson/c11_djson_elements/c11_djson_full for every dictionary under the element laws")

ADV_KEYS = ["", '"', "\\", 'a"b', "a\\b", "\n", "a\nb", ":", "a:b", '": 1, "x', "é", "𝄞", " ", " ", "a b", "\t", "\x00", "\x7f", "}", "{", ",",
            "[", "'", "key", '\\"', "\\u0041", "a" * 25, "\r\n", "\\", "日本", " ", "%s", "{0}", "null"]
LOSSLESS_FRAME_EXTS = ("pickle", "pkl", "parquet", "feather")


class Point:
    """a picklable user-defined object"""

    def __init__(self, x, y):
        self.x, self.y = x, y

    def __eq__(self, other):
        return type(other) is Point and same(self.__dict__, other.__dict__)

    def __hash__(self):
        return hash((self.x, repr(self.y)))

    def __repr__(self):
        return "Point(%r, %r)" % (self.x, self.y)


# ---------------------------------------------------------------- equality

def same(a, b):
    """type-exact structural equality, nan == nan, frames by pandas.testing"""
    if type(a) is not type(b):
        return False
    if isinstance(a, float):
        return (a == b and math.copysign(1, a) == math.copysign(1, b)) or (a != a and b != b)
    if isinstance(a, dict):
        return list(a.keys()) == list(b.keys()) and all(same(a[k], b[k]) for k in a)
    if isinstance(a, (list, tuple)):
        return len(a) == len(b) and all(same(x, y) for x, y in zip(a, b))
    if isinstance(a, (set, frozenset)):
        return len(a) == len(b) and all(any(same(x, y) for y in b) for x in a)
    mod = type(a).__module__
    if mod.startswith("pandas"):
        import pandas as pd
        try:
            pd.testing.assert_frame_equal(a, b)
            return True
        except AssertionError:
            return False
    if isinstance(a, complex):
        return same(a.real, b.real) and same(a.imag, b.imag)
    return a == b


# ---------------------------------------------------------------- generators

def gen_key(rng):
    return rng.choice(ADV_KEYS) if rng.random() < 0.6 else rand_text(rng)


def gen_bytes(rng):
    r = rng.random()
    if r < 0.1:
        return b""
    if r < 0.2:
        return bytes(range(256))
    return bytes(rng.randrange(256) for _ in range(rng.randint(1, 40)))


def gen_text(rng):
    r = rng.random()
    if r < 0.1:
        return ""
    if r < 0.3:
        return rng.choice(["a\nb\r\nc", "é€𝄞", "﻿bom", "tab\tsep", "line sep", "nul\x00", '{"json": 1}', "  lead", "trail\n"])
    return rand_text(rng) + ("\n" + rand_text(rng) if r < 0.5 else "")


def gen_int(rng):
    r = rng.random()
    if r < 0.3:
        return rng.randint(-10, 10)
    if r < 0.6:
        return rng.choice([1, -1]) * rng.randint(2 ** 31, 2 ** 70)
    return rng.choice([1, -1]) * 10 ** rng.randint(20, 60) + rng.randint(0, 9)


def gen_float(rng):
    r = rng.random()
    if r < 0.3:
        return rng.choice([float("nan"), float("inf"), float("-inf"), -0.0, 0.0, 1e308, 5e-324, 1.0, -1.5, 0.1])
    return rng.uniform(-1e6, 1e6) if r < 0.7 else rng.random() * 10 ** rng.randint(-300, 300)


def gen_generic(rng):
    r = rng.random()
    return None if r < 0.1 else gen_int(rng) if r < 0.55 else gen_float(rng)


def gen_json(rng, depth=2):
    r = rng.random()
    if depth <= 0 or r < 0.5:
        return rng.choice([None, True, False, gen_int(rng), gen_float(rng), gen_text(rng)])
    if r < 0.75:
        return [gen_json(rng, depth - 1) for _ in range(rng.randint(0, 3))]
    return {gen_key(rng): gen_json(rng, depth - 1) for _ in range(rng.randint(0, 3))}


def gen_hashable(rng):
    return rng.choice([gen_int(rng), gen_text(rng), rng.choice([1.5, float("inf")]), (1, "a"), None, b"x", True, frozenset([1, 2])])


def gen_picklable(rng, depth=2):
    r = rng.random()
    if depth <= 0 or r < 0.3:
        return rng.choice([None, True, gen_int(rng), gen_float(rng), gen_text(rng), gen_bytes(rng), complex(1, -2.5), Point(1, "y")])
    if r < 0.45:
        return [gen_picklable(rng, depth - 1) for _ in range(rng.randint(0, 3))]
    if r < 0.6:
        return tuple(gen_picklable(rng, depth - 1) for _ in range(rng.randint(0, 3)))
    if r < 0.7:
        return {gen_hashable(rng) for _ in range(rng.randint(0, 3))}
    if r < 0.8:
        return {gen_hashable(rng): gen_picklable(rng, depth - 1) for _ in range(rng.randint(0, 3))}
    if r < 0.9:
        return Point(gen_int(rng), gen_picklable(rng, depth - 1))
    return frozenset(gen_hashable(rng) for _ in range(rng.randint(0, 3)))


def gen_pickle_routed(rng):
    """values whose type is routed to the pickle state type (not bytes/str/dict/None/int/float/DataFrame)"""
    while True:
        v = gen_picklable(rng, 2)
        if type(v) in (list, tuple, set, frozenset, bool, complex, Point):
            return v


def gen_json_list(rng):
    return rng.choice([True, False]) if rng.random() < 0.15 else [gen_json(rng, 2) for _ in range(rng.randint(0, 4))]


def gen_json_dict(rng):
    return {gen_key(rng): gen_json(rng, 2) for _ in range(rng.randint(0, 5))}


def gen_member(rng, depth=2):
    """member of a djson dictionary: anything picklable, nested dictionaries string-keyed"""
    r = rng.random()
    if r < 0.35:
        return rng.choice([None, True, gen_int(rng), gen_float(rng), gen_text(rng)])
    if r < 0.5 and depth > 0:
        return {gen_key(rng): gen_member(rng, depth - 1) for _ in range(rng.randint(0, 3))}
    if r < 0.58:
        return gen_frame(rng, small=True)
    if r < 0.66:
        return gen_bytes(rng)
    return gen_pickle_routed(rng)


def gen_any_dict(rng):
    return {gen_key(rng): gen_member(rng) for _ in range(rng.randint(0, 5))}


def gen_col(rng, kind, n):
    import pandas as pd
    if kind == "int":
        return [rng.randint(-5, 5) for _ in range(n)]
    if kind == "float":
        return [rng.choice([1.5, float("nan"), -2.0, float("inf"), 0.1]) for _ in range(n)]
    if kind == "str":
        return [rng.choice(["x", "é", "", None, "a\nb", 'q"']) for _ in range(n)]
    if kind == "bool":
        return [rng.random() < .5 for _ in range(n)]
    if kind == "mixed":
        return [rng.choice([1, "a", None, 2.5]) for _ in range(n)]
    if kind == "date":
        return [pd.Timestamp("2020-01-01") + pd.Timedelta(days=rng.randint(0, 9)) for _ in range(n)]
    if kind == "intnone":
        return [rng.choice([1, None]) for _ in range(n)]
    return [None] * n


def gen_frame(rng, small=False):
    import pandas as pd
    n = rng.choice([0, 1, 2] if small else [0, 1, 2, 5, 9])
    kinds = [rng.choice(["int", "float", "str", "bool", "mixed", "date", "intnone", "allnone"]) for _ in range(rng.randint(0, 2 if small else 5))]
    df = pd.DataFrame({("c%d_%s" % (i, k)): gen_col(rng, k, n) for i, k in enumerate(kinds)})
    ix = rng.choice(["default", "shift", "str", "default"])
    if ix == "shift":
        df.index = range(3, 3 + len(df))
    elif ix == "str":
        df.index = ["r%d" % i for i in range(len(df))]
    return df


def domain(ident, ext):
    """generator of the values the property quantifies over for this (state type, extension); None = no lossless claim"""
    if ident == "bytes":
        return gen_bytes
    if ident == "text":
        return gen_text
    if ident == "generic":
        return gen_generic if ext == "json" else None
    if ident == "dictionary":
        return gen_json_dict if ext == "json" else gen_any_dict if ext == "djson" else None
    if ident == "pickle":
        return gen_pickle_routed if ext in ("pickle", "pkl") else gen_json_list if ext == "json" else None
    if ident == "dataframe":
        return gen_frame if ext in LOSSLESS_FRAME_EXTS else None
    return None


# ---------------------------------------------------------------- oracle

def describe(x):
    r = repr(x)
    return r if len(r) <= 160 else r[:157] + "..."


def oracle_rt(S, x, ident, ext):
    """round trip of one value through one (type, extension); returns None | 'refused' | failure text"""
    with warnings.catch_warnings():
        warnings.simplefilter("ignore")
        try:
            b, mime, tid = S.encode_state_data(x, extension=ext)
        except Exception as ex:
            return "refused"
        if tid != ident:
            return "value %s was encoded by state type %r, expected %r" % (describe(x), tid, ident)
        try:
            y = S.decode_state_data(b, tid, extension=ext)
        except Exception as ex:
            return "%s as .%s: the decoder selected by the recorded type identifier %r rejects the encoded bytes %r (%s: %s)" % (describe(x), ext, tid, b[:80], type(ex).__name__, str(ex)[:120])
        if not same(x, y):
            return "%s as .%s decodes to %s (type %s)" % (describe(x), ext, describe(y), type(y).__name__)
    return None


def mutate(v):
    """try to change v in place; True if something mutable was changed"""
    if isinstance(v, dict):
        v["__mutated__"] = 1
        return True
    if isinstance(v, list):
        v.append("__mutated__")
        return True
    if isinstance(v, set):
        v.add("__mutated__")
        return True
    if isinstance(v, Point):
        v.x = "__mutated__"
        return True
    if type(v).__module__.startswith("pandas"):
        v["__mutated__"] = 1
        return True
    return False


def mutate_deep(v):
    """mutate the first mutable thing found inside v (depth first), True if one was found"""
    if isinstance(v, dict):
        for k in list(v):
            if mutate_deep(v[k]):
                return True
        return mutate(v)
    if isinstance(v, (list, tuple)):
        for e in v:
            if mutate_deep(e):
                return True
        return mutate(v) if isinstance(v, list) else False
    if isinstance(v, Point):
        return mutate_deep(v.y) or mutate(v)
    return mutate(v)


def oracle_copy(S, x):
    with warnings.catch_warnings():
        warnings.simplefilter("ignore")
        try:
            before = pickle.dumps(x)
        except Exception:
            before = None
        try:
            c = S.copy_state_data(x)
        except Exception as ex:
            return "copy_state_data(%s) raised %s: %s" % (describe(x), type(ex).__name__, str(ex)[:100])
        if not same(x, c):
            return "copy_state_data(%s) = %s" % (describe(x), describe(c))
        snapshot = pickle.loads(before) if before is not None else None
        if mutate_deep(c) and snapshot is not None and not same(x, snapshot):
            return "mutating the copy of %s changed the original into %s (shared mutable structure)" % (describe(snapshot), describe(x))
    return None


def shrink_dict(S, d, ident, ext):
    """smallest sub-dictionary that still fails the round trip"""
    if not isinstance(d, dict):
        return d
    for k in d:
        one = {k: d[k]}
        r = oracle_rt(S, one, ident, ext)
        if r and r != "refused":
            for simple in (1, "x"):
                r2 = oracle_rt(S, {k: simple}, ident, ext)
                if r2 and r2 != "refused":
                    return {k: simple}
            return one
    return d


def pack(x):
    return base64.b64encode(pickle.dumps(x)).decode("ascii")


# ---------------------------------------------------------------- correspondence helpers

def scalar_field(v):
    if isinstance(v, bool) or not isinstance(v, (int, str)):
        return None
    if isinstance(v, int):
        return ("n%d" % -v) if v < 0 else ("i%d" % v)
    return "s" + hx(v)


def pairs_fields(d):
    return ["%s,%s" % (hx(k), scalar_field(v)) for k, v in d.items()]


def fmt_pairs(d):
    return "ok" + "".join(" %s,%s" % (hx(k), scalar_field(v)) for k, v in d.items())


def has_surrogate(s):
    return any(0xD800 <= ord(c) < 0xE000 for c in s)


def probe_registration(ctx):
    """histories of StateTypesRegistry.register on a FRESH registry object: a type registered again with another state type object
    (same or other identifier). Correspondence: the object found under every key vs Liquer.StateTypes.registerAll (`st.reg`).
    Oracle: after every history, for every registered Python type a value encoded by the state type its qualified name selects,
    in that state type's default format, is decoded by the state type the recorded identifier selects."""
    import liquer.state_types as S
    rng = ctx.rng

    class T0:       # three Python types of this harness
        def __init__(self, v=0):
            self.v = v

        def __eq__(self, o):
            return type(o) is type(self) and o.v == self.v

    class T1(T0):
        pass

    class T2(T0):
        pass

    def mk_state_type(name, ident, fmt):
        class ST(S.StateType):
            def identifier(self):
                return ident

            def default_extension(self):
                return fmt

            def default_filename(self):
                return "data." + fmt

            def default_mimetype(self):
                return "application/octet-stream"

            def is_type_of(self, data):
                return isinstance(data, T0)

            def as_bytes(self, data, extension=None):
                return (fmt + ":" + type(data).__name__ + ":" + str(data.v)).encode(), "application/octet-stream"

            def from_bytes(self, b, extension=None):
                f, tn, v = b.decode().split(":")
                if f != fmt:
                    raise Exception("this state type reads %s, the bytes are %s" % (fmt, f))
                return {"T0": T0, "T1": T1, "T2": T2}[tn](int(v))

            def copy(self, data):
                return type(data)(data.v)
        o = ST()
        o.verif_name = name
        return o

    objs = [mk_state_type("A", "grid", "fa"), mk_state_type("B", "grid", "fb"), mk_state_type("C", "other", "fc"), mk_state_type("D", "other", "fd")]
    types = [T0, T1, T2]
    cases, impl, reqs = [], [], []
    for trial in range(400 if ctx.tier == "thorough" else 60):
        reg = S.StateTypesRegistry()
        base = set(reg.state_types_dictionary)
        hist = [(rng.choice(types), rng.choice(objs)) for _ in range(rng.randint(1, 6))]
        for t, o in hist:
            reg.register(t, o)
        keys = sorted(k for k in reg.state_types_dictionary if k not in base)
        quals = {t: S.get_type_qualname(t) for t in types}
        probe = sorted(set(quals.values()) | {"grid", "other"})
        cases.append("register history %r" % [(t.__name__, o.verif_name) for t, o in hist])
        impl.append(",".join((hx(getattr(reg.state_types_dictionary.get(k), "verif_name", "")) if k in reg.state_types_dictionary and k not in base else "~") for k in probe))
        reqs.append("st.reg %s %s" % (",".join("%s.%s.%s" % (hx(quals[t]), hx(o.verif_name), hx(o.identifier())) for t, o in hist), ",".join(hx(k) for k in probe)))
        ctx.case("reg:%r" % [(t.__name__, o.verif_name) for t, o in hist] if len({t for t, _ in hist}) < len(hist) else None)
        ctx.count("registration histories", "length %d" % len(hist))
        # oracle: the last registration of every type round-trips through the recorded identifier
        last = {}
        for t, o in hist:
            last[t] = o
        t, o = hist[-1]
        x = t(7)
        st = reg.get(S.get_type_qualname(type(x)))
        b, _ = st.as_bytes(x)
        try:
            y = reg.get(st.identifier()).from_bytes(b)
            ok = y == x and type(y) is type(x)
            why = "decodes to %r" % (getattr(y, "v", y),)
        except Exception as ex:
            ok, why = False, "the decoder selected by the recorded identifier raises: %s" % ex
        if not ok:
            ctx.violation("registration:%s" % ",".join("%s=%s" % (t_.__name__, o_.verif_name) for t_, o_ in hist[-2:]),
                          "fresh StateTypesRegistry, register history %r: a %s value encoded by the state type its type selects (%s, identifier %r, format %s) is not read back through the recorded identifier: %s" % (
                              [(t_.__name__, o_.verif_name) for t_, o_ in hist], t.__name__, st.verif_name, st.identifier(), st.default_extension(), why),
                          dict(kind="registration", history=[(t_.__name__, o_.verif_name) for t_, o_ in hist]))
    ctx.compare("registration histories: object under every key vs registerAll (st.reg)", cases, impl, ctx.driver.ask(reqs))
    # the GLOBAL registry through the module-level helpers, with decoding done BEFORE a type is registered (a plug-in imported late):
    # encode_state_data records an identifier, decode_state_data must find the decoder registered in the meantime
    greg = S.state_types_registry()
    saved = dict(greg.state_types_dictionary)
    try:
        S.decode_state_data(b"warm-up", "text")
        S.decode_state_data(b"{}", "dictionary")
        for t, o in [(T1, objs[0]), (T2, objs[2]), (T1, objs[3])]:
            greg.register(t, o)
            x = t(5)
            b, mime, tid = S.encode_state_data(x)
            try:
                y = S.decode_state_data(b, tid)
                ok, why = (y == x and type(y) is type(x)), "decodes to %r" % (getattr(y, "v", y),)
            except Exception as ex:
                ok, why = False, "decode_state_data raises: %s" % str(ex)[:120]
            ctx.case("late-registration:%s:%s" % (t.__name__, o.verif_name))
            if not ok:
                ctx.violation("late-registration:%s" % o.verif_name, "global registry: values were decoded, THEN %s was registered with state type %s (identifier %r): "
                              "encode_state_data records %r, decode_state_data(bytes, %r): %s" % (t.__name__, o.verif_name, o.identifier(), tid, tid, why),
                              dict(kind="late-registration"))
                break
    finally:
        for k in list(greg.state_types_dictionary):
            if k not in saved:
                del greg.state_types_dictionary[k]
        greg.state_types_dictionary.update(saved)


def gen_own_text(rng):
    """strings of Unicode scalar values: ASCII, two/three/four-byte characters, boundaries of every UTF-8 length, NUL, BOM, long"""
    r = rng.random()
    if r < 0.05:
        return ""
    if r < 0.2:
        return rng.choice(["a", "\x00", "a\x00b", "\x7f", "\x80", "\u07ff", "\u0800", "\ud7ff", "\ue000", "\ufeffbom", "\ufffd", "\uffff", "\U00010000", "\U0010ffff",
                           "h\xe9\U0001d11e", "\r\n\t", "\u2028\u2029", "\xe9" * 7, "\U0001f600" * 5, "\u65e5\u672c\u8a9e"])
    if r < 0.3:
        return gen_text(rng)
    if r < 0.35:     # long
        return "".join(rng.choice(["a", "\xe9", "\u20ac", "\U0001d11e", "\n", "\x00"]) for _ in range(rng.randint(2000, 6000)))
    pools = [(0x0, 0x7f), (0x80, 0x7ff), (0x800, 0xffff), (0x10000, 0x10ffff), (0x0, 0x10ffff)]
    out = []
    for _ in range(rng.randint(1, 24)):
        lo, hi = rng.choice(pools)
        c = rng.randint(lo, hi)
        while 0xD800 <= c < 0xE000:
            c = rng.randint(lo, hi)
        out.append(chr(c))
    return "".join(out)


INVALID_UTF8 = [b"\x80", b"\xbf", b"\xc3", b"a\xc3", b"\xc3a", b"\xc0\x80", b"\xc1\xbf", b"\xe0\x80\x80", b"\xe0\x9f\xbf", b"\xe2\x82", b"\xe2\x82a",
                b"\xed\xa0\x80", b"\xed\xbf\xbf", b"\xed\xa0\x81\xed\xb0\x80", b"\xf0\x80\x80\x80", b"\xf0\x8f\xbf\xbf", b"\xf0\x9d\x84", b"\xf0\x9d",
                b"\xf4\x90\x80\x80", b"\xf5\x80\x80\x80", b"\xf8\x88\x80\x80\x80", b"\xfe", b"\xff", b"\xff\xfe", b"ok\xffok", b"\xe9", b"h\xe9llo",
                b"\xc3\xa9\xc3", b"\xef\xbb", b"\x00\x80"]
VALID_EDGE_UTF8 = [b"", b"\x00", b"\x7f", b"\xc2\x80", b"\xdf\xbf", b"\xe0\xa0\x80", b"\xed\x9f\xbf", b"\xee\x80\x80", b"\xef\xbf\xbf", b"\xf0\x90\x80\x80",
                   b"\xf4\x8f\xbf\xbf", b"\xef\xbb\xbfbom", b"\xef\xbf\xbd"]


def gen_own_bytes_to_decode(rng):
    """byte strings handed to TextStateType.from_bytes: valid UTF-8, the classic invalid forms, random bytes, damaged valid text"""
    r = rng.random()
    if r < 0.2:
        return rng.choice(INVALID_UTF8)
    if r < 0.3:
        return rng.choice(VALID_EDGE_UTF8)
    if r < 0.5:
        return gen_own_text(rng).encode("utf-8")
    if r < 0.7:
        return bytes(rng.randrange(256) for _ in range(rng.randint(1, 12)))
    b = bytearray(gen_own_text(rng).encode("utf-8") or b"\xc3\xa9")
    for _ in range(rng.randint(1, 2)):      # damage: delete / overwrite / insert one byte
        i = rng.randrange(len(b)) if b else 0
        k = rng.random()
        if k < 0.4 and b:
            del b[i]
        elif k < 0.8 and b:
            b[i] = rng.choice([0x80, 0xbf, 0xc0, 0xe0, 0xed, 0xf0, 0xf4, 0xf5, 0xff, rng.randrange(256)])
        else:
            b.insert(i, rng.choice([0x80, 0xc3, 0xe2, 0xf0, 0xff]))
    return bytes(b)


def probe_own_codecs(ctx):
    """the two codecs that are LiQuer's own code (TextStateType: UTF-8 / strict decoding, BytesStateType: identity) vs the model
    `Liquer.StateTypes.ownCodec` the theorems c11_text_codec_law / c11_bytes_codec_law / c11_own_roundtrip are about (`st.own`).
    Oracle on the way: from_bytes(as_bytes(s)) == s for every generated string, copy() returns an equal value."""
    import liquer.state_types as S
    rng = ctx.rng
    T, B = S.TextStateType(), S.BytesStateType()
    n = 4000 if ctx.tier == "thorough" else 500
    stream = "own codecs: TextStateType / BytesStateType as_bytes, from_bytes vs ownCodec (st.own)"
    cases, impl, reqs = [], [], []

    def ext_of():
        return rng.choice([None, "txt", "html", "json", "csv", "b", "zzz", "png"])

    def call(f, *a):
        try:
            return f(*a)
        except Exception as ex:
            return ex

    # ---- text: as_bytes
    texts = ["", "h\xe9\U0001d11e", "\x00", "\ufeff"] + [gen_own_text(rng) for _ in range(n)]
    for s in texts:
        if has_surrogate(s):
            continue
        e = ext_of()
        r = call(T.as_bytes, s, e)
        cases.append("text as_bytes(%s, %r)" % (describe(s)[:60], e))
        impl.append("raise" if isinstance(r, Exception) else "ok " + hx(r[0]))
        reqs.append("st.own text enc %s %s" % (hx(e or T.default_extension()), hx(s)))
        ctx.case("own:text:%s" % describe(s)[:40] if s not in ("", "h\xe9llo\n") else None)
        ctx.count("own codec inputs", "text to encode: " + ("empty" if not s else "ascii" if s.isascii() else "astral" if any(ord(c) > 0xffff for c in s) else "non-ascii BMP"))
        if not isinstance(r, Exception):
            back = call(T.from_bytes, r[0], e)
            if isinstance(back, Exception) or back != s or type(back) is not str:
                ctx.violation("own:text:%s" % describe(s)[:80], "TextStateType: %s written as .%s reads back as %s" % (describe(s), e, describe(back)),
                              dict(kind="rt", ident="text", ext=e or "txt", value=pack(s), repr=describe(s)))
            c = call(T.copy, s)
            if isinstance(c, Exception) or c != s:
                ctx.violation("own:textcopy:%s" % describe(s)[:80], "TextStateType.copy(%s) = %s" % (describe(s), describe(c)), dict(kind="copy", value=pack(s), repr=describe(s)))
    # ---- text: from_bytes, valid and INVALID UTF-8 (Python raises UnicodeDecodeError, the model answers `raise`)
    blobs = INVALID_UTF8 + VALID_EDGE_UTF8 + [gen_own_bytes_to_decode(rng) for _ in range(2 * n)]
    for b in blobs:
        e = ext_of()
        r = call(T.from_bytes, b, e)
        cases.append("text from_bytes(%r, %r)" % (b[:40], e))
        impl.append("raise" if isinstance(r, Exception) else "UNMODELLED-IMPL" if has_surrogate(r) else "ok " + hx(r))
        reqs.append("st.own text dec %s %s" % (hx(e or T.default_extension()), hx(b)))
        ctx.count("own codec inputs", "bytes to decode as text: " + ("invalid UTF-8 (raises)" if isinstance(r, Exception) else "valid UTF-8"))
        if not isinstance(r, Exception):      # exactness: what decodes encodes back to the very same bytes
            again = call(T.as_bytes, r)
            if isinstance(again, Exception) or again[0] != b:
                ctx.violation("own:textexact:%s" % b[:40].hex(), "TextStateType.from_bytes(%r) = %s, which is written as %r" % (b[:80], describe(r), again if isinstance(again, Exception) else again[0][:80]),
                              dict(kind="textexact", bytes=b.hex()))
    # ---- bytes: both directions
    for b in [b"", bytes(range(256)), b"\x00", b"\xff\xfe"] + [gen_bytes(rng) for _ in range(n // 2)]:
        for op, f in (("enc", lambda x, e: B.as_bytes(x, e)[0]), ("dec", B.from_bytes)):
            e = ext_of()
            r = call(f, b, e)
            cases.append("bytes %s(%r, %r)" % (op, b[:40], e))
            impl.append("raise" if isinstance(r, Exception) else "ok " + hx(r) if type(r) is bytes else "BADTYPE")
            reqs.append("st.own bytes %s %s %s" % (op, hx(e or B.default_extension()), hx(b)))
        c = call(B.copy, b)
        if isinstance(c, Exception) or c != b or type(c) is not bytes:
            ctx.violation("own:bytescopy:%s" % b[:40].hex(), "BytesStateType.copy(%r) = %r" % (b[:80], c), dict(kind="copy", value=pack(b), repr=describe(b)))
        ctx.count("own codec inputs", "byte strings through BytesStateType")
    model = ctx.driver.ask(reqs)
    if model is not None:
        model = ["UNMODELLED" if a == "UNMODELLED-IMPL" else m for a, m in zip(impl, model)]
    ctx.compare(stream, cases, impl, model)


def run(ctx):
    import liquer.state_types as S
    import liquer.constants as K
    rng = ctx.rng
    probe_registration(ctx)
    probe_own_codecs(ctx)
    sv = gen_statetypes.survey()
    reg = S.state_types_registry()
    rows = {r["ident"]: r for r in sv["rows"]}
    N = 3000 if ctx.tier == "thorough" else 60

    # ---- corpus first (minimised past failures)
    for p in sorted(glob.glob(os.path.join(common.VERIF, "corpus", "C11", "*.json"))):
        case = json.load(open(p))["case"]
        ctx.case("corpus:" + os.path.basename(p))
        still = replay(ctx, case)
        if still:
            ctx.violation("corpus:" + os.path.basename(p), still, case)

    # ---- oracle: every (type, extension) in writes ∩ reads
    pairs = 0
    for ident in sorted(rows):
        r = rows[ident]
        both = [e for e, _ in r["writes"] if e in r["reads"]]
        if r["default"] not in both:
            ctx.violation("default-ext:%s" % ident, "default extension %r of state type %r is not both written and read (writes %r, reads %r)" % (r["default"], ident, [e for e, _ in r["writes"]], r["reads"]),
                          dict(kind="default", ident=ident))
        exts = both
        if ident in ("bytes", "text"):   # every extension behaves alike: default, two known and the unknown one
            exts = [e for e in both if e in (r["default"], "json", "csv", "zzz")]
        for ext in exts:
            g = domain(ident, ext)
            if g is None:
                ctx.count("pairs", "no lossless claim (acceptance only): %s.%s" % (ident, ext))
                continue
            pairs += 1
            refused = 0
            for i in range(N):
                x = g(rng)
                ctx.case("%s.%s:%s" % (ident, ext, describe(x)[:60]))
                for e in ([ext, None] if ext == r["default"] else [ext]):
                    bad = oracle_rt(S, x, ident, e)
                    if bad == "refused":
                        refused += 1
                    elif bad:
                        xs = shrink_dict(S, x, ident, e)
                        bad = oracle_rt(S, xs, ident, e) or bad
                        ctx.violation("rt:%s:%s:%s" % (ident, e, describe(xs)[:80]), bad, dict(kind="rt", ident=ident, ext=e, value=pack(xs), repr=describe(xs)))
                if i < N // 3 + 1:
                    bad = oracle_copy(S, x)
                    if bad:
                        ctx.violation("copy:%s:%s" % (ident, describe(x)[:80]), bad, dict(kind="copy", value=pack(x), repr=describe(x)))
                if i == 0:
                    ctx.sample(dict(state_type=ident, extension=ext, value=describe(x)[:80]))
            ctx.count("values", "%s.%s" % (ident, ext), N)
            if refused:
                ctx.count("refused by the codec at encoding time", "%s.%s" % (ident, ext), refused)
    ctx.count("pairs", "(type, extension) pairs with a lossless claim", pairs)
    # acceptance-only formats of data frames: the decoder selected by the identifier must accept the bytes
    if "dataframe" in rows:
        r = rows["dataframe"]
        for ext in [e for e, _ in r["writes"] if e in r["reads"] and e not in LOSSLESS_FRAME_EXTS]:
            for i in range(max(10, N // 20)):
                x = gen_frame(rng)
                if not len(x.columns):
                    continue      # a frame without columns has no representation in the text formats
                try:
                    with warnings.catch_warnings():
                        warnings.simplefilter("ignore")
                        b, m, t = S.encode_state_data(x, ext)
                except Exception:
                    continue
                try:
                    with warnings.catch_warnings():
                        warnings.simplefilter("ignore")
                        S.decode_state_data(b, t, ext)
                except Exception as ex:
                    ctx.violation("accept:dataframe:%s:%s" % (ext, describe(list(x.columns))[:60]), "data frame with columns %r (%d rows) written as .%s is rejected by its own decoder (%s: %s)" % (list(x.columns), len(x), ext, type(ex).__name__, str(ex)[:100]),
                                  dict(kind="rt-accept", ext=ext, value=pack(x), repr=describe(x)))

    # ---- correspondence 1: registry look-up by qualified name / identifier / unknown names
    names = sorted(set([k for k, _, _ in sv["dict"]] + [r["ident"] for r in sv["rows"]] + ["builtins.list", "builtins.bool", "builtins.tuple", "builtins.set", "collections.OrderedDict",
                   "props.C11.Point", "numpy.ndarray", "", "Dictionary", "pickle ", "generic\n"] + [rand_text(rng) for _ in range(200)]))
    names = [n for n in names if not has_surrogate(n)]
    probed = set(rows)
    impl, keep = [], []
    for n in names:
        i = reg.get(n).identifier()
        if i not in probed:
            continue
        keep.append(n)
        impl.append(hx(i))
    ctx.compare("registry.get", keep, impl, ctx.driver.ask(["st.get " + hx(n) for n in keep]))

    # ---- correspondence 2: dispatch decisions of encode_state_data on benign values x every candidate extension
    benign = {"bytes": [b"ab"], "text": ["hé"], "dictionary": [{"k": 1}], "generic": [None, 7, 2.5], "pickle": [[1, "a"], True]}
    try:
        import pandas as pd
        benign["dataframe"] = [pd.DataFrame({"a": [1, 2], "b": ["x", "y"]})]
    except ImportError:
        pass
    cases, impl, lines = [], [], []
    for ident, vals in benign.items():
        if ident not in rows:
            continue
        for v in vals:
            q = S.get_type_qualname(type(v))
            for ext in sv["exts"] + [None]:
                with warnings.catch_warnings():
                    warnings.simplefilter("ignore")
                    try:
                        b, mime, tid = S.encode_state_data(v, extension=ext)
                        used = ext if ext is not None else reg.get(tid).default_extension()
                        a = "ok %s %s %s" % (hx(tid), hx(used), hx(mime))
                    except BaseException:
                        a = "raise"
                cases.append("%s as .%s" % (describe(v)[:40], ext))
                impl.append(a)
                lines.append("st.enc %s %s" % (hx(q), "NONE" if ext is None else hx(ext)))
    ctx.compare("encode_state_data dispatch (type, extension, media type)", cases, impl, ctx.driver.ask(lines))
    # TYPE_IDENTIFIER_BY_EXTENSION / MIMETYPES are what the model was generated from: report the extension -> type map inconsistencies as notes
    for e, t in K.TYPE_IDENTIFIER_BY_EXTENSION.items():
        if t in rows and e not in rows[t]["reads"] and any(e == w for w, _ in rows[t]["writes"]):
            ctx.notes.append("TYPE_IDENTIFIER_BY_EXTENSION maps .%s to %r, which writes but does not read it" % (e, t))

    # ---- correspondence 3: JSON escaping of keys
    keys = ADV_KEYS + [chr(c) for c in list(range(0x0, 0x300)) + [0x7ff, 0x800, 0xd7ff, 0xe000, 0xffff, 0x10000, 0x10ffff, 0x1d11e]] + [rand_text(rng) for _ in range(3000 if ctx.tier == "thorough" else 600)]
    if ctx.tier == "thorough":
        keys += [chr(c) for c in range(0x300, 0x110000, 7) if not 0xD800 <= c < 0xE000]
    ctx.compare("json.dumps(key)", keys, [hx(json.dumps(k)[1:-1]) for k in keys], ctx.driver.ask(["st.esc " + hx(k) for k in keys]))
    esc = [json.dumps(k)[1:] + rng.choice(["", ": 1", "x"]) for k in keys]
    impl = []
    for t in esc:
        try:
            s, end = json.decoder.scanstring(t, 0)
            impl.append("UNMODELLED-IMPL" if has_surrogate(s) else "ok %s %s" % (hx(s), hx(t[end:])))
        except Exception:
            impl.append("none")
    ctx.compare("json string scanner", esc, impl, ctx.driver.ask(["st.unesc " + hx(t) for t in esc]))

    # ---- correspondence 4: djson text and its decoding for dictionaries of ints / strings
    D = S.DictStateType()
    nd = 2000 if ctx.tier == "thorough" else 400
    dicts = [{}, {'a"b': 1}, {"": "", "\\": -1}]
    for _ in range(nd):
        dicts.append({gen_key(rng): (gen_int(rng) if rng.random() < 0.5 else gen_text(rng)) for _ in range(rng.randint(0, 5))})
    dicts = [d for d in dicts if not any(has_surrogate(k) or (isinstance(v, str) and has_surrogate(v)) for k, v in d.items())]
    cases, impl, lines, texts = [], [], [], []
    for d in dicts:
        try:
            t = D.as_bytes(d, "djson")[0].decode("utf-8")
            impl.append(hx(t))
            texts.append(t)
        except Exception as ex:
            impl.append("raise " + type(ex).__name__)
        cases.append(describe(d))
        lines.append(" ".join(["st.djson"] + pairs_fields(d)))
        ctx.case("djson:" + describe(d)[:60])
    ctx.compare("djson text (as_bytes)", cases, impl, ctx.driver.ask(lines))
    # decoding: the texts themselves and single-character deletions of some of them
    muts = list(texts)
    for t in texts[:150]:
        if len(t) > 4:
            i = rng.randrange(len(t))
            muts.append(t[:i] + t[i + 1:])
    impl = []
    for t in muts:
        try:
            d = D.from_bytes(t.encode("utf-8"), "djson")
            if not isinstance(d, dict) or any(scalar_field(v) is None or has_surrogate(k) or (isinstance(v, str) and has_surrogate(v)) for k, v in d.items()):
                impl.append("UNMODELLED-IMPL")
            else:
                impl.append(fmt_pairs(d))
        except Exception:
            impl.append("none")
    model = ctx.driver.ask(["st.undjson " + hx(t) for t in muts])
    if model is not None:
        model = ["UNMODELLED" if a == "UNMODELLED-IMPL" else m for a, m in zip(impl, model)]
    ctx.compare("djson decoding (from_bytes)", muts, impl, model)
    ctx.sample(dict(djson_of=describe(dicts[1]), text=texts[1] if len(texts) > 1 else None))


def search(ctx, broken, disagreements):
    """enlarged failing-input search: dictionaries over the adversarial key set, every member kind"""
    import liquer.state_types as S
    rng = ctx.rng
    n = 0
    for k in ADV_KEYS:
        for v in (1, "x", None, [1], {"n": (1,)}, (1, 2), b"\x00"):
            n += 1
            bad = oracle_rt(S, {k: v}, "dictionary", "djson")
            if bad and bad != "refused":
                ctx.violation("rt:dictionary:djson:%s" % describe({k: v})[:80], bad, dict(kind="rt", ident="dictionary", ext="djson", value=pack({k: v}), repr=describe({k: v})))
                return
    for _ in range(20000):
        n += 1
        ident, ext, g = rng.choice([("dictionary", "djson", gen_any_dict), ("dictionary", "json", gen_json_dict), ("generic", "json", gen_generic), ("pickle", "pickle", gen_pickle_routed), ("text", "txt", gen_text)])
        x = g(rng)
        bad = oracle_rt(S, x, ident, ext)
        if bad and bad != "refused":
            ctx.violation("rt:%s:%s:%s" % (ident, ext, describe(x)[:80]), bad, dict(kind="rt", ident=ident, ext=ext, value=pack(x), repr=describe(x)))
            return
    ctx.notes.append("enlarged search over %d values found no failing input" % n)


def replay(ctx, case):
    import liquer.state_types as S
    gen_statetypes.import_registering_modules()
    if case["kind"] == "rt":
        x = pickle.loads(base64.b64decode(case["value"]))
        r = oracle_rt(S, x, case["ident"], case["ext"])
        return None if r in (None, "refused") else r
    if case["kind"] == "rt-accept":
        x = pickle.loads(base64.b64decode(case["value"]))
        try:
            b, m, t = S.encode_state_data(x, case["ext"])
            S.decode_state_data(b, t, case["ext"])
        except Exception as ex:
            return "%s: %s" % (type(ex).__name__, str(ex)[:200])
        return None
    if case["kind"] == "copy":
        return oracle_copy(S, pickle.loads(base64.b64decode(case["value"])))
    if case["kind"] == "textexact":
        b = bytes.fromhex(case["bytes"])
        try:
            t = S.TextStateType().from_bytes(b)
        except Exception:
            return None
        again = S.TextStateType().as_bytes(t)[0]
        return None if again == b else "TextStateType.from_bytes(%r) = %r, which is written as %r" % (b, t, again)
    if case["kind"] == "default":
        sv = gen_statetypes.survey()
        for r in sv["rows"]:
            if r["ident"] == case["ident"]:
                both = [e for e, _ in r["writes"] if e in r["reads"]]
                return None if r["default"] in both else "default extension %r not in writes∩reads" % r["default"]
        return None
    if case["kind"] in ("registration", "late-registration"):
        c2 = type(ctx)("C11", ctx.tier, ctx.seed)
        c2.driver.available = False
        probe_registration(c2)
        hit = [v["what"] for v in c2.violations]
        return hit[0] if hit else None
    return "unknown replay kind"
