"""C16 — a crash during a file-backed write never leaves a corrupt readable entry.

The real operation runs in a forked child whose file-system entry points (`open`/`io.open`, `os.open`, `os.fdopen`,
file `write`/`close`, `os.replace`/`rename`, `os.remove`/`unlink`, `os.mkdir`, `os.rmdir`) are wrapped: every call that
changes the scratch directory is one step; the child `os._exit`s after step i, or inside the write that would be
step i+1 (0 bytes, half, all but one byte).  A fresh object then reads.  Every i of every scenario is enumerated.

Oracle: the read is a miss, the complete previous entry or the complete new entry; another key reads as before.
Correspondence: LiquerModel/CrashSteps.lean predicts, per crash point, the directory content (names, lengths) and
the class of every read; the sequence of steps the model issues is compared with the observed one.
"""
import os, io, sys, json, glob, shutil, hashlib, builtins, multiprocessing, pickle
import common
from common import hx

RULE = ("backends {FileCache, XORFileCache, FernetFileCache, FileStore, StoreCache flat + nested on FileStore} x operations {store on a fresh key, "
        "store over an entry of the same type, store over an entry of another type, store_metadata, remove} x value types "
        "{text, bytes, dictionary/json, pickle} x every file-system step boundary and, for every write, three partial writes "
        "(exhaustive in both tiers; quick uses text and dictionary); non-trivial = crash point strictly inside the operation")
TRUSTED = ["modelled: the file operations of FileCache.store/store_metadata/remove/get/get_metadata (and subclasses), FileStore.store/"
           "store_metadata/remove/get_bytes/get_metadata, StoreCache.store/store_metadata/remove/get on a FileStore (LiquerModel/CrashSteps.lean)",
           "POSIX file operations at the granularity of one Python-level call; completed calls are applied in order",
           "the interposition layer of this harness (wrappers around open/os.* installed in the forked child)"]
ASSUMPTIONS = ["a crash is the death of the process between two Python-level file operations or inside a write; torn sectors, fsync / "
               "write-back reordering and directory-entry durability are below the model",
               "os.replace is atomic; tempfile.mkstemp returns a name not in use",
               "keys of the directory store are made of plain components (no '__metadata__', '.', '..', empty components)"]
EXPLANATION = ("theorems: for the step lists of store / store_metadata / remove of the file cache (any codec) and of the directory store, every "
               "crash point and every prefix of every write leaves a read that is a miss, the old entry or the new entry, and leaves other "
               "keys' reads unchanged; payloads of any length, decoders only assumed to accept complete payloads")

KEY, OTHER = "q/key-1", "q/other"
SKEY, SOTHER = "d/sub/item.txt", "d/sub/other.txt"
VALS = {"text": ("old text value", "NEW text value, longer"), "bytes": (b"\x00old-bytes\xff", b"\x01NEW-bytes-longer\xfe"),
        "dictionary": ({"old": 1}, {"new": [1, 2, 3]}), "pickle": ([1, "old"], [2, "new", 3.5])}
OTHER_TYPE = {"text": {"k": "other type"}, "bytes": "text instead", "dictionary": "text instead", "pickle": "text instead"}
BACKENDS = ["filecache", "xor", "fernet", "filestore", "sc-flat", "sc-nested"]
SCENARIOS = ["store-fresh", "store-over", "store-over-type", "storem", "remove", "store-after-crashed-remove"]
# "store-after-crashed-remove": the old entry (of another type) was being removed when the process died after the first file operation of
# remove(); then a store of the new value is crashed at every point. Two crashes in a row; oracle only (the model starts from complete entries).
ORACLE_ONLY = {"store-after-crashed-remove"}
XOR_CODE = bytes([0x5A, 0x13, 0xC7, 0x2E, 0x91, 0x7F, 0x08])
FERNET_KEY = b"Zm9yLXZlcmlmaWNhdGlvbi1vbmx5LTMyLWJ5dGVzISE="


def tok(v):
    return type(v).__name__ + ":" + repr(v)


_L = {}


def L():
    if not _L:
        import liquer.cache as C
        import liquer.store as S
        from liquer.state import State
        from liquer.state_types import state_types_registry, type_identifier_of
        import tempfile, pathlib  # noqa: imported before any wrapper is installed
        _L.update(C=C, S=S, State=State, reg=state_types_registry, tid=type_identifier_of)
    return _L


# ---------------------------------------------------------------- interposition (child only)
class Crash:
    def __init__(self, root, stop_after, cut, buffered=False):
        self.root, self.stop_after, self.cut, self.n, self.trace = os.path.realpath(root), stop_after, cut, 0, []
        # buffered: what a process writes reaches the file only when the file is closed (Python's write buffer is lost by a kill):
        # the worst case for a protocol that publishes (renames) a file it has not closed yet
        self.buffered = buffered

    def mine(self, p):
        try:
            p = os.path.realpath(os.fspath(p))
        except TypeError:
            return False
        return p == self.root or p.startswith(self.root + os.sep)

    def done(self, kind, path, extra=None):
        self.n += 1
        self.trace.append((kind, os.path.relpath(os.path.realpath(os.fspath(path)), self.root), extra))
        if self.cut is None and self.n == self.stop_after:
            self.finish()

    def finish(self):
        os._exit(0)


class FileProxy:
    def __init__(self, f, path, cr):
        self._f, self._p, self._cr, self._closed = f, path, cr, False

    def write(self, b):
        cr = self._cr
        if cr.cut is not None and cr.n == cr.stop_after:
            k = {"0": 0, "half": len(b) // 2, "last": max(len(b) - 1, 0)}[cr.cut]
            self._f.write(b[:k])
            self._f.flush()
            cr.trace.append(("partial", os.path.relpath(os.path.realpath(self._p), cr.root), k))
            cr.finish()
        if cr.buffered:
            self._pending = getattr(self, "_pending", b"") + bytes(b)
            r = len(b)
        else:
            r = self._f.write(b)
            self._f.flush()
        cr.done("a", self._p, len(b))
        return r

    def close(self):
        if not self._closed:
            self._closed = True
            if getattr(self, "_pending", None):
                self._f.write(self._pending)
            self._f.close()
            self._cr.done("x", self._p)

    def __enter__(self):
        return self

    def __exit__(self, *a):
        self.close()

    def __getattr__(self, name):
        return getattr(self._f, name)


def install(cr):
    real_open, real_os_open, real_fdopen = builtins.open, os.open, os.fdopen
    fd_paths = {}

    def w_open(file, mode="r", *a, **kw):
        if isinstance(file, int):
            f = real_open(file, mode, *a, **kw)
            if file in fd_paths and any(c in mode for c in "wax+"):
                return FileProxy(f, fd_paths.pop(file), cr)
            return f
        writing = any(c in mode for c in "wax+") and cr.mine(file)
        f = real_open(file, mode, *a, **kw)
        if writing:
            cr.done("c", file)
            return FileProxy(f, os.fspath(file), cr)
        return f

    def w_os_open(path, flags, *a, **kw):
        fd = real_os_open(path, flags, *a, **kw)
        if (flags & os.O_CREAT) and cr.mine(path):
            fd_paths[fd] = os.fspath(path)
            cr.done("c", path)
        return fd

    def wrap1(name, kind):
        real = getattr(os, name)

        def w(path, *a, **kw):
            r = real(path, *a, **kw)
            if cr.mine(path):
                cr.done(kind, path)
            return r
        return w

    def wrap2(name):
        real = getattr(os, name)

        def w(src, dst, *a, **kw):
            r = real(src, dst, *a, **kw)
            if cr.mine(dst):
                cr.done("r", dst, os.path.relpath(os.path.realpath(os.fspath(src)), cr.root))
            return r
        return w

    builtins.open = w_open
    io.open = w_open
    os.open = w_os_open
    os.fdopen = w_open
    unl = wrap1("unlink", "u")
    os.unlink = unl
    os.remove = unl
    os.mkdir = wrap1("mkdir", "m")
    os.rmdir = wrap1("rmdir", "d")
    os.replace = wrap2("replace")
    os.rename = wrap2("rename")


# ---------------------------------------------------------------- the back-ends
def make_cache(backend, root):
    l = L()
    C, S = l["C"], l["S"]
    if backend == "filecache":
        return C.FileCache(root)
    if backend == "xor":
        return C.XORFileCache(root, XOR_CODE)
    if backend == "fernet":
        return C.FernetFileCache(root, FERNET_KEY)
    if backend == "filestore":
        return S.FileStore(root)
    return C.StoreCache(S.FileStore(root), "cache", flat=(backend == "sc-flat"))


def is_cache(backend):
    return backend != "filestore"


def mk_state(key, v, rest):
    s = L()["State"]().with_data(v)
    s.metadata.update(query=key, status="evaluation", message=rest, attributes={})
    return s


def mk_meta(key, tid, status, rest):
    md = dict(L()["State"]().metadata)
    md.update(query=key, status=status, type_identifier=tid, message=rest, attributes={})
    return md


def do_store(backend, obj, key, v, rest):
    if is_cache(backend):
        obj.store(mk_state(key, v, rest))
    else:
        t = L()["reg"]().get(L()["tid"](v))
        obj.store(key, t.as_bytes(v)[0], mk_meta(key, L()["tid"](v), "ready", rest))


def do_storem(backend, obj, key, tid, rest):
    if is_cache(backend):
        obj.store_metadata(mk_meta(key, tid, "ready", rest))
    else:
        obj.store_metadata(key, mk_meta(key, tid, "ready", rest))


def canon_meta(md):
    if md is None:
        return None
    return (md.get("query"), md.get("status"), md.get("type_identifier"), md.get("message"))


def reads(backend, root, key):
    """what a fresh object answers for `key` -> tuple of canonical reads (None = nothing)"""
    obj = make_cache(backend, root)
    if is_cache(backend):
        try:
            g = obj.get(key)
            g = None if g is None else (canon_meta(g.metadata), tok(g.data))
        except Exception as ex:
            g = None if type(ex).__name__ == "KeyNotFoundStoreException" else ("EXC", type(ex).__name__)
        if backend.startswith("sc-"):
            return (g,)
        try:
            m = canon_meta(obj.get_metadata(key))
        except Exception as ex:
            m = ("EXC", type(ex).__name__)
        return (g, m)
    try:
        b = obj.get_bytes(key)
    except Exception:
        b = None
    try:
        md = obj.get_metadata(key)
        m = None if (md.get("status") == "external" or md.get("fileinfo", {}).get("is_dir")) else canon_meta(md)
    except Exception:
        m = None
    return (b, m)


def classify(r, old, new):
    return "miss" if r is None else "old" if r == old else "new" if r == new else "other"


# ---------------------------------------------------------------- canonical directory content
def listing_flat(root, keys):
    rev = {hashlib.md5(k.encode()).hexdigest(): k for k in keys}
    out_, files = [], {}
    for f in sorted(os.listdir(root)):
        n = os.path.getsize(os.path.join(root, f))
        content = open(os.path.join(root, f), "rb").read()
        if f.startswith("tmp_"):
            name = "T.0"
        elif f.startswith("state_") and f.endswith(".json"):
            name = "S." + hx(rev.get(f[6:-5], f[6:-5]))
        elif f.startswith("data_"):
            d, e = f[5:].split(".", 1)
            name = "D.%s.%s" % (hx(rev.get(d, d)), hx(e))
        else:
            name = "X." + hx(f)
        out_.append("%s:%d" % (name, n))
        files[name] = content
    return ",".join(sorted(out_)) or "-", files


def listing_tree(root):
    out_, nodes = [], {}
    for dp, dns, fns in os.walk(root):
        rel = os.path.relpath(dp, root)
        parts = [] if rel == "." else rel.split(os.sep)
        for nm in dns + fns:
            p = parts + [nm]
            isdir = nm in dns
            if "__metadata__" in p:
                i = p.index("__metadata__")
                base, restp = p[:i], p[i + 1:]
                if not restp:
                    name = "H." + hx("/".join(base))
                elif restp[0].startswith("tmp_"):
                    name = "T." + hx("/".join(base))
                elif restp[0].endswith(".json") and len(restp) == 1:
                    name = "M." + hx("/".join(base + [restp[0][:-5]]))
                else:
                    name = "X." + hx("/".join(p))
            else:
                name = "N." + hx("/".join(p))
            if isdir:
                out_.append(name + ":/")
                nodes[name] = None
            else:
                b = open(os.path.join(dp, nm), "rb").read()
                out_.append("%s:%d" % (name, len(b)))
                nodes[name] = b
    return ",".join(sorted(out_)) or "-", nodes


# ---------------------------------------------------------------- one scenario
def run_child(backend, run, action, stop_after, cut, buffered=False):
    r, w = os.pipe()
    pid = os.fork()
    if pid == 0:
        try:
            os.close(r)
            obj = make_cache(backend, run)
            cr = Crash(run, stop_after, cut, buffered)
            real_exit = os._exit

            def fin():
                try:
                    os.write(w, pickle.dumps(cr.trace))
                finally:
                    real_exit(0)
            cr.finish = fin
            install(cr)
            try:
                action(obj)
            except BaseException:
                pass
            fin()
        finally:
            os._exit(1)
    os.close(w)
    chunks = []
    while True:
        b = os.read(r, 65536)
        if not b:
            break
        chunks.append(b)
    os.close(r)
    os.waitpid(pid, 0)
    try:
        return pickle.loads(b"".join(chunks))
    except Exception:
        return None


def meta_wire(cm, sep):
    q, s, t, msg = cm
    return sep.join([hx(q or ""), hx(s or ""), hx(t or ""), "0", "-", hx(msg or "")])


def scenario(args):
    backend, scen, vt = args
    l = L()
    key, other = (SKEY, SOTHER) if backend == "filestore" else (KEY, OTHER)
    old_v, new_v = VALS[vt]
    if scen in ("store-over-type", "store-after-crashed-remove"):
        old_v = OTHER_TYPE[vt]
    base = common.scratch_dir("liquer-verif-c16-")
    res = dict(backend=backend, scen=scen, vt=vt, points=[], violations=[], note=None)
    try:
        root0 = os.path.join(base, "base")
        os.makedirs(root0)
        obj = make_cache(backend, root0)
        do_store(backend, obj, other, "neighbour value", "RESTother")
        if scen != "store-fresh":
            do_store(backend, obj, key, old_v, "RESTold")
        if scen == "store-after-crashed-remove":
            run_child(backend, root0, lambda o: o.remove(key), 1, None)
        if scen in ("store-fresh", "store-over", "store-over-type", "store-after-crashed-remove"):
            action = lambda o: do_store(backend, o, key, new_v, "RESTnew")
        elif scen == "storem":
            action = lambda o: do_storem(backend, o, key, l["tid"](old_v), "RESTnewmeta")
        else:
            action = lambda o: o.remove(key)
        old = reads(backend, root0, key)
        old_other = reads(backend, root0, other)
        # reference: the complete operation
        ref = os.path.join(base, "ref")
        shutil.copytree(root0, ref)
        trace = run_child(backend, ref, action, -1, None)
        if trace is None:
            res["note"] = "reference run failed"
            return res
        new = reads(backend, ref, key)
        flat = backend in ("filecache", "xor", "fernet")
        lst = (lambda r: listing_flat(r, [key, other])) if flat else listing_tree
        l0, files0 = lst(root0)
        l1, files1 = lst(ref)
        res["trace"] = "".join(t[0] for t in trace)
        points = [(0, None)]
        for i, t in enumerate(trace):
            if t[0] == "a":
                points += [(i, "0"), (i, "half"), (i, "last")]
            points.append((i + 1, None))
        for (i, cut) in points:
            run = os.path.join(base, "run")
            shutil.copytree(root0, run)
            cutn = 0
            if i > 0 or cut is not None:
                tr = run_child(backend, run, action, i, cut)
                if cut is not None:
                    cutn = tr[-1][2] if tr and tr[-1][0] == "partial" else -1
            got = reads(backend, run, key)
            classes = [classify(g, o, n) for g, o, n in zip(got, old, new)]
            frame = "same" if reads(backend, run, other) == old_other else "changed"
            listing, _ = lst(run)
            shutil.rmtree(run)
            actual = " ".join([listing] + classes + [frame])
            where = "after %d of %d file operations%s (%s)" % (i, len(trace), "" if cut is None else " + %d bytes of the next write" % cutn,
                                                               "start" if i == 0 else "%s %s" % (trace[i - 1][0], trace[i - 1][1]))
            for nm, c, g in zip(("get", "get_metadata") if is_cache(backend) else ("get_bytes", "get_metadata"), classes, got):
                if c == "other":
                    res["violations"].append(dict(key="%s:%s:%s:%s" % (backend, scen, vt, nm),
                                                  what="%s %s (%s): crash %s, then a fresh %s(%r) returns %r — neither nothing, nor the previous entry %r, nor the new entry" % (
                                                      backend, scen, vt, where, nm, key, short(g), short(old[0])), point=[i, cut]))
            if frame == "changed":
                res["violations"].append(dict(key="%s:%s:%s:other-key" % (backend, scen, vt),
                                              what="%s %s (%s): crash %s changes what the other key %r reads" % (backend, scen, vt, where, other), point=[i, cut]))
            res["points"].append(dict(i=i, cut=cut, cutn=cutn, actual=actual))
        # the same crash points once more with a write buffer that is lost by the kill (oracle only: the model's steps write through)
        for i in range(1, len(trace) + 1):
            run = os.path.join(base, "run")
            shutil.copytree(root0, run)
            run_child(backend, run, action, i, None, buffered=True)
            got = reads(backend, run, key)
            classes = [classify(g, o, n) for g, o, n in zip(got, old, new)]
            frame = "same" if reads(backend, run, other) == old_other else "changed"
            shutil.rmtree(run)
            where = "after %d of %d file operations (%s %s), data written to files that were not closed yet is lost" % (i, len(trace), trace[i - 1][0], trace[i - 1][1])
            for nm, c, g in zip(("get", "get_metadata") if is_cache(backend) else ("get_bytes", "get_metadata"), classes, got):
                if c == "other":
                    res["violations"].append(dict(key="%s:%s:%s:%s:buffered" % (backend, scen, vt, nm),
                                                  what="%s %s (%s): crash %s, then a fresh %s(%r) returns %r — neither nothing, nor the previous entry %r, nor the new entry" % (
                                                      backend, scen, vt, where, nm, key, short(g), short(old[0])), point=[i, "buffered"]))
            if frame == "changed":
                res["violations"].append(dict(key="%s:%s:%s:other-key:buffered" % (backend, scen, vt),
                                              what="%s %s (%s): crash %s changes what the other key %r reads" % (backend, scen, vt, where, other), point=[i, "buffered"]))
            res["buffered_points"] = res.get("buffered_points", 0) + 1
        # model request ingredients
        res["model"] = None if scen in ORACLE_ONLY else model_request(backend, scen, key, other, old_v, new_v, files0, files1, root0, ref, l)
        return res
    finally:
        shutil.rmtree(base, ignore_errors=True)


def short(x):
    s = repr(x)
    return s if len(s) < 120 else s[:117] + "..."


def model_request(backend, scen, key, other, old_v, new_v, files0, files1, root0, ref, l):
    """the constant part of the driver line; `%d %s` (n, cut) are filled in per crash point"""
    flat = backend in ("filecache", "xor", "fernet")
    if flat:
        # tables from file bytes to what a fresh cache decodes from them
        mt, dt = {}, {}
        for files, root in ((files0, root0), (files1, ref)):
            c = make_cache(backend, root)
            for name, content in files.items():
                if name.startswith("S."):
                    md = c._load_metadata(os.path.join(root, "state_%s.json" % hashlib.md5(common.unhxs(name[2:]).encode()).hexdigest()))
                    if md is not None:
                        mt[content] = meta_wire(canon_meta(md), ".")
                elif name.startswith("D."):
                    _, hk, he = name.split(".")
                    k = common.unhxs(hk)
                    st = c.get(k)
                    if st is not None:
                        dt[content] = hx(tok(st.data))
        tids = {"generic", "text", "bytes", "dictionary", "pickle"}
        ext = ";".join("%s=%s" % (hx(t), hx(l["reg"]().get(t).default_extension())) for t in sorted(tids))
        dirf = ";".join("%s=%s" % (n, hx(b)) for n, b in sorted(files0.items())) or "-"
        sname = "S." + hx(key)
        newmeta = files1.get(sname, b"")
        newdata = b""
        for n, b in files1.items():
            if n.startswith("D." + hx(key) + ".") and files0.get(n) != b:
                newdata = b
        if not newdata:
            for n, b in files1.items():
                if n.startswith("D." + hx(key) + "."):
                    newdata = b
        if scen.startswith("store-"):
            op = "store:%s,%s:%s:%s" % (meta_wire((key, "evaluation", l["tid"](new_v), "RESTnew"), ","), hx(tok(new_v)), hx(newdata), hx(newmeta))
        elif scen == "storem":
            op = "storem:%s:%s" % (meta_wire((key, "ready", l["tid"](old_v), "RESTnewmeta"), ","), hx(newmeta))
        else:
            op = "remove:" + hx(key)
        tab = lambda d: ";".join("%s=%s" % (hx(k), v) for k, v in d.items()) or "-"
        return "crash.c %s %s %s %s %s %%d %%d %s %s" % (ext, tab(mt), tab(dt), dirf, op, hx(key), hx(other))
    # directory store
    mt, dt = {}, {}
    sc = backend.startswith("sc-")
    S = l["S"]
    for files, root in ((files0, root0), (files1, ref)):
        fs = S.FileStore(root)
        for name, content in files.items():
            if content is None:
                continue
            if name.startswith("M."):
                try:
                    mt[content] = meta_wire(canon_meta(json.loads(content)), ".")
                except Exception:
                    pass
            elif name.startswith("N.") and sc:
                # value a StoreCache decodes from this data file (by the type its metadata names)
                k = common.unhxs(name[2:])
                try:
                    md = fs.get_metadata(k)
                    v = l["reg"]().get(md["type_identifier"]).from_bytes(content)
                    dt[content] = hx(tok(v))
                except Exception:
                    pass
    if sc:
        c = make_cache(backend, root0)
        pk, po = c.to_path(key), c.to_path(other)
    else:
        pk, po = key, other
    tree = ";".join("%s=%s" % (n, "/" if b is None else hx(b)) for n, b in sorted(files0.items())) or "-"
    newdata = files1.get("N." + hx(pk)) or b""
    newmeta = files1.get("M." + hx(pk)) or b""
    if scen.startswith("store-"):
        op = "store:%s:%s" % (hx(newdata), hx(newmeta))
    elif scen == "storem":
        op = "storem:%s" % hx(newmeta)
    else:
        op = "remove"
    tab = lambda d: ";".join("%s=%s" % (hx(k), v) for k, v in d.items()) or "-"
    return "crash.t %s %s %s %s %%d %%d %s %s %s" % (tab(mt), tab(dt), tree, op, hx(pk), hx(po), "sc" if sc else "fs")


KIND = {"m": "m", "c": "c", "a": "a", "x": "x", "r": "r", "u": "u", "d": "d"}


def run(ctx):
    L()
    vts = ["text", "bytes", "dictionary", "pickle"] if ctx.tier == "thorough" else ["text", "dictionary"]
    for p in sorted(glob.glob(os.path.join(common.VERIF, "corpus", "C16", "*.json"))):
        entry = json.load(open(p))
        ctx.case("corpus:" + os.path.basename(p))
        still = replay(ctx, entry["case"])
        if still:
            ctx.violation(entry.get("key", "corpus:" + os.path.basename(p)), still, entry["case"])
    jobs = [(b, s, vt) for b in BACKENDS for s in SCENARIOS for vt in vts]
    with multiprocessing.get_context("fork").Pool(16) as pool:
        results = pool.map(scenario, jobs, chunksize=1)
    lines, impl, cases = [], [], []
    seen = {v["key"] for v in ctx.violations}
    for r in results:
        tag = "%s/%s/%s" % (r["backend"], r["scen"], r["vt"])
        if r.get("note"):
            raise RuntimeError("scenario %s: %s" % (tag, r["note"]))
        ctx.count("scenarios", r["backend"] + "/" + r["scen"])
        ctx.count("file operations per scenario", str(len(r["trace"])))
        for v in r["violations"]:
            if v["key"] not in seen:
                seen.add(v["key"])
                ctx.violation(v["key"], v["what"], dict(kind="crash", backend=r["backend"], scenario=r["scen"], vtype=r["vt"], point=v["point"]))
        nsteps = len(r["trace"])
        for p in r["points"]:
            ctx.case(tag + ":%d:%s" % (p["i"], p["cut"]) if 0 < p["i"] < nsteps or p["cut"] is not None else None)
            if r["model"] is None:
                continue
            n = p["i"]
            cutn = p["cutn"] if p["cut"] is not None else 0
            # a crash point without partial write: `cut` = 0 would still apply 0 bytes of an append — harmless (nothing is appended)
            lines.append(r["model"] % (n, cutn))
            impl.append("steps=%s %s" % (r["trace"], p["actual"]))
            cases.append(dict(scenario=tag, after=n, cut=p["cut"], trace=r["trace"]))
    ctx.exhaustive.append("every file-operation boundary and three partial writes per write of %d scenarios (%d crash runs)" % (len(results), len(lines)))
    nbuf = sum(r.get("buffered_points", 0) for r in results)
    ctx.exhaustive.append("every file-operation boundary once more with a write buffer that the kill loses (data reaches a file when it is closed): %d crash runs, oracle only" % nbuf)
    ctx.count("crash runs", "write-through", len(lines))
    ctx.count("crash runs", "buffered writes lost", nbuf)
    ctx.sample(dict(scenario=cases[0]["scenario"], observed_steps=cases[0]["trace"], first_points=impl[:3]))
    mid = len(lines) // 2
    ctx.sample(dict(scenario=cases[mid]["scenario"], crash_after=cases[mid]["after"], partial=cases[mid]["cut"], observed=impl[mid][:200]))
    ctx.compare("crash points (steps, directory content, read classes)", cases, impl, ctx.driver.ask(lines))


def search(ctx, broken, disagreements):
    ctx.notes.append("the crash-point space is enumerated exhaustively by run(); no further search space")


def replay(ctx, case):
    L()
    if case.get("kind") != "crash":
        return "unknown replay kind"
    r = scenario((case["backend"], case["scenario"], case["vtype"]))
    for v in r["violations"]:
        if v["point"] == case["point"]:
            return v["what"]
    return r["violations"][0]["what"] if r["violations"] else None
