"""C05 — cache admission: only finished, successful, non-volatile results are served.

Correspondence: as C04 (histories vs the Lean evaluator model; the rendered line of every operation contains the complete
data-bearing content of the cache). Oracle: after EVERY operation the cache is listed and `get` is called for every listed key
and for the canonical and as-typed spelling of every (sub)query used so far; whatever is returned as data must be filed under
canonical text and equal a fresh NoCache evaluation of that key which is successful, non-volatile and not cache-disabled.
"""
import evalprops as EP
import evalharness as H

RULE = ("as C04: 16 cache configurations x seeded histories over families of related queries with a raised share of failing, volatile, "
        "cache-disabling commands, injected input values and extra parameters; the cache is inspected after every operation; non-trivial = "
        "history after which the cache holds at least one data entry and at least one key was refused")
TRUSTED = EP.TRUSTED
ASSUMPTIONS = EP.ASSUMPTIONS
EXPLANATION = "theorems in Props/C05.lean (served_is_fresh = Sound over histories; not_admitted)"


def gen_sessions(ctx, per_config):
    rng = ctx.rng
    cfgs = EP.cache_configs("/nonexistent")
    tasks = []
    for ci, (name, _, kind) in enumerate(cfgs):
        for _ in range(per_config):
            fam = EP.gen_family(rng, size=3, depth=2, special=0.3)
            ops = EP.gen_history(rng, fam, rng.randint(2, 6))
            dflt = {} if rng.random() < 0.7 else {"a": "dflt"}
            tasks.append((ci, ops, dflt, ("inspect",)))
    return cfgs, tasks


def judge(ctx, cfgs, tasks, results):
    for (ci, ops, dflt, _), res in zip(tasks, results):
        name = cfgs[ci][0]
        any_data = False
        for i, (op, (line, o, fo, found)) in enumerate(zip(ops, res)):
            ctx.count("operation", op[0])
            if line.split(" # ")[-1].strip():
                any_data = True
            for vkey, text in (found or []):
                kind = vkey.split(":")[0]
                k = vkey.split(":", 1)[1]
                ctx.violation("rtq-ambiguous-text" if EP.rtq_ambiguous(k) else "%s:%s:%s" % (kind, name, k),
                              "%s after operation %d %r of %r: %s" % (name, i, op, [x[:2] for x in ops[:i]], text),
                              dict(kind="history", config=name, ops=[list(x) for x in ops[:i + 1]], defaults=dflt))
        ctx.case(("%s|%r" % (name, ops)) if any_data else None)
        ctx.count("configuration", name)
        if any_data and len(ctx.samples) < 5:
            ctx.sample(dict(config=name, history=[list(o) for o in ops], cache_after=res[-1][0].split(" # ")[-1][:200]))


def mutator_sessions(ctx, cfgs):
    """in-place mutators on dictionary values (oracle only, see C04.MUTATOR_HISTORIES): whatever the cache serves after each operation is fresh"""
    hs = EP.MUTATOR_HISTORIES
    tasks = [(ci, [("E", q) for q in h], {}, ("inspect",)) for ci in range(len(cfgs)) for h in hs]
    judge(ctx, cfgs, tasks, EP.common.pmap(EP.run_session_task, tasks))
    ctx.count("family", "in-place mutators on dictionaries (oracle only)", len(tasks))


NOSUB = ["one/nosub-hello~_x", "one/nosub-hello~_x/ident", "one/nosub-hello~_x/add-1/cat-a", "hello-y/nosub-one~Iadd~_2/ident"]
# a command that evaluates a sub-query ON a value (evaluate_on from inside a command): what is computed on the injected value must not
# become retrievable under the plain text of that sub-query
SCENARIOS = [("nosub", NOSUB, NOSUB, "caching was switched off by the command 'nosub' at or to the left of its last step"),
             ("subon", ["one/subon-add~_3", "one/subon-add~_3~Icat~_a", "num-5/subon-cat~_z/ident"], ["add-3", "add-3/cat-a", "cat-z"],
              "it was only ever evaluated on an injected input value (evaluate_on from inside the command 'subon')")]


def nosub_task(ci):
    """a command that switches caching off and then evaluates a sub-query on its own context: nothing at or downstream of it may become
    retrievable (oracle only: the combined effect is outside the model's command effects)"""
    import shutil
    from liquer.context import get_context
    tmp = EP.scratch()
    bad = []
    try:
        name, factory, _ = EP.cache_configs(tmp)[ci]
        cache = factory()
        for sname, qs, keys, why in SCENARIOS:
            for rnd in (1, 2):
                for q in qs:
                    EP.set_global(cache, {})
                    try:
                        get_context().evaluate(q)
                    except Exception:
                        pass
                    for k in keys:
                        try:
                            st = cache.get(k)
                        except Exception:
                            st = None
                        if st is not None and st.data is not None:
                            bad.append(("not-admitted-%s:%s:%s" % (sname, name, k), "%s: after evaluating %r (round %d) cache.get(%r) serves data %r although %s" % (
                                name, q, rnd, k, EP.vocab.canon(st.data), why)))
        return bad
    finally:
        shutil.rmtree(tmp, ignore_errors=True)


def nosub_family(ctx, cfgs):
    for ci, bad in enumerate(EP.common.pmap(nosub_task, list(range(len(cfgs))))):
        ctx.case("nosub|%s" % cfgs[ci][0])
        ctx.count("family", "caching switched off then a sub-evaluation / evaluate_on from inside a command (oracle only)")
        for key, text in bad[:1]:
            ctx.violation(key, text, dict(kind="nosub", config=cfgs[ci][0]))


def run(ctx):
    per = 120 if ctx.tier == "thorough" else 30
    cfgs, tasks = gen_sessions(ctx, per)
    mutator_sessions(ctx, cfgs)
    nosub_family(ctx, cfgs)
    results = EP.common.pmap(EP.run_session_task, tasks)
    judge(ctx, cfgs, tasks, results)
    sessions = [(t[1], t[2]) for t in tasks]
    kinds = [cfgs[t[0]][2] for t in tasks]
    lines = [" | ".join(r[0] for r in res) for res in results]
    EP.model_sessions(ctx, "histories on each cache configuration vs evaluator model (cache content after every operation)", sessions, kinds, lines)


def search(ctx, broken, disagreements):
    cfgs, tasks = gen_sessions(ctx, 30)
    results = EP.common.pmap(EP.run_session_task, tasks)
    judge(ctx, cfgs, tasks, results)
    if not ctx.violations:
        ctx.notes.append("enlarged search over %d further histories found no failing input" % len(tasks))


def replay(ctx, case):
    if case.get("kind") == "nosub":
        cfgs = EP.cache_configs("/nonexistent")
        bad = nosub_task([c[0] for c in cfgs].index(case["config"]))
        return bad[0][1] if bad else None
    cfgs = EP.cache_configs("/nonexistent")
    ci = [c[0] for c in cfgs].index(case["config"])
    ops = [tuple(o) if o[0] != "XD" else (o[0], o[1], dict(o[2])) for o in case["ops"]]
    res = EP.run_session_task((ci, ops, case["defaults"], ("inspect",)))
    found = res[-1][3]
    return None if not found else found[0][1]
