"""C12 — concurrent evaluations sharing a cache are serializable.

Real threads evaluate overlapping queries against one shared cache; a deterministic scheduler (every cache operation of every
thread is a yield point; exactly one thread runs at a time) replays generated schedules. Correspondence: per-thread outcome, call
log and sequence of own cache operations (get / store / remove), and the final cache content, vs the Lean model replaying the global
sequence of cache operations the implementation performed (`conc.replay`: threads = the oracle evaluator of EvalO.lean, stepped by
Conc.lean; the implementation's store_metadata calls are replayed verbatim as environment steps). Oracle (implementation only): every thread returns
what it returns when run alone without cache, and every data entry left in the cache equals a fresh evaluation of its key.
"""
import threading, shutil, os
import common, vocab
import evalprops as EP
import evalharness as H
import concfile
from common import hx

RULE = ("2-3 threads evaluating queries that share prefixes or link sub-queries x seeded schedules at cache-operation granularity with up to 3 "
        "(thorough: 5) pre-emptions, on MemoryCache, FileCache and StoreCache(MemoryStore); non-trivial = distinct (queries, schedule) in which "
        "a thread was pre-empted between two of its cache operations")
TRUSTED = EP.TRUSTED + ["deterministic scheduler: threads blocked on semaphores, one runs at a time, yield point before every operation of the shared cache "
                        "(get / store / remove = a step of that thread in LiquerModel/Conc.lean, store_metadata = an environment step replayed verbatim)"]
ASSUMPTIONS = EP.ASSUMPTIONS + ["pre-emption inside one cache operation (between Python byte codes, or between the file operations of a file-backed cache) "
                                "is not exhibited: each cache operation is atomic in the model"]
EXPLANATION = "theorems in Props/C12.lean (every cache operation an evaluation issues preserves Sound under any interleaving)"

CACHES = [("MemoryCache", "1"), ("FileCache", "1"), ("StoreCache(MemoryStore,flat)", "1"), ("SQLCache(shared sqlite connection)", "0")]


def sql_shared():
    """an SQLCache usable from several threads: one sqlite connection opened with check_same_thread=False (the scheduler lets one thread run at a time)"""
    import sqlite3
    from liquer.cache import SQLCache
    return SQLCache(connection=sqlite3.connect(":memory:", check_same_thread=False), table="liquer_cache", delete_before_insert=True)


class Scheduler:
    def __init__(self, n):
        self.n = n
        self.sems = [threading.Semaphore(0) for _ in range(n)]
        self.main = threading.Semaphore(0)
        self.done = [False] * n
        self.traces = [[] for _ in range(n)]
        self.ids = {}
        self.calls = [[] for _ in range(n)]
        self.ncalls = 0
        self.glog = []            # (thread, kind, key) of every performed operation
        self.events = []          # global sequence of performed cache operations: thread index (own operation) | m.<key>.<status>

    def tid(self):
        return self.ids.get(threading.get_ident())

    def point(self, kind, key, status=None):
        """called by the cache wrapper before an operation: every cache operation (progress-metadata writes too) is a yield point"""
        t = self.tid()
        if t is None:
            return
        self.main.release()       # reached a yield point
        self.sems[t].acquire()    # wait to be scheduled
        self.glog.append((t, kind, key))
        if kind == "M":
            self.events.append("m.%s.%s" % (hx(key), hx(status or "")))
        else:
            self.events.append(str(t))
            self.traces[t].append("%s:%s" % (kind, hx(key)))

    def trace_text(self, t):
        return ",".join(self.traces[t])

    def step(self, t):
        """let thread t perform its pending operation and run to its next yield point (or finish)"""
        if self.done[t]:
            return
        self.sems[t].release()
        self.main.acquire()
        new = vocab.CALLS[self.ncalls:]
        self.calls[t] += new
        self.ncalls = len(vocab.CALLS)


class YieldCache:
    def __init__(self, inner, sched):
        self.inner, self.sched = inner, sched

    def get(self, key):
        self.sched.point("G", key)
        return self.inner.get(key)

    def store(self, state):
        self.sched.point("S", state.query)
        return self.inner.store(state)

    def store_metadata(self, metadata):
        self.sched.point("M", metadata["query"], metadata.get("status"))
        return self.inner.store_metadata(metadata)

    def remove(self, key):
        self.sched.point("R", key)
        return self.inner.remove(key)

    def contains(self, key):
        return self.inner.contains(key)

    def get_metadata(self, key):
        return self.inner.get_metadata(key)

    def keys(self):
        return self.inner.keys()

    def clean(self):
        return self.inner.clean()


def run_schedule(task):
    """worker: (cache index, queries, schedule, defaults) -> dict(lines per thread, cache line, obs per thread, findings)"""
    ci, queries, schedule, defaults = task
    from liquer.cache import set_cache
    from liquer.context import get_context
    tmp = EP.scratch()
    try:
        cfgs = {c[0]: c for c in EP.cache_configs(tmp)}
        inner = sql_shared() if CACHES[ci][0].startswith("SQLCache") else cfgs[CACHES[ci][0]][1]()
        n = len(queries)
        sched = Scheduler(n)
        EP.set_global(inner, defaults)
        set_cache(YieldCache(inner, sched))
        vocab.CALLS.clear()
        results = [None] * n
        states = [None] * n

        def worker(i):
            sched.ids[threading.get_ident()] = i
            sched.sems[i].acquire()          # start gate
            holder = {}

            def f():
                # a thread is a query text, or [query text, extra parameters] (evaluated with extra_parameters: oracle-only families)
                qi = queries[i]
                st = get_context().evaluate(qi) if isinstance(qi, str) else get_context().evaluate(qi[0], extra_parameters=list(qi[1]))
                holder["st"] = st
                return st
            try:
                o = H.observe_nolog(f)
            except BaseException as e:      # pragma: no cover
                o = dict(kind="exception", exc=type(e).__name__)
            results[i], states[i] = o, holder.get("st")
            sched.done[i] = True
            sched.main.release()

        threads = [threading.Thread(target=worker, args=(i,), daemon=True) for i in range(n)]
        for th in threads:
            th.start()
        # bring every thread to its first yield point
        for i in range(n):
            sched.step(i)
        for t in schedule:
            if 0 <= t < n:
                sched.step(t)
        for i in range(n):
            guard = 0
            while not sched.done[i] and guard < 100000:
                sched.step(i)
                guard += 1
        for th in threads:
            th.join(timeout=10)
        lines, obs = [], []
        for i in range(n):
            o = results[i]
            if o["kind"] == "state":
                out = H.render_state(states[i])
            elif o["kind"] == "parse-error":
                out = "PARSEERR"
            elif o["kind"] == "raised":
                out = "RAISED pos=%s q=%s" % ("~" if o["pos"] is None else o["pos"], H.opt_hex(o["query"]))
            else:
                out = "EXC " + o.get("exc", "?")
            lines.append("%s # %s # %s" % (out, ",".join(sched.calls[i]), sched.trace_text(i)))
            obs.append({k: v for k, v in o.items() if k != "metadata"})
        set_cache(inner)
        cache_line = H.render_cache(inner)
        keys = set()
        for q in queries:
            keys |= EP.related_keys(q if isinstance(q, str) else q[0])
        findings = EP.inspect_cache(inner, keys, defaults)
        solo = [{k: v for k, v in EP.fresh(("E", q) if isinstance(q, str) else ("XL", q[0], list(q[1])), defaults).items() if k != "metadata"} for q in queries]
        return dict(lines=lines, cache=cache_line, obs=obs, findings=findings, solo=solo, events=list(sched.events), clobber=clobbering_write(sched.glog))
    finally:
        shutil.rmtree(tmp, ignore_errors=True)


def clobbering_write(glog):
    """does some evaluation write progress metadata under a key for which ANOTHER evaluation has meanwhile stored the finished result?
    (every cache kind then replaces the finished entry's metadata by the progress record of the late writer while keeping the data; the
    record never says 'ready' — defect fixed in /repo — so the entry is hidden until the late writer stores it again) -> (key, writer, owner) | None
    Only counted in the evidence (input distribution)."""
    owner = {}
    for t, kind, key in glog:
        if kind == "S":
            owner[key] = t
        elif kind == "R":
            owner.pop(key, None)
        elif kind == "M" and key in owner and owner[key] != t:
            return [key, t, owner[key]]
    return None


def gen_queries(rng, n):
    base = H.g_query(rng, 1, rng.randint(1, 3), special=0.1)
    qs = []
    for i in range(n):
        r = rng.random()
        if r < 0.45:
            qs.append(base + "/" + H.g_action(rng, 1, False, 0.15))
        elif r < 0.6:
            parts = base.split("/")
            qs.append("/".join(parts[:rng.randint(1, len(parts))]))
        elif r < 0.8:
            qs.append(rng.choice(["one", "vals-a"]) + "/" + rng.choice(["cat", "argsc-x", "let-v"]) + "-~X~/" + base + "~E")
        elif r < 0.9:
            qs.append(base)
        else:
            qs.append(base + "/cat-~X~" + H.g_action(rng, 0, False, 0.1) + "~E")
    return qs


def gen_schedule(rng, n, preemptions):
    sched = []
    t = rng.randrange(n)
    for _ in range(rng.randint(0, preemptions) + 1):
        sched += [t] * rng.randint(1, 24)
        t = rng.choice([x for x in range(n) if x != t])
    return sched


def gen_tasks(ctx, count):
    rng = ctx.rng
    tasks = []
    for i in range(count):
        n = 3 if rng.random() < 0.3 else 2
        qs = gen_queries(rng, n)
        tasks.append((i % len(CACHES), qs, gen_schedule(rng, n, 5 if ctx.tier == "thorough" else 3), {} if rng.random() < 0.8 else {"a": "dflt"}))
    # structured family: three evaluations sharing a prefix; one of them is pre-empted twice and the other two run to completion in the
    # gaps (the window between a progress write and the store of a shared prefix, with a third evaluation reading in it)
    # Every position k1 of the first pre-emption is taken (the windows are a few operations wide), for a text-valued and for a generated prefix.
    big = 400
    for ci in range(len(CACHES)):
        for base in ("hello-x", H.g_query(rng, 0, rng.randint(1, 2), special=0.0)):
            qs = [base + "/cat-a", base + "/cat-b", base + "/cat-c"]
            for k1 in range(1, 21):
                for k2 in (range(1, 12) if ctx.tier == "thorough" else rng.sample(range(1, 12), 2)):
                    tasks.append((ci, qs, [1] * k1 + [0] * big + [1] * k2 + [2] * big + [1] * big, {}))
    return tasks


def _positions(ops, before=(), after=()):
    """numbers of file operations a thread has executed when it is stopped right BEFORE an operation of a kind in `before` / right AFTER one in `after`"""
    pos = set()
    for i, o in enumerate(ops):
        if o[:1] in before:
            pos.add(i)
        if o[:1] in after:
            pos.add(i + 1)
    return sorted(pos)


def gen_extra_tasks(ctx):
    """oracle-only: a plain evaluation finishes, an evaluation of the SAME query with extra parameters (volatile, never stored) is stopped
    after k of its cache operations, a second plain evaluation runs in that window (it may be served the finished entry, but not the
    record of the evaluation that is still running), then everything finishes. In-place mutating tails on a cached list-valued prefix too."""
    big = 400
    tasks = []
    for ci in range(len(CACHES)):
        for q, extra in (("one/add", ["10"]), ("num-5/add/cat-a", ["x"]), ("hello-x/cat", ["y"])):
            for k in range(1, 16 if ctx.tier == "thorough" else 11):
                tasks.append((ci, [q, [q, extra], q + "/ident"], [0] * big + [1] * k + [2] * big + [1] * big, {}))
        # a list-valued prefix that is cached first, then in-place appends on it from two evaluations (served copies must be private)
        for k in (1, 3, 5, 8):
            tasks.append((ci, ["vals-a-b", "vals-a-b/app-x", "vals-a-b/app-y"], [0] * big + [1] * k + [2] * big + [1] * big, {}))
    return tasks


def gen_file_tasks(ctx):
    """schedules at FILE-operation granularity (concfile.py): three evaluations sharing a prefix on a file-backed cache.
    F1: thread 0 is stopped after kA file operations, thread 1 after kB, then 0, 2 and 1 run to completion (two writers — of the shared
        prefix and of their own results — inside each other's write protocol, then a reader);
    F2: thread 0 is stopped after k file operations, thread 1 runs start to end (it looks the shared prefix up inside thread 0's write
        protocol: a reader inside one writer's protocol), then 0 finishes;
    (every thread performs its first look-up before the schedule starts; the READER of the shared prefix is thread 1, which looks the
    prefix up again after its first progress write: F1 also stops it right before / between its open-for-reading operations, i.e. between
    the existence test and the open and between the metadata read and the data read, while thread 0 removes and rewrites the entry);
    F3: as F1 with thread 1 stopped before a read, but thread 0 then runs only until right after one of its unlinks (the entry is half
        replaced), then thread 1 continues;
    The stopping points are TARGETED: a probe run records the sequence of file operations of the thread (create, write, close, rename,
    unlink, open-for-reading); kA ranges over the points right before / after a rename, a close, a create, an unlink of thread 0; for each
    kA a second probe records what the other thread does from there, and kB ranges over its points right after a create / write / rename / unlink / open-for-reading and right before a rename / an
    open-for-reading.  Quick tier: all pairs (before a rename, after a create or write) — the window in which a shared temporary file is
    overwritten —, all pairs in which thread 1 is stopped before a read, plus a seeded sample of the rest; thorough tier: all pairs."""
    rng = ctx.rng
    big = 2000
    tasks = []
    thorough = ctx.tier == "thorough"
    probes_a, plan, ops0s = [], [], {}
    # a TEXT-valued shared prefix (an empty or truncated text file still decodes, so a torn entry is served rather than taken for a miss);
    # thorough tier: a generated prefix as well
    for bi, base in [(b, "hello-" + rng.choice(["abc", "x", "w_1", "longer_argument_text"])) for b in range(len(concfile.BACKENDS))] + (
            [(b, H.g_query(rng, 0, 1, special=0.0)) for b in range(len(concfile.BACKENDS))] if thorough else []):
        qs = [base + "/cat-a", base + "/cat-b", base + "/cat-c"]
        rq = [qs[0], qs[1], base]
        probe = concfile.run_file_schedule((bi, qs, [0] * big + [1] * big, {})) or {}
        ops0 = (probe.get("ops") or [[]])[0]
        if not ops0:
            ops0 = ["a ?"] * 40
        ops0s[(bi, base)] = ops0
        ka_all = [k for k in _positions(ops0, before="rx", after="rcu") if 0 < k <= len(ops0)]
        ctx.count("file operations of one evaluation (probe)", "%s: %d, %d stopping points" % (concfile.BACKENDS[bi], len(ops0), len(ka_all)))
        for ka in ka_all:
            probes_a.append((bi, qs, [0] * ka + [1] * big + [0] * big, {}))
            plan.append((bi, qs, ka, ops0[ka][:1] if ka < len(ops0) else "-"))
        f2 = list(range(1, len(ops0) + 1))
        for k in (f2 if thorough else sorted(set(ka_all) | set(rng.sample(f2, min(len(f2), 20))))):
            tasks.append((bi, qs, [0] * k + [1] * big + [0] * big + [2] * big, {}, "F2"))
            if thorough:
                tasks.append((bi, rq, [0] * k + [2] * big + [0] * big + [1] * big, {}, "F2"))
    answers = common.pmap(concfile.run_file_schedule, probes_a)
    rest = []
    for (bi, qs, ka, next0), r in zip(plan, answers):
        ops1 = ((r or {}).get("ops") or [[], []])[1]
        for kb in _positions(ops1, before="ro", after="caruo"):
            t = (bi, qs, [0] * ka + [1] * kb + [0] * big + [2] * big + [1] * big, {}, "F1")
            overwrite = next0 == "r" and kb > 0 and ops1[kb - 1][:1] in "ca"      # a writer about to publish, the other one has just created / written
            reading = kb < len(ops1) and ops1[kb][:1] == "o"                        # thread 1 is stopped inside its read of the shared prefix
            (tasks if overwrite or reading or thorough else rest).append(t)
            if reading:
                # F3: ... and thread 0 goes on only until right after one of its later unlinks (the entry is being replaced), then the reader continues
                for iu in [i for i, o in enumerate(ops0s[(bi, qs[0][:-6])]) if o[:1] == "u" and i >= ka]:
                    tasks.append((bi, qs, [0] * ka + [1] * kb + [0] * (iu + 1 - ka) + [1] * big + [0] * big + [2] * big, {}, "F3"))
    tasks += rng.sample(rest, min(len(rest), 260))
    return tasks


def rle(schedule):
    out = []
    for x in schedule:
        if out and out[-1][0] == x:
            out[-1][1] += 1
        else:
            out.append([x, 1])
    return ", ".join("%d x%d" % (t, n) if n < 1000 else "%d to the end" % t for t, n in out)


def judge_file(ctx, tasks, results):
    for (bi, qs, schedule, dflt, fam), r in zip(tasks, results):
        name = concfile.BACKENDS[bi]
        ctx.case("file|%s|%r|%s" % (name, qs, rle(schedule)))
        ctx.count("file-operation schedules", "%s %s" % (name, fam))
        case = dict(kind="file-schedule", backend=bi, queries=qs, schedule=schedule, defaults=dflt)
        if r is None or "error" in r:
            ctx.violation("file-harness:%s" % name, "%s, threads %r, file-operation schedule [%s]: the run died: %s" % (name, qs, rle(schedule), (r or {}).get("error", "no result")), case)
            continue
        ctx.count("file operations per evaluation", str(10 * (max(r["nops"]) // 10)) + "+")
        for i, (o, s) in enumerate(zip(r["obs"], r["solo"])):
            a, b = EP.obs_public(o), EP.obs_public(s)
            if a != b:
                diff = {k: (a[k], b[k]) for k in a if a[k] != b[k]}
                ctx.violation("file-thread-result:%s:%s" % (name, fam), "%s, threads %r under the file-operation schedule [%s]: thread %d returns %r, alone it returns %r" % (
                    name, qs, rle(schedule), i, {k: v[0] for k, v in diff.items()}, {k: v[1] for k, v in diff.items()}), case)
        for vkey, text in r["findings"]:
            ctx.violation("file-final-cache:%s:%s" % (name, fam), "%s, threads %r under the file-operation schedule [%s]: at quiescence %s" % (name, qs, rle(schedule), text), case)


def judge(ctx, tasks, results):
    for (ci, qs_, schedule, dflt), r in zip(tasks, results):
        qs = [q if isinstance(q, str) else "%s [extra parameters %r]" % (q[0], q[1]) for q in qs_]
        name = CACHES[ci][0]
        switched = any(a != b for a, b in zip(schedule, schedule[1:]))
        ctx.case(("%s|%r|%r" % (name, qs, schedule)) if switched else None)
        ctx.count("cache", name)
        ctx.count("threads", str(len(qs)))
        case = dict(kind="schedule", cache=ci, queries=qs_, schedule=schedule, defaults=dflt)
        for i, (o, s) in enumerate(zip(r["obs"], r["solo"])):
            a, b = EP.obs_public(o), EP.obs_public(s)
            if a != b:
                diff = {k: (a[k], b[k]) for k in a if a[k] != b[k]}
                key = "rtq-ambiguous-text" if EP.rtq_involved([q if isinstance(q, str) else q[0] for q in qs_]) else "thread-result:%s:%s" % (name, hx(qs[i]))
                ctx.violation(key, "%s, threads %r under schedule [%s]: thread %d returns %r, alone it returns %r" % (
                    name, qs, rle(schedule), i, {k: v[0] for k, v in diff.items()}, {k: v[1] for k, v in diff.items()}), case)
        for vkey, text in r["findings"]:
            k = vkey.split(":", 1)[1]
            ctx.violation("rtq-ambiguous-text" if (EP.rtq_ambiguous(k) or EP.rtq_involved([q if isinstance(q, str) else q[0] for q in qs_])) else "final-cache:%s:%s" % (name, vkey),
                          "%s, threads %r under schedule [%s]: at quiescence %s" % (name, qs, rle(schedule), text), case)
        if switched and len(ctx.samples) < 5:
            ctx.sample(dict(cache=name, queries=qs, schedule=schedule, traces=[l.split(" # ")[-1][:200] for l in r["lines"]]))


def load_corpus():
    import json
    d = os.path.join(common.VERIF, "corpus", "C12")
    sched, fsched = [], []
    if os.path.isdir(d):
        for f in sorted(os.listdir(d)):
            if f.endswith(".json"):
                c = json.load(open(os.path.join(d, f)))["case"]
                schedule = [t for t, n in c["schedule_rle"] for _ in range(n)]
                if c["kind"] == "schedule":
                    sched.append((c["cache"], c["queries"], schedule, c.get("defaults", {})))
                else:
                    fsched.append((c["backend"], c["queries"], schedule, c.get("defaults", {}), "corpus"))
    return sched, fsched


def run(ctx):
    # EvalO.lean must be the mechanical translation of Eval.lean (World -> oracle world)
    import subprocess, sys
    rc = subprocess.run([sys.executable, os.path.join(common.VERIF, "harness", "gen_evalo.py"), "--check"]).returncode
    ctx.stream("EvalO.lean is the translation of Eval.lean (gen_evalo.py --check)", cases=1, compared=1)
    if rc != 0:
        ctx.disagree("EvalO.lean is the translation of Eval.lean (gen_evalo.py --check)", "lean/LiquerModel/EvalO.lean", "out of date", "regenerate with harness/gen_evalo.py")
    count = 900 if ctx.tier == "thorough" else 150
    csched, cfsched = load_corpus()
    tasks = csched + gen_tasks(ctx, count)
    results = common.pmap(run_schedule, tasks)
    judge(ctx, tasks, results)
    # evaluations with extra parameters / in-place tails (oracle only: the replay model runs plain evaluations)
    xtasks = gen_extra_tasks(ctx)
    judge(ctx, xtasks, common.pmap(run_schedule, xtasks))
    ctx.count("schedules", "with an extra-parameter evaluation or in-place tails (oracle only)", len(xtasks))
    # file-operation granularity on the file-backed caches (oracle only)
    ftasks = cfsched + gen_file_tasks(ctx)
    judge_file(ctx, ftasks, common.pmap(concfile.run_file_schedule, [t[:4] for t in ftasks]))
    reqs, impl = [], []
    for (ci, qs, schedule, dflt), r in zip(tasks, results):
        d = ";".join("%s=%s" % (hx(k), vocab.canon(v)) for k, v in dflt.items()) or "-"
        reqs.append("conc.replay %s %s %s %s" % (CACHES[ci][1], d, ",".join(r["events"]) or "-", " ".join(hx(q) for q in qs)))
        impl.append(" | ".join(r["lines"] + [r["cache"]]))
    ans = ctx.driver.ask(reqs)
    ctx.count("schedules", "with a progress write on an entry another evaluation has finished", sum(1 for r in results if r.get("clobber")))
    ctx.compare("schedules: per-thread outcome, calls, cache-operation trace, final cache vs Conc model",
                ["%r %r" % (t[1], t[2]) for t in tasks], impl, None if ans is None else ["UNMODELLED" if "UNMODELLED" in a else a for a in ans])


def search(ctx, broken, disagreements):
    tasks = gen_tasks(ctx, 400)
    judge(ctx, tasks, common.pmap(run_schedule, tasks))
    if not ctx.violations:
        ctx.notes.append("enlarged search over 400 further (queries, schedule) pairs found no failing input")


def replay(ctx, case):
    c2 = type(ctx)("C12", ctx.tier, ctx.seed)
    if case.get("kind") == "file-schedule":
        t = (case["backend"], case["queries"], case["schedule"], case["defaults"], "replay")
        judge_file(c2, [t], [concfile.run_file_schedule(t[:4])])
        return c2.violations[0]["what"] if c2.violations else None
    t = (case["cache"], case["queries"], case["schedule"], case["defaults"])
    judge(c2, [t], [run_schedule(t)])
    return c2.violations[0]["what"] if c2.violations else None
