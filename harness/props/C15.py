"""C15 — overlay store: copy-on-write view that never touches the fall-back.

Correspondence: liquer.store.OverlayStore over MemoryStore / FileStore parts vs `overlayOps`
(LiquerModel/StoreOverlay.lean; `memOps` for a MemoryStore part, `specOps` for a FileStore part),
observations of a fixed key universe + key listing + content of the fall-back after every operation.
Oracle (on the implementation only): an independent dict-based reference of the shadow/mask view
(most recent write or removal wins, else the fall-back's content) and a byte-level snapshot of the
fall-back (MemoryStore containers / FileStore directory tree) that must never change.
"""
import itertools
import layers as Y
from layers import Ref

RULE = ("every subset of the fall-back files {a/b, a/c, a/d/e, c, f.txt} (32) x MemoryStore/FileStore in either role (4) x "
        "seeded well-formed histories of 4-12 operations through the overlay (store, store_metadata fresh/carrying fileinfo, "
        "remove, makedir, removedir recursive/non-recursive, re-creation of removed keys and directories); after every "
        "operation all 14 universe keys + keys() + the fall-back are observed; non-trivial = history that removes a key "
        "or directory the fall-back has and later writes at or below a removed key")
TRUSTED = ["modelled: OverlayStore (all methods, LiquerModel/StoreOverlay.lean) over MemoryStore (LiquerModel/StoreMem.lean); a FileStore part is modelled by the specification store specOps (C07 ties FileStore to it)",
           "oracle: harness/layers.py Ref (dict-based reference file system) and raw snapshots (MemoryStore attributes, os.walk of the FileStore root)"]
ASSUMPTIONS = ["histories are well-formed on the overlay view (store below files / on directories, remove of directories etc. are outside the quantifier)",
               "normalised keys (no empty, '.' or '..' components, no trailing '/')",
               "overlay_reads is proved for specification parts (specOps); MemoryStore/FileStore parts are tied to it by C07 and by this correspondence"]
EXPLANATION = ("theorems: the fall-back component is unchanged by every operation of overlayOps U L for arbitrary parts (all histories); "
               "for specification parts every read equals the read of the shadow/mask view and every well-formed write updates the view as the "
               "specification store would (most recent write or removal wins), invariant preserved")

FILES = ["a/b", "a/c", "a/d/e", "c", "f.txt"]
NEWFILES = ["a/n", "a/d/k", "g/h", "a/m/n", "a/bb", "cc"]      # "a/bb", "cc": names that extend a fall-back name as TEXT (not as a path)
DIRS = ["a", "a/d", "g", "a/m"]
UNIVERSE = [""] + DIRS + FILES + NEWFILES
DATA = [b"", b"1", b"22", b"three"]


def gen_op(rng, ref, gone, counter):
    """one well-formed operation on the reference view (None if nothing applies)"""
    for _ in range(30):
        kind = rng.choices(["s", "m", "r", "k", "dr", "dn"], [30, 12, 22, 8, 16, 6])[0]
        user = "u%d" % counter
        if kind == "s":
            k = rng.choice(FILES + NEWFILES + gone + gone)
            op = ("s", k, rng.choice(DATA + [k.encode()]), user, None, None)
        elif kind == "m":
            files = [k for k in ref.keys() if ref.is_file(k)]
            if not files:
                continue
            k = rng.choice(files)
            d = ref.n[k][1]
            op = ("m", k, user, len(d), d) if rng.random() < 0.5 else ("m", k, user, None, None)
        elif kind == "r":
            files = [k for k in ref.keys() if ref.is_file(k)]
            if not files:
                continue
            op = ("r", rng.choice(files))
        elif kind == "k":
            op = ("k", rng.choice(DIRS + ["a/m/n"] + [g for g in gone if g in DIRS]))
        else:
            dirs = [k for k in ref.keys() if ref.is_dir(k)]
            if not dirs:
                continue
            op = ("d", rng.choice(dirs), kind == "dr")
        if ref.wf(op):
            return op
    return None


def run_case(U, L, fb, ops=None, rng=None, length=0, stop_on=None):
    """runs one configuration; `ops` explicit or generated (needs rng, length).
    returns dict(ops, init, states (impl strings), findings [(cls, text, step)], wf, nontrivial)"""
    from liquer.store import OverlayStore
    parts = Y.Parts()
    md5 = Y.Md5Map()
    res = dict(ops=[], states=[], findings=[], wf=True, nontrivial=False)
    try:
        upper, lower = parts.make(U), parts.make(L)
        ref = Ref()
        init = [("s", k, ("F:" + k).encode(), "f" + k, None, None) for k in fb]
        for op in init:
            md5.add(op[2])
            Y.apply_impl(lower, op)
            ref.apply(op)
        for d in DATA + [k.encode() for k in FILES + NEWFILES]:
            md5.add(d)
        res["init"] = init
        fbkeys = set(ref.keys())
        ov = OverlayStore(upper, lower)
        snap0 = Y.raw_snapshot(lower)

        def observe(step, r):
            items = [r]
            for k in UNIVERSE:
                got = Y.read_key(ov, k, md5)
                items.append(Y.enc_read(k, got, md5))
                for fld, text in Y.diff_obs(got, ref.expect(k)):
                    res["findings"].append(("%s@%s" % (fld, k), "%s(%r): %s" % (fld.split(".")[0], k, text), step))
            ks = Y.read_keys(ov)
            items.append(Y.enc_keylist(ks))
            if ks != ("ok", ks[1]) or sorted(ks[1]) != ref.keys():
                res["findings"].append(("keys", "keys() = %s, expected %r" % (Y.show(ks) if ks[0] == "err" else sorted(ks[1]), ref.keys()), step))
            items.append("P" + Y.dump(lower, md5))
            if Y.raw_snapshot(lower) != snap0:
                res["findings"].append(("fallback-modified", "the fall-back store was modified", step))
            if r != "r=ok":
                res["findings"].append(("raises:" + res["ops"][-1][0], "well-formed %s raised (%s)" % (Y.show_op(res["ops"][-1]), r), step))
            res["states"].append(" ".join(items))

        observe(0, "r=ok")
        gone, removed_fb, n = [], False, 0
        while True:
            if ops is not None:
                if n >= len(ops):
                    break
                op = ops[n]
                if not ref.wf(op):
                    res["wf"] = False
                    break
            else:
                if n >= length:
                    break
                op = gen_op(rng, ref, gone, n)
                if op is None:
                    break
            n += 1
            res["ops"].append(op)
            if op[0] == "s":
                md5.add(op[2])
            if op[0] in ("r", "d"):
                below = [k for k in ref.keys() if k == op[1] or k.startswith(op[1] + "/")]
                gone += [k for k in below if k not in gone]
                removed_fb = removed_fb or any(k in fbkeys for k in below)
            elif removed_fb and any(op[1] == g or op[1].startswith(g + "/") for g in gone):
                res["nontrivial"] = True
            r = Y.apply_impl(ov, op)
            ref.apply(op)
            observe(n, r)
            if stop_on is not None and any(c == stop_on for c, _, s in res["findings"] if s == n):
                break
        return res
    finally:
        parts.close()


def model_line(U, L, init, ops):
    return "ov %s %s %s %s %s" % ("M" if U == "M" else "S", "M" if L == "M" else "S", Y.enc_ops(init), Y.enc_ops(ops), Y.enc_keys(UNIVERSE))


def minimise(U, L, fb, ops, cls):
    """smallest fall-back content and history still producing a finding of class `cls`"""
    def fails(fb_, ops_):
        r = run_case(U, L, fb_, ops=ops_, stop_on=cls)
        return r["wf"] and any(c == cls for c, _, _ in r["findings"])
    ops = Y.shrink(ops, lambda o: fails(fb, o))
    fb = Y.shrink(fb, lambda f: fails(f, ops))
    return fb, ops


def report(ctx, U, L, fb, ops, cls, seen, found_text=None):
    """minimise and report; a failure that does not reproduce when the case is run again (e.g. one that depends on the clock) is
    reported as it was observed"""
    again = [s for c, _, s in run_case(U, L, fb, ops=ops)["findings"] if c == cls]
    fb2, ops2, text = fb, ops, found_text
    if again:
        fb2, ops2 = minimise(U, L, fb, ops[:min(again)], cls)
        r = run_case(U, L, fb2, ops=ops2)
        texts = [t for c, t, s in r["findings"] if c == cls]
        if texts:
            text = texts[-1]
        else:
            fb2, ops2 = fb, ops
    if text is None:
        return
    key = "ov:%s%s:fb=%s:h=%s:%s" % (U, L, ",".join(fb2), Y.enc_ops(ops2), cls)
    if key in seen:
        return
    seen.add(key)
    what = "OverlayStore(%s over %s), fall-back {%s}; %s; then %s" % (
        {"M": "MemoryStore", "F": "FileStore"}[U], {"M": "MemoryStore", "F": "FileStore"}[L], ", ".join(fb2), Y.show_hist(ops2), text)
    ctx.violation(key, what, dict(kind="ov", U=U, L=L, fb=fb2, ops=[Y.op_json(o) for o in ops2], cls=cls))


def run(ctx):
    import time
    thorough = ctx.tier == "thorough"
    budget = 420 if thorough else 30
    per_cfg = 60 if thorough else 12
    subsets = [list(c) for n in range(len(FILES) + 1) for c in itertools.combinations(FILES, n)]
    roles = [("M", "M"), ("M", "F"), ("F", "M"), ("F", "F")]
    ctx.exhaustive.append("all %d subsets of %r as fall-back content x the 4 role assignments of MemoryStore/FileStore" % (len(subsets), FILES))
    cases, impl, lines, seen, classes = [], [], [], set(), {}
    t0, done = time.time(), 0
    cfgs = [(U, L, fb) for fb in subsets for (U, L) in roles]
    # corpus first: the D5 witnesses of DESIGN §5 and the variants found while reading the class
    fixed = [(c["U"], c["L"], c["fb"], [Y.op_unjson(o) for o in c["ops"]]) for c in Y.load_corpus("C15") if c.get("kind") == "ov"]
    rounds = 0
    while True:
        todo = [(U, L, fb, ops, None) for (U, L, fb, ops) in fixed] if rounds == 0 else [(U, L, fb, None, ctx.rng.randint(4, 12)) for (U, L, fb) in cfgs]
        for U, L, fb, ops, length in todo:
            if rounds > 0 and time.time() - t0 > budget:
                break
            r = run_case(U, L, fb, ops=ops, rng=ctx.rng, length=length or 0)
            done += 1
            ctx.case(("%s%s|%s|%s" % (U, L, ",".join(fb), Y.enc_ops(r["ops"]))) if r["nontrivial"] else None)
            ctx.count("roles", U + " over " + L)
            ctx.count("history length", str(len(r["ops"])))
            ctx.count("fall-back size", str(len(fb)))
            for op in r["ops"]:
                ctx.count("operations", {"s": "store", "m": "store_metadata", "r": "remove", "k": "makedir", "d": "removedir"}[op[0]] + (" recursive" if op[0] == "d" and op[2] else ""))
            if len(ctx.samples) < 4 and r["nontrivial"]:
                ctx.sample(dict(overlay=U, fallback=L, fallback_files=fb, history=Y.show_hist(r["ops"])))
            for i, st in enumerate(r["states"]):
                cases.append("%s over %s fb=%s after %s" % (U, L, ",".join(fb), Y.show_hist(r["ops"][:i])))
                impl.append(st)
            lines.append((model_line(U, L, r["init"], r["ops"]), len(r["states"])))
            for cls in sorted({c for c, _, _ in r["findings"]}):
                n = classes.get(cls, 0)
                classes[cls] = n + 1
                if n < 2:
                    report(ctx, U, L, fb, r["ops"], cls, seen, found_text=[t for c, t, _ in r["findings"] if c == cls][-1])
        rounds += 1
        if rounds > per_cfg or time.time() - t0 > budget:
            break
    ctx.count("histories", "total", done)
    if classes:
        ctx.notes.append("oracle finding classes (field@key -> histories): %r" % dict(sorted(classes.items())[:40]))
    ans = ctx.driver.ask([l for l, _ in lines])
    model = None
    if ans is not None:
        model = []
        for (l, n), a in zip(lines, ans):
            parts = a.split(";")
            model += parts if len(parts) == n else ["BAD-ANSWER " + a[:80]] * n
    ctx.compare("overlay state after every operation", cases, impl, model)


def search(ctx, broken, disagreements):
    """a broken obligation / correspondence without an oracle failure: spend the remaining budget on more histories"""
    import time
    t0, seen = time.time(), set()
    subsets = [list(c) for n in range(len(FILES) + 1) for c in itertools.combinations(FILES, n)]
    while time.time() - t0 < (300 if ctx.tier == "thorough" else 40) and not ctx.violations:
        U, L = ctx.rng.choice("MF"), ctx.rng.choice("MF")
        fb = ctx.rng.choice(subsets)
        r = run_case(U, L, fb, rng=ctx.rng, length=12)
        ctx.case(None)
        for cls in sorted({c for c, _, _ in r["findings"]}):
            report(ctx, U, L, fb, r["ops"], cls, seen, found_text=[t for c, t, _ in r["findings"] if c == cls][-1])
    ctx.notes.append("search: extra random histories of length 12 over all role/fall-back configurations")


def replay(ctx, case):
    ops = [Y.op_unjson(o) for o in case["ops"]]
    r = run_case(case["U"], case["L"], case["fb"], ops=ops)
    if not r["wf"]:
        return "replayed history is not well-formed on the reference view"
    bad = [t for c, t, _ in r["findings"] if c == case["cls"]] or [t for _, t, _ in r["findings"]]
    if bad:
        return "fall-back {%s}; %s; then %s" % (", ".join(case["fb"]), Y.show_hist(ops), bad[-1])
    return None
