"""C09 — cache reuse: cached prefixes are never re-executed.

Correspondence: (first evaluation, re-evaluation, evaluation of an extension of a prefix) on a cold cache of every configuration
vs the Lean evaluator model: outcome, call log of every evaluation, cache content.
Oracle (implementation only): the second evaluation executes no command; after a cacheable evaluation the cache contains the
canonical key and serves the value; evaluating `prefix + r` after `q` executes no command that belongs to the cached prefix.
"""
import evalprops as EP
import evalharness as H
import vocab, oracle_ref

RULE = ("successful, non-volatile, cache-enabled queries of the vocabulary (1-6 actions, links, namespaces, state variables) and extensions of their "
        "prefixes, x the cache configurations that admit results; non-trivial = distinct (configuration, query) with >= 2 actions")
TRUSTED = EP.TRUSTED
ASSUMPTIONS = EP.ASSUMPTIONS
EXPLANATION = "theorems in Props/C09.lean (hit, second_run_silent, present_after)"

ADMITTING = ["MemoryCache", "FileCache", "XORFileCache", "FernetFileCache", "SQLCache.from_sqlite", "SQLStringCache.from_sqlite",
             "StoreCache(MemoryStore,flat)", "StoreCache(MemoryStore,nested)", "StoreCache(FileStore,flat)", "MemoryCache+FileCache",
             "NoCache+MemoryCache", "MemoryCache.if_not_contains(abc)", "MemoryCache.if_not_contains(volatile)", "CacheProxy(MemoryCache)"]


def good_query(rng):
    """a query that the independent reference interpreter evaluates successfully, non-volatile and cache-enabled"""
    from liquer.commands import command_registry
    if not vocab_registered():
        vocab.register()
    ref = oracle_ref.Ref(command_registry(), {})
    for _ in range(200):
        q = H.g_query(rng, 2, special=0.0)
        if "zzz" in q or "boom" in q or "vol" in q or "nocache" in q:
            continue
        try:
            r = ref.run(q)
        except Exception:
            continue
        if "value" in r and not r["volatile"] and r["caching"]:
            return q
    return "one/add-2"


def task(args):
    ci, q, ext, dflt = args[:4]
    how = args[4] if len(args) > 4 else "E"          # how the query is evaluated the first two times: plain, or with EMPTY extra parameters
    tmp = EP.scratch()
    import shutil
    try:
        cache = EP.cache_configs(tmp)[ci][1]()
        s = EP.ImplSession(cache, dflt)
        out = []
        EP.set_global(cache, dflt)
        first = {"E": ("E", q), "XD": ("XD", q, {}), "XL": ("XL", q, []), "ED": ("E", q, "described")}[how]
        l1, o1 = s.run(first)
        out.append((l1, {k: v for k, v in o1.items() if k != "metadata"}))
        # cacheable according to the independent reference interpreter (not according to the flags the implementation reports)
        rf = EP.ref_flags(q, dflt)
        cacheable = (rf is not None and not rf.get("failed") and not rf.get("volatile") and rf.get("caching", True)) if rf is not None else (
            o1["kind"] == "state" and not o1["is_error"] and not o1["volatile"] and o1["caching"])
        cacheable = cacheable and o1["kind"] == "state" and not o1["is_error"]
        present = None
        if cacheable:
            c = EP.canonical(q)
            try:
                st = cache.get(c)
                present = dict(contains=bool(cache.contains(c)), value=None if st is None else vocab.canon(st.data))
            except Exception as e:
                present = dict(error=type(e).__name__)
        l2, o2 = s.run(first)
        out.append((l2, {k: v for k, v in o2.items() if k != "metadata"}))
        l3, o3 = s.run(("E", ext))
        out.append((l3, {k: v for k, v in o3.items() if k != "metadata"}))
        return out, cacheable, present
    finally:
        shutil.rmtree(tmp, ignore_errors=True)


def gen(ctx, per_config):
    rng = ctx.rng
    cfgs = EP.cache_configs("/nonexistent")
    items = []
    for ci, (name, _, kind) in enumerate(cfgs):
        if name not in ADMITTING:
            continue
        for _ in range(per_config):
            q = good_query(rng)
            parts = q.split("/")
            pre = "/".join(parts[:rng.randint(1, len(parts))])
            ext = pre + "/" + "/".join(H.g_action(rng, 1, False, 0.0) for _ in range(rng.randint(1, 2)))
            if rng.random() < 0.2:
                q, ext = "/" + q, "/" + ext          # absolute spelling: prefixes and extensions keep the leading slash
            how = rng.choice(["E", "E", "E", "XD", "XL", "ED"])       # ED: with a description (evaluate_template, GUI)      # empty extra parameters (what the web front-ends always pass) are no extra parameters
            items.append((ci, q, ext, {} if rng.random() < 0.8 else {"a": "dflt"}, how))
    return cfgs, items


def judge(ctx, cfgs, items, results):
    from liquer.commands import command_registry
    for (ci, q, ext, dflt, *how_), (out, cacheable, present) in zip(items, results):
        name = cfgs[ci][0]
        ctx.count("configuration", name)
        (l1, o1), (l2, o2), (l3, o3) = out
        ctx.case(("%s|%s" % (name, q)) if cacheable and q.count("/") >= 1 else None)
        ctx.count("first evaluation", "cacheable" if cacheable else "not cacheable")
        case = dict(kind="reuse", config=name, query=q, extension=ext, defaults=dflt, how=(how_[0] if how_ else "E"))
        ctx.count("first evaluations", {"E": "plain", "XD": "extra_parameters={}", "XL": "extra_parameters=[]", "ED": "with a description"}[case["how"]])
        ctx.count("spelling", "absolute" if q.startswith("/") else "relative")
        if not cacheable:
            continue
        if o2["calls"]:
            ctx.violation("rerun:%s:%s" % (name, q), "%s: re-evaluating %r executed %r" % (name, q, o2["calls"]), case)
        if o2.get("value") != o1.get("value"):
            ctx.violation("rerun-value:%s:%s" % (name, q), "%s: re-evaluating %r gives %r after %r" % (name, q, o2.get("value"), o1.get("value")), case)
        if not present or not present.get("contains") or present.get("value") != o1["value"]:
            ctx.violation("present:%s:%s" % (name, q), "%s: after evaluating %r the cache reports %r (value %r expected under %r)" % (name, q, present, o1["value"], EP.canonical(q)), case)
        # extension: commands of the cached prefix must not run again as top-level steps: the calls of the extension are bounded by
        # what the reference interpretation of the extension needs beyond the calls of the cached prefix
        if not vocab_registered():
            vocab.register()
        ref = oracle_ref.Ref(command_registry(), dflt)
        if ref is not None and o3["kind"] == "state":
            try:
                full = ref.run(ext)["calls"]
                prefix_text = common_prefix(q, ext)
                pc = ref.run(prefix_text)["calls"] if prefix_text else []
            except Exception:
                continue
            if prefix_text and len(o3["calls"]) > len(full) - len(pc):
                ctx.violation("extension:%s:%s" % (name, ext), "%s: after %r, evaluating %r executed %r — more than the steps right of the cached prefix %r need" % (name, q, ext, o3["calls"], prefix_text), case)
        if len(ctx.samples) < 5 and q.count("/") >= 2:
            ctx.sample(dict(config=name, query=q, calls_first=o1["calls"], calls_second=o2["calls"], extension=ext, calls_extension=o3["calls"]))


def vocab_registered():
    from liquer.commands import command_registry
    return "one" in command_registry().executables.get("root", {})


def common_prefix(q, ext):
    """longest common action prefix (textual) of q and ext"""
    a, b = q.split("/"), ext.split("/")
    n = 0
    while n < len(a) and n < len(b) and a[n] == b[n]:
        n += 1
    return "/".join(a[:n])


def run(ctx):
    per = 120 if ctx.tier == "thorough" else 30
    cfgs, items = gen(ctx, per)
    results = EP.common.pmap(task, items)
    judge(ctx, cfgs, items, results)
    def first(q, how):
        return {"E": ("E", q), "XD": ("XD", q, {}), "XL": ("XL", q, []), "ED": ("E", q, "described")}[how]
    sessions = [([first(q, how), first(q, how), ("E", ext)], dflt) for ci, q, ext, dflt, how in items]
    kinds = [cfgs[ci][2] for ci, q, ext, dflt, how in items]
    lines = [" | ".join(l for l, _ in out) for out, _, _ in results]
    EP.model_sessions(ctx, "evaluate, re-evaluate, evaluate an extension (calls and cache content) vs evaluator model", sessions, kinds, lines)


def search(ctx, broken, disagreements):
    cfgs, items = gen(ctx, 30)
    judge(ctx, cfgs, items, EP.common.pmap(task, items))
    if not ctx.violations:
        ctx.notes.append("enlarged search over %d further (configuration, query, extension) triples found no failing input" % len(items))


def replay(ctx, case):
    cfgs = EP.cache_configs("/nonexistent")
    ci = [c[0] for c in cfgs].index(case["config"])
    c2 = type(ctx)("C09", ctx.tier, ctx.seed)
    items = [(ci, case["query"], case["extension"], case["defaults"], case.get("how", "E"))]
    judge(c2, cfgs, items, [task(items[0])])
    return c2.violations[0]["what"] if c2.violations else None
