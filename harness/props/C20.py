"""C20 — the web service is a faithful transport of the library.

Correspondence / oracle (the implementation is compared with itself across the HTTP boundary, and with the
Lean gate model):
  1. Flask test client (client-side urllib quote of the query path) vs in-process evaluate + encode_state_data:
     status, body bytes, Content-Type; failing queries must not yield 2xx;
  2. random histories (<= 15) of store endpoints against a served MemoryStore vs the same library calls on a twin;
  3. the same for cache endpoints against a served MemoryCache;
  4. ALL enable/disable/register histories of length <= 5 through liquer.commands and through both registration
     endpoints, against the model's gate machine and an independent Python reading of "last toggle";
  5. RemoteStore with requests.get/post redirected to the test client, random store histories vs a twin MemoryStore.
"""
import glob, itertools, json, copy, os, urllib.parse, warnings
import common
from common import hx
from props.C03 import rand_text

RULE = ("queries over a fixed vocabulary of 11 commands (first-commands, int/str/float parameters, a raising command, text/dict/bytes/"
        "data-frame results) with 0-3 actions, arbitrary argument text (C03 generator) and every extension the result type writes plus "
        "unsupported ones; failing queries (raising command, unknown command, bad argument, parse error); random histories of <= 15 store / "
        "cache endpoint calls over 9 keys; all 364 gate histories of length <= 5 through 3 channels; RemoteStore histories of <= 15 calls; "
        "non-trivial = query with at least one argument or extension / history with at least one write and one removal")
TRUSTED = ["modelled (hand-written Lean mirror): enable/disable_remote_registration + the guard of register_remote_serialized (gate machine), serve/response control flow, "
           "urllib quote / WSGI un-quote (LiquerModel.Text)",
           "translated: Flask url_map + ast of every view function, RemoteStore method -> URL table (Gen/Routes.lean)",
           "Flask/werkzeug routing, header handling, WSGI, the requests library (replaced by an adapter onto the Flask test client: requote_uri + path) are third party"]
ASSUMPTIONS = ["the client quotes the query path (urllib.parse.quote); the WSGI layer un-quotes once",
               "query paths contain no raw newline and no empty segment (werkzeug's path converter rejects / merges them; encode_token and Query.encode never produce them)",
               "the root key '' is used with the read-only directory operations only (listdir, is_dir, contains, get_metadata)",
               "time stamps (created/updated) in store metadata are masked",
               "well-formed store histories: data and metadata are written only under keys that are never used as directories (MemoryStore.get_metadata rewrites the stored is_dir flag of a key that is both)",
               "xlsx output embeds its creation time and is compared by status and media type only"]
EXPLANATION = ("theorems: c20_gate (all histories, induction), c20_wire, c20_serve_never_2xx_on_failure / c20_serve_2xx / c20_serve_faithful, "
               "c20_routes (decide over the regenerated tables), c20_histories (refinement by the table)")

PREFIX = "/liquer"
KEYS = ["a", "b.txt", "a/b.txt", "a/c/d.json", "e/f", "x y.txt", "é.csv", "a/c", "e"]
FILE_KEYS = ["b.txt", "a/b.txt", "a/c/d.json", "e/f", "x y.txt", "é.csv"]      # never used as directories
DIR_KEYS = ["a", "a/c", "e", "g/h", "g"]
CACHE_KEYS = ["c20_echo", "c20_echo-a/c20_upper", "a b", "x/y.txt", "c20_num-1", "é"]
MASK = ("updated", "created", "filesystem_path")
_registered = False


def register_vocabulary():
    """the fixed command vocabulary (registered once per process)"""
    global _registered
    if _registered:
        return
    _registered = True
    from liquer.commands import command, first_command
    import liquer.ext.lq_pandas  # registers the data-frame state type
    import pandas as pd

    @first_command
    def c20_echo(x="dflt"):
        return x

    @first_command
    def c20_num(n: int = 3):
        return n

    @first_command
    def c20_dict(k="k"):
        return {k: [1, 2], "n": None, "s": k}

    @first_command
    def c20_bytes(s="x"):
        return s.encode("utf-8")

    @first_command
    def c20_df(n: int = 2, name="b"):
        return pd.DataFrame({"a": list(range(n)), name or "b": ["x"] * n})

    @command
    def c20_upper(s):
        return str(s).upper()

    @command
    def c20_add(x, n: int = 1, f: float = 0.0):
        return x + n + f

    @command
    def c20_join(x, a="", b="-"):
        return str(x) + b + a

    @command
    def c20_fail(x):
        raise ValueError("boom")

    @command
    def c20_wrap(x, k="v"):
        return {k: x}

    @command
    def c20_len(x):
        return len(x)


def make_app():
    from flask import Flask
    import liquer.server.blueprint as bp
    app = Flask("liquer_verif_c20")
    app.register_blueprint(bp.app, url_prefix=PREFIX)
    return app


# ---------------------------------------------------------------- 1. serve

def gen_query(rng, P, exts_by_type):
    """(query text, expected to succeed?) built from the vocabulary"""
    first = rng.choice(["c20_echo", "c20_echo", "c20_num", "c20_dict", "c20_bytes", "c20_df"])
    q = P.Query()
    kind = {"c20_echo": "text", "c20_num": "generic", "c20_dict": "dictionary", "c20_bytes": "bytes", "c20_df": "dataframe"}[first]
    if first == "c20_num":
        q = q.with_action(first, *([str(rng.randint(-50, 50))] if rng.random() < 0.7 else []))
    elif first == "c20_df":
        q = q.with_action(first, *([str(rng.randint(0, 4))] + ([rand_text(rng)] if rng.random() < 0.3 else []) if rng.random() < 0.7 else []))
    else:
        q = q.with_action(first, *([rand_text(rng)] if rng.random() < 0.8 else []))
    for _ in range(rng.randint(0, 2)):
        if kind == "generic" and rng.random() < 0.6:
            q = q.with_action("c20_add", str(rng.randint(-9, 9)), *([rng.choice(["0.5", "-2.25", "1e3", "3"])] if rng.random() < 0.5 else []))
        elif kind == "text" and rng.random() < 0.7:
            if rng.random() < 0.5:
                q = q.with_action("c20_upper")
            else:
                q = q.with_action("c20_join", rand_text(rng), *([rand_text(rng)] if rng.random() < 0.5 else []))
        elif rng.random() < 0.3:
            q = q.with_action("c20_wrap", *([rand_text(rng)] if rng.random() < 0.7 else []))
            kind = "dictionary"
        elif kind in ("text", "bytes", "dictionary", "dataframe") and rng.random() < 0.3:
            q = q.with_action("c20_len")
            kind = "generic"
    text = q.encode()
    r = rng.random()
    if r < 0.75:
        exts = exts_by_type.get(kind, ["json"])
        ext = rng.choice(exts + ["zzz", "pickle", "csv", "json", "txt"]) if rng.random() < 0.25 else rng.choice(exts)
        text += "/" + rng.choice(["data", "out", "a.b", "x y"]).replace(" ", "~.") + "." + ext
    return text


def gen_failing(rng, P):
    r = rng.random()
    base = P.Query().with_action("c20_echo", rand_text(rng)).encode()
    if r < 0.25:
        return base + "/c20_fail" + rng.choice(["", "/c20_upper", "/x.txt"])
    if r < 0.45:
        return base + "/c20_nosuch_" + rng.choice(["a", "b"]) + rng.choice(["", "-1"])
    if r < 0.65:
        return "c20_num-" + rng.choice(["abc", "1.5x", "~~", "--"]) + rng.choice(["", "/c20_add-1"])
    if r < 0.8:
        return "c20_num/c20_add-" + rng.choice(["x", "1-y"])
    return rng.choice(["c20_echo-~X~", "c20_echo-a//c20_upper", "c20_echo-~", "/", "c20_echo-a/-/", "c20_echo-%zz~Q", "-", "c20_echo/c20_upper-~X"])


def inproc(q):
    """in-process evaluation + serialisation: (200, bytes, mime) or ('ERR', exception type)"""
    from liquer.query import evaluate
    from liquer.state_types import encode_state_data
    with warnings.catch_warnings():
        warnings.simplefilter("ignore")
        try:
            st = evaluate(q)
            b, m, t = encode_state_data(st.get(), extension=st.extension)
            return (200, bytes(b), m)
        except BaseException as ex:
            return ("ERR", type(ex).__name__)


def http(client, q):
    with warnings.catch_warnings():
        warnings.simplefilter("ignore")
        r = client.get(PREFIX + "/q/" + urllib.parse.quote(q))
    return (r.status_code, r.data, r.headers.get("Content-Type"))


def oracle_serve(client, q):
    a, b = inproc(q), http(client, q)
    if a[0] == "ERR":
        if 200 <= b[0] < 300:
            return "query %r fails in process (%s) but the web service answers %d with %d bytes (%s)" % (q, a[1], b[0], len(b[1]), b[2])
        return None
    if b[0] != 200:
        return "query %r evaluates in process (%d bytes, %s) but the web service answers %d" % (q, len(a[1]), a[2], b[0])
    if (b[2] or "").split(";")[0].strip() != a[2]:
        return "query %r: media type over HTTP %r, in process %r" % (q, b[2], a[2])
    if q.rsplit(".", 1)[-1] == "xlsx":
        return None
    if a[1] != b[1]:
        return "query %r: body over HTTP differs from the in-process serialisation (%r… vs %r…)" % (q, b[1][:40], a[1][:40])
    return None


# ---------------------------------------------------------------- snapshots

def mask(md):
    if isinstance(md, dict):
        return {k: mask(v) for k, v in md.items() if k not in MASK}
    if isinstance(md, list):
        return [mask(x) for x in md]
    return md


def canon(v):
    return json.dumps(mask(v), sort_keys=True, default=repr)


def snap_store(s):
    if hasattr(s, "directories"):
        return canon(dict(dirs=sorted(s.directories), data={k: v.hex() if isinstance(v, (bytes, bytearray)) else repr(v) for k, v in s.data.items()}, metadata=s.metadata))
    # any other store (FileStore): through its own interface
    out = {}
    for k in sorted(s.keys()):
        d = bool(s.is_dir(k))
        try:
            md = s.get_metadata(k)
        except Exception:
            md = "?"
        out[k] = dict(dir=d, data=None if d else s.get_bytes(k).hex(), metadata=md)
    return canon(out)


def store_pair(kind):
    """(served store, twin driven directly, cleanup)"""
    import liquer.store as ST
    if kind == "mem":
        return ST.MemoryStore(), ST.MemoryStore(), (lambda: None)
    import tempfile, shutil
    d = common.scratch_dir("liquer-verif-c20-")
    os.makedirs(os.path.join(d, "served")); os.makedirs(os.path.join(d, "twin"))
    return ST.FileStore(os.path.join(d, "served")), ST.FileStore(os.path.join(d, "twin")), (lambda: shutil.rmtree(d, ignore_errors=True))


def snap_cache(c):
    return canon({k: dict(data=repr(st.data), metadata=st.metadata) for k, st in c.storage.items()})


def lib(f):
    """result of a library call: ('ok', canonical value) or ('err',)"""
    try:
        return "ok " + canon(f())
    except Exception as ex:
        return "err"


# ---------------------------------------------------------------- 2. store endpoints

STORE_OPS = ["get", "put", "getm", "putm", "remove", "removedir", "contains", "is_dir", "keys", "listdir", "makedir", "upload"]


def gen_store_hist(rng, n):
    h = []
    for _ in range(rng.randint(1, n)):
        op = rng.choice(STORE_OPS + ["put", "put", "get", "remove"])
        k = rng.choice(FILE_KEYS if op in ("put", "upload", "putm") else DIR_KEYS if op == "makedir" else KEYS)
        if op in ("listdir", "is_dir", "contains", "getm") and rng.random() < 0.1:
            k = ""            # the root directory
        arg = None
        if op in ("put", "upload"):
            arg = rng.choice(["", "data", "\x00\xff", rand_text(rng)])
        elif op == "putm":
            arg = rng.choice([{}, {"title": rand_text(rng)}, {"mimetype": "text/x-test", "n": 1}, {"key": "other", "fileinfo": {"name": "zz"}}])
        h.append([op, k, arg])
    return h


def store_endpoint(client, op, k, arg):
    """(reported result, canonical) of one endpoint call"""
    u = PREFIX + "/api/store/"
    qk = urllib.parse.quote(k)
    if op == "get":
        r = client.get(u + "data/" + qk)
        return "ok " + canon(dict(data=r.data.hex(), mimetype=r.headers.get("Content-Type"))) if r.status_code == 200 else "err"
    if op == "put":
        r = client.post(u + "data/" + qk, data=arg.encode("latin-1", "replace") if isinstance(arg, str) else arg)
        return "ok null" if r.status_code == 200 and r.get_json()["status"] == "OK" else "err"
    if op == "upload":
        import io
        r = client.post(u + "upload/" + qk, data={"file": (io.BytesIO(arg.encode("latin-1", "replace")), "f.bin")}, content_type="multipart/form-data")
        return "ok null" if r.status_code == 200 and r.get_json()["status"] == "OK" else "err"
    if op == "getm":
        r = client.get(u + "metadata/" + qk)
        return "ok " + canon(r.get_json()) if r.status_code == 200 else "err"
    if op == "putm":
        r = client.post(u + "metadata/" + qk, json=arg)
        return "ok null" if r.status_code == 200 and r.get_json()["status"] == "OK" else "err"
    field = dict(remove=None, removedir=None, contains="contains", is_dir="is_dir", keys="keys", listdir="listdir", makedir=None)[op]
    r = client.get(u + (op if op == "keys" else op + "/" + qk))
    if r.status_code != 200:
        return "err"
    j = r.get_json()
    if j.get("status") != "OK":
        return "err"
    v = j[field] if field else None
    return "ok " + canon(sorted(v) if field in ("keys", "listdir") and isinstance(v, list) else v)


def store_library(s, op, k, arg):
    from liquer.store import KeyNotFoundStoreException
    if op == "get":
        return lib(lambda: dict(data=s.get_bytes(k).hex(), mimetype=s.get_metadata(k).get("mimetype", "application/octet-stream")))
    if op in ("put", "upload"):
        def put():
            try:
                md = s.get_metadata(k)
            except KeyNotFoundStoreException:
                md = {}
            s.store(k, arg.encode("latin-1", "replace"), md)
        return lib(put)
    if op == "getm":
        return lib(lambda: s.get_metadata(k))
    if op == "putm":
        return lib(lambda: s.store_metadata(k, copy.deepcopy(arg)))
    if op == "keys":
        return lib(lambda: sorted(s.keys()))
    if op == "listdir":
        def ld():
            r = s.listdir(k)
            return sorted(r) if isinstance(r, list) else r
        return lib(ld)
    return lib(lambda: getattr(s, op)(k))


def run_store_hist(client, h, kind="mem"):
    """None or (index, description) of the first divergence"""
    import liquer.store as ST
    served, twin, cleanup = store_pair(kind)
    old = ST.get_store()
    ST.set_store(served)
    try:
        for i, (op, k, arg) in enumerate(h):
            with warnings.catch_warnings():
                warnings.simplefilter("ignore")
                a = store_endpoint(client, op, k, arg)
                b = store_library(twin, op, k, arg)
            if a != b:
                return i, "store endpoint %s(%r) reports %s, the library call on the twin %s" % (op, k, a[:200], b[:200])
            sa, sb = snap_store(served), snap_store(twin)
            if sa != sb:
                return i, "after store endpoint %s(%r) the served store (%s) is %s, the twin %s" % (op, k, kind, sa[:300], sb[:300])
    finally:
        ST.set_store(old)
        cleanup()
    return None


# ---------------------------------------------------------------- 3. cache endpoints

CACHE_OPS = ["seed", "get", "meta", "putmeta", "remove", "contains", "keys", "clean"]


def gen_cache_hist(rng, n):
    h = []
    for _ in range(rng.randint(1, n)):
        op = rng.choice(CACHE_OPS + ["seed", "seed", "get"])
        k = rng.choice(CACHE_KEYS)
        arg = None
        if op == "seed":
            arg = rng.choice(["text", 5, {"a": 1}, None, rand_text(rng)])
        elif op == "putmeta":
            arg = dict(query=rng.choice(CACHE_KEYS), status=rng.choice(["ready", "evaluation", "error"]), message=rand_text(rng))
        h.append([op, k, arg])
    return h


def cache_endpoint(client, op, k, arg):
    u = PREFIX + "/api/cache/"
    qk = urllib.parse.quote(k)
    if op == "get":
        r = client.get(u + "get/" + qk)
        return "ok " + canon(dict(data=r.data.hex(), mimetype=(r.headers.get("Content-Type") or "").split(";")[0])) if r.status_code == 200 else "none" if r.status_code == 404 else "err"
    if op == "meta":
        r = client.get(u + "meta/" + qk)
        return "ok " + canon(r.get_json()) if r.status_code == 200 else "err"
    if op == "putmeta":
        r = client.post(u + "meta/" + qk, json=arg)
        j = r.get_json() if r.status_code == 200 else None
        return "ok " + canon(j["result"]) if j and j["status"] == "OK" else "err"
    if op == "keys":
        r = client.get(u + "keys.json")
        return "ok " + canon(sorted(r.get_json()["keys"])) if r.status_code == 200 else "err"
    if op == "clean":
        r = client.get(u + "clean")
        return "ok null" if r.status_code == 200 and r.get_json()["status"] == "OK" else "err"
    r = client.get(u + op + "/" + qk)
    if r.status_code != 200:
        return "err"
    return "ok " + canon(r.get_json()[dict(remove="removed", contains="cached")[op]])


def cache_library(c, op, k, arg):
    from liquer.state_types import encode_state_data
    if op == "get":
        def g():
            st = c.get(k)
            if st is None:
                return None
            b, m, t = encode_state_data(st.get(), extension=st.extension)
            return dict(data=bytes(b).hex(), mimetype=m)
        try:
            r = g()
        except Exception:
            return "err"
        return "none" if r is None else "ok " + canon(r)
    if op == "meta":
        def m():
            md = c.get_metadata(k)
            return dict(query=k, status="not available", cached=False) if md == False else md
        return lib(m)
    if op == "putmeta":
        return lib(lambda: c.store_metadata(copy.deepcopy(arg)))
    if op == "keys":
        return lib(lambda: sorted(c.keys()))
    if op == "clean":
        return lib(lambda: c.clean())
    return lib(lambda: getattr(c, op)(k))


def seed_state(k, v):
    from liquer.state import State
    st = State().with_data(v)
    st.query = k
    return st


def run_cache_hist(client, h):
    import liquer.cache as CA
    served, twin = CA.MemoryCache(), CA.MemoryCache()
    old = CA.get_cache()
    CA.set_cache(served)
    try:
        for i, (op, k, arg) in enumerate(h):
            with warnings.catch_warnings():
                warnings.simplefilter("ignore")
                if op == "seed":   # not an endpoint: both caches are filled through the library
                    served.store(seed_state(k, arg))
                    twin.store(seed_state(k, arg))
                    continue
                a = cache_endpoint(client, op, k, arg)
                b = cache_library(twin, op, k, arg)
            if a != b:
                return i, "cache endpoint %s(%r) reports %s, the library call on the twin %s" % (op, k, a[:200], b[:200])
            sa, sb = snap_cache(served), snap_cache(twin)
            if sa != sb:
                return i, "after cache endpoint %s(%r) the served cache is %s, the twin %s" % (op, k, sa[:300], sb[:300])
    finally:
        CA.set_cache(old)
    return None


def shrink_hist(run, h):
    """delta debugging on the op sequence: drop ops while the history still diverges"""
    h = list(h)
    r = run(h)
    if r is None:
        return h, None
    h = h[:r[0] + 1]
    i = 0
    while i < len(h):
        cand = h[:i] + h[i + 1:]
        if cand and run(cand) is not None:
            h = cand
        else:
            i += 1
    return h, run(h)


def hist_key(h):
    return ";".join("%s(%s)" % (op, k) for op, k, _ in h)


# ---------------------------------------------------------------- 4. the registration gate

DISABLED_MESSAGE = "Remote command registration is disabled."


def remote_payloads():
    from liquer.commands import command_registry, command_metadata_from_callable

    def c20_remote(x=1):
        return x

    md = command_metadata_from_callable(c20_remote, has_state_argument=False, attributes=dict(modify_command=True))
    reg = command_registry()
    return reg.encode_registration(c20_remote, md, modify=True), reg.encode_registration_base64(c20_remote, md, modify=True)


def run_gate(client, channel, hist, payloads):
    """outcome string: one char per call, '-' toggle, '1' accepted, '0' refused"""
    import liquer.commands as C
    C._remote_registration = False          # the documented initial state
    out = []
    for op in hist:
        if op == "e":
            C.enable_remote_registration()
            out.append("-")
        elif op == "d":
            C.disable_remote_registration()
            out.append("-")
        else:
            if channel == "function":
                r = C.command_registry().register_remote_serialized(payloads[0])
            elif channel == "post":
                r = client.post(PREFIX + "/api/register_command/", data=payloads[0]).get_json()
            else:
                r = client.get(PREFIX + "/api/register_command/" + payloads[1].decode("ascii")).get_json()
            out.append("0" if r.get("message") == DISABLED_MESSAGE else "1" if r.get("status") == "OK" else "?")
    C._remote_registration = False
    return "".join(out)


def gate_spec(hist):
    """independent reading of the property: a register is accepted iff the most recent toggle before it was enable"""
    out = []
    for i, op in enumerate(hist):
        if op != "r":
            out.append("-")
            continue
        toggles = [o for o in hist[:i] if o != "r"]
        out.append("1" if toggles and toggles[-1] == "e" else "0")
    return "".join(out)


# ---------------------------------------------------------------- 5. RemoteStore

class FakeResponse:
    def __init__(self, r, url):
        self.r, self.url = r, url
        self.status_code = r.status_code
        self.content = r.data
        self.ok = r.status_code < 400

    def json(self):
        return json.loads(self.r.data.decode("utf-8"))

    def raise_for_status(self):
        if self.status_code >= 400:
            import requests
            raise requests.HTTPError("%d for %s" % (self.status_code, self.url))


def patch_requests(client):
    """requests.get/post -> Flask test client (requests' own URL preparation: requote_uri)"""
    import requests
    import liquer.remote_store as RS
    saved = (RS.requests.get, RS.requests.post)

    def path_of(url, params=None):
        # requests' own URL preparation (requote_uri + the encoding of `params` into the query string)
        pr = requests.models.PreparedRequest()
        pr.prepare_url(url, params)
        p = urllib.parse.urlsplit(pr.url)
        return p.path + ("?" + p.query if p.query else "")

    def get(url, params=None, **kw):
        return FakeResponse(client.get(path_of(url, params)), url)

    def post(url, json=None, data=None, headers=None, params=None, **kw):
        if json is not None:
            return FakeResponse(client.post(path_of(url, params), json=json), url)
        return FakeResponse(client.post(path_of(url, params), data=data, headers=headers), url)

    RS.requests.get, RS.requests.post = get, post
    return saved


def unpatch_requests(saved):
    import liquer.remote_store as RS
    RS.requests.get, RS.requests.post = saved


REMOTE_OPS = ["get_bytes", "store", "get_metadata", "store_metadata", "remove", "removedir", "removedir_r", "contains", "is_dir", "keys", "listdir", "makedir"]


def gen_remote_hist(rng, n):
    h = []
    for _ in range(rng.randint(1, n)):
        op = rng.choice(REMOTE_OPS + ["store", "store", "contains", "get_bytes"])
        k = rng.choice(FILE_KEYS if op in ("store", "store_metadata") else DIR_KEYS if op == "makedir" else KEYS)
        if op in ("listdir", "is_dir", "contains", "get_metadata") and rng.random() < 0.1:
            k = ""            # the root directory
        arg = None
        if op == "store":
            arg = [rng.choice(["", "data", "\x00\xff", rand_text(rng)]), rng.choice([{}, {"title": "t"}, {"mimetype": "text/x-test"}])]
        elif op == "store_metadata":
            arg = rng.choice([{}, {"title": rand_text(rng)}, {"mimetype": "text/x-test", "n": 1}])
        h.append([op, k, arg])
    return h


def remote_call(s, op, k, arg):
    if op == "store":
        return lib(lambda: s.store(k, arg[0].encode("latin-1", "replace"), copy.deepcopy(arg[1])))
    if op == "store_metadata":
        return lib(lambda: s.store_metadata(k, copy.deepcopy(arg)))
    if op == "get_bytes":
        return lib(lambda: s.get_bytes(k).hex())
    if op == "keys":
        return lib(lambda: sorted(s.keys()))
    if op == "removedir_r":
        return lib(lambda: s.removedir(k, recursive=True))
    if op == "listdir":
        def ld():
            r = s.listdir(k)
            return None if r is None else sorted(r)
        return lib(ld)
    return lib(lambda: getattr(s, op)(k))


def run_remote_hist(client, h, kind="mem"):
    import liquer.store as ST
    from liquer.remote_store import RemoteStore
    served, twin, cleanup = store_pair(kind)
    old = ST.get_store()
    ST.set_store(served)
    saved = patch_requests(client)
    try:
        rs = RemoteStore("http://localhost" + PREFIX + "/api/")
        for i, (op, k, arg) in enumerate(h):
            with warnings.catch_warnings():
                warnings.simplefilter("ignore")
                a = remote_call(rs, op, k, arg)
                b = remote_call(twin, op, k, arg)
            if a != b:
                return i, "RemoteStore.%s(%r) gives %s, MemoryStore.%s gives %s" % (op, k, a[:200], op, b[:200])
            sa, sb = snap_store(served), snap_store(twin)
            if sa != sb:
                return i, "after RemoteStore.%s(%r) the served store is %s, a MemoryStore driven directly %s" % (op, k, sa[:300], sb[:300])
    finally:
        unpatch_requests(saved)
        ST.set_store(old)
        cleanup()
    return None


# ---------------------------------------------------------------- run

def exts_by_type():
    import gen_statetypes
    sv = gen_statetypes.survey()
    return {r["ident"]: [e for e, _ in r["writes"] if e != "xlsx"] for r in sv["rows"]}


def setup():
    import liquer.cache as CA
    register_vocabulary()
    CA.set_cache(CA.NoCache())
    app = make_app()
    return app, app.test_client()


def run(ctx):
    import liquer.parser as P
    rng = ctx.rng
    app, client = setup()
    thorough = ctx.tier == "thorough"
    ebt = exts_by_type()
    for k in ("bytes", "text"):   # every extension is written: sample a few
        if k in ebt:
            ebt[k] = [e for e in ebt[k] if e in ("txt", "b", "bin", "json", "html", "csv", "md", "zzz", "png")]

    # ---- corpus first (minimised past failures)
    for p in sorted(glob.glob(os.path.join(common.VERIF, "corpus", "C20", "*.json"))):
        case = json.load(open(p))["case"]
        ctx.case("corpus:" + os.path.basename(p))
        still = replay_case(client, case)
        if still:
            ctx.violation("corpus:" + os.path.basename(p), still, case)

    # ---- 1. serve
    nq = 6000 if thorough else 600
    ok = fail = 0
    for i in range(nq):
        q = gen_query(rng, P, ebt) if rng.random() < 0.8 else gen_failing(rng, P)
        a = inproc(q)
        ctx.case("q:" + q if ("-" in q or "." in q) else None)
        if a[0] == 200:
            ok += 1
        else:
            fail += 1
            ctx.count("failing queries by exception", a[1])
        bad = oracle_serve(client, q)
        if bad:
            ctx.violation(("fail2xx:" if a[0] == "ERR" else "serve:") + q, bad, dict(kind="serve", query=q))
        if i < 3:
            ctx.sample(dict(query=q, in_process=str(a[0]), media_type=a[2] if a[0] == 200 else a[1]))
    ctx.count("queries", "evaluating", ok)
    ctx.count("queries", "failing", fail)
    # wire: what the view receives is what the client quoted (model: unquote (quote s) = s)
    texts = [rand_text(rng) for _ in range(2000 if thorough else 300)]
    # werkzeug's <path:…> converter does not match a raw newline and merges empty segments (both are
    # never produced by encode_token / Query.encode): outside the routable domain
    texts = [t for t in texts if t and not t.startswith("/") and "//" not in t and "\n" not in t]
    got = []
    for t in texts:
        r = client.get(PREFIX + "/api/cache/contains/" + urllib.parse.quote(t))
        got.append(hx(r.get_json()["query"]) if r.status_code == 200 else "status %d" % r.status_code)
    model = ctx.driver.ask(["tok.unquote " + hx(urllib.parse.quote(t)) for t in texts])
    ctx.compare("wire: path parameter delivered to the view", texts, got, model)
    for t, g in zip(texts, got):
        if g != hx(t) and "//" not in t and not g.startswith("status"):
            ctx.violation("wire:" + hx(t), "path %r quoted by the client reaches the view as %r" % (t, bytes.fromhex(g).decode("utf-8", "replace") if g != "-" else ""), dict(kind="wire", text=t))

    # ---- 2./3. endpoint histories
    nh = 4000 if thorough else 400
    for name, gen, runner in (("store", gen_store_hist, run_store_hist), ("cache", gen_cache_hist, run_cache_hist)):
        for i in range(nh):
            h = gen(rng, 15)
            ops = {o for o, _, _ in h}
            ctx.case("%s:%s" % (name, hist_key(h)) if ops & {"put", "putm", "seed", "putmeta"} and ops & {"remove", "removedir", "clean"} else None)
            ctx.count(name + " history length", str(len(h)))
            # every fourth store history is served from a directory store (its keys() is a generator, its listings come from the file system)
            kw = dict(kind="file") if name == "store" and i % 4 == 3 else {}
            if kw:
                ctx.count("served store", "FileStore")
            r = runner(client, h, **kw)
            if r is not None:
                hs, rs_ = shrink_hist(lambda x: runner(client, x, **kw), h)
                ctx.violation("%s-hist:%s" % (name, hist_key(hs)), (rs_ or r)[1], dict(kind=name + "-hist", history=hs, **({"store": "file"} if kw else {})))
            if i == 0:
                ctx.sample(dict(kind=name + " endpoint history", history=hist_key(h)))

    # ---- 4. the gate: exhaustive, three channels, model and specification
    payloads = remote_payloads()
    hists = ["".join(t) for n in range(0, 6) for t in itertools.product("edr", repeat=n)]
    ctx.exhaustive.append("all %d histories of length <= 5 over enable/disable/register, through liquer.commands, the POST endpoint and the GET endpoint" % len(hists))
    model = ctx.driver.ask(["web.gate 0 " + (h or "-") for h in hists])
    for channel in ("function", "post", "get"):
        impl, reported = [], 0
        for h in hists:
            ctx.case("gate:%s:%s" % (channel, h) if "r" in h else None)
            o = run_gate(client, channel, h, payloads)
            impl.append(o)
            if o != gate_spec(h):
                ctx.count("gate histories violating the property", channel)
                reported += 1
                if reported > 2:      # histories are enumerated by length: the first ones are the minimal ones
                    continue
                ctx.violation("gate:%s:%s" % (channel, h), "history %s through %s: outcomes %s, expected %s (a registration is accepted iff the most recent toggle before it was enable)" % (
                    "/".join(dict(e="enable", d="disable", r="register")[c] for c in h), channel, o, gate_spec(h)), dict(kind="gate", channel=channel, history=h))
        ctx.compare("gate machine (%s)" % channel, hists, impl, model)

    # ---- 5. RemoteStore against the served store
    nr = 3000 if thorough else 300
    for i in range(nr):
        h = gen_remote_hist(rng, 15)
        ops = {o for o, _, _ in h}
        ctx.case("remote:" + hist_key(h) if "store" in ops and ops & {"remove", "removedir", "removedir_r"} else None)
        kind = "file" if i % 4 == 3 else "mem"
        r = run_remote_hist(client, h, kind)
        if r is not None:
            hs, rs_ = shrink_hist(lambda x: run_remote_hist(client, x, kind), h)
            ctx.violation("remote:%s" % hist_key(hs), (rs_ or r)[1], dict(kind="remote-hist", history=hs, store=kind))
    ctx.count("histories", "RemoteStore", nr)


def search(ctx, broken, disagreements):
    """enlarged search after a broken obligation: every single-op and two-op RemoteStore / endpoint history over two keys"""
    app, client = setup()
    n = 0
    for ops in itertools.chain(itertools.product(REMOTE_OPS, repeat=1), itertools.product(["store"], REMOTE_OPS), itertools.product(["store"], REMOTE_OPS, REMOTE_OPS)):
        for k in ("a/b.txt", "a"):
            if k == "a" and set(ops) & {"store", "store_metadata"} or k != "a" and "makedir" in ops:
                continue      # well-formed histories only: files are not directories
            h = [[o, k, ["data", {}] if o == "store" else {} if o == "store_metadata" else None] for o in ops]
            n += 1
            r = run_remote_hist(client, h)
            if r is not None:
                hs, rs_ = shrink_hist(lambda x: run_remote_hist(client, x), h)
                ctx.violation("remote:%s" % hist_key(hs), (rs_ or r)[1], dict(kind="remote-hist", history=hs))
                return
    payloads = remote_payloads()
    for h in ["".join(t) for n_ in range(0, 7) for t in itertools.product("edr", repeat=n_)]:
        n += 1
        if run_gate(client, "function", h, payloads) != gate_spec(h):
            ctx.violation("gate:function:%s" % h, "history %s: outcomes %s, expected %s" % (h, run_gate(client, "function", h, payloads), gate_spec(h)), dict(kind="gate", channel="function", history=h))
            return
    ctx.notes.append("enlarged search over %d histories found no failing input" % n)


def replay(ctx, case):
    app, client = setup()
    return replay_case(client, case)


def replay_case(client, case):
    k = case["kind"]
    if k == "serve":
        return oracle_serve(client, case["query"])
    if k == "wire":
        t = case["text"]
        r = client.get(PREFIX + "/api/cache/contains/" + urllib.parse.quote(t))
        got = r.get_json()["query"] if r.status_code == 200 else None
        return None if got == t else "path %r reaches the view as %r" % (t, got)
    if k == "store-hist":
        r = run_store_hist(client, case["history"], "file" if case.get("store") == "file" else "mem")
        return r and r[1]
    if k == "cache-hist":
        r = run_cache_hist(client, case["history"])
        return r and r[1]
    if k == "remote-hist":
        r = run_remote_hist(client, case["history"], case.get("store", "mem"))
        return r and r[1]
    if k == "gate":
        o = run_gate(client, case["channel"], case["history"], remote_payloads())
        return None if o == gate_spec(case["history"]) else "history %s through %s: outcomes %s, expected %s" % (case["history"], case["channel"], o, gate_spec(case["history"]))
    return "unknown replay kind"
