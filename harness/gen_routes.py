"""Translator part for C20: the Flask URL map of the blueprint with the library call(s) every view function
makes (by `ast`), and the URL every `RemoteStore` method requests.

Called from harness/extract.py (`gen_routes`).  Emits lean/LiquerModel/Gen/Routes.lean.
"""
import ast, inspect, textwrap

BLUEPRINT_PREFIX = "/liquer"

STORE_OPS = dict(get_bytes="storeGetBytes", get_metadata="storeGetMetadata", store="storeStore",
                 store_metadata="storeStoreMetadata", remove="storeRemove", removedir="storeRemovedir",
                 contains="storeContains", is_dir="storeIsDir", keys="storeKeys", listdir="storeListdir",
                 makedir="storeMakedir")
CACHE_OPS = dict(get="cacheGet", get_metadata="cacheGetMetadata", store_metadata="cacheStoreMetadata",
                 remove="cacheRemove", contains="cacheContains", keys="cacheKeys", clean="cacheClean")
FUNCS = dict(evaluate="evaluate", evaluate_in_background="evaluateInBackground")
REMOTE_METHODS = ["get_bytes", "get_metadata", "store", "store_metadata", "remove", "removedir", "contains",
                  "is_dir", "keys", "listdir", "makedir", "openbin"]


def _mentions(node, name):
    return any(isinstance(n, ast.Name) and n.id == name for n in ast.walk(node))


def view_calls(fn, params):
    """[(op constructor | ('other', target, method), keyarg)] in source order"""
    try:
        src = textwrap.dedent(inspect.getsource(fn))
        tree = ast.parse(src)
    except (OSError, TypeError, SyntaxError):
        return None
    fdef = next((n for n in ast.walk(tree) if isinstance(n, (ast.FunctionDef, ast.AsyncFunctionDef))), None)
    if fdef is None:
        return None
    # local aliases: x = get_store() / x = get_cache()
    alias = {}
    reassigned = set()
    for n in ast.walk(fdef):
        if isinstance(n, ast.Assign):
            for t in n.targets:
                if isinstance(t, ast.Name):
                    if isinstance(n.value, ast.Call) and isinstance(n.value.func, ast.Name) and n.value.func.id in ("get_store", "get_cache", "command_registry"):
                        alias[t.id] = n.value.func.id
                    if t.id in params:
                        reassigned.add(t.id)
        elif isinstance(n, ast.AugAssign) and isinstance(n.target, ast.Name) and n.target.id in params:
            reassigned.add(n.target.id)

    def target_of(v):
        if isinstance(v, ast.Call) and isinstance(v.func, ast.Name) and v.func.id in ("get_store", "get_cache", "command_registry"):
            return v.func.id
        if isinstance(v, ast.Name) and v.id in alias:
            return alias[v.id]
        return None

    def keyarg(call):
        args = list(call.args) + [k.value for k in call.keywords]
        if args and isinstance(args[0], ast.Name) and args[0].id in params and args[0].id not in reassigned:
            return "path"
        if any(_mentions(a, p) for a in args for p in params):
            return "derived"
        return "none"

    found = []
    for n in ast.walk(fdef):
        if not isinstance(n, ast.Call):
            continue
        f = n.func
        op = None
        if isinstance(f, ast.Attribute):
            tg = target_of(f.value)
            if tg == "get_store":
                op = STORE_OPS.get(f.attr) or ("other", "store", f.attr)
            elif tg == "get_cache":
                op = CACHE_OPS.get(f.attr) or ("other", "cache", f.attr)
            elif tg == "command_registry":
                op = "registerRemote" if f.attr == "register_remote_serialized" else None
        elif isinstance(f, ast.Name) and f.id in FUNCS:
            op = FUNCS[f.id]
        if op is not None:
            found.append(((n.lineno, n.col_offset), op, keyarg(n)))
    found.sort(key=lambda x: x[0])
    return [(op, k) for _, op, k in found]


def survey_routes():
    from flask import Flask
    import liquer.server.blueprint as bp
    app = Flask("liquer_verif_routes")
    app.register_blueprint(bp.app, url_prefix=BLUEPRINT_PREFIX)
    rows = []
    for rule in app.url_map.iter_rules():
        if not rule.endpoint.startswith(bp.app.name + "."):
            continue
        r = rule.rule
        if r.startswith(BLUEPRINT_PREFIX):
            r = r[len(BLUEPRINT_PREFIX):] or "/"
        fn = app.view_functions.get(rule.endpoint)
        calls = view_calls(fn, set(rule.arguments)) if fn is not None else None
        rows.append(dict(rule=r, methods=sorted(set(rule.methods) - {"HEAD", "OPTIONS"}), endpoint=rule.endpoint.split(".", 1)[1],
                         calls=calls or [], params=sorted(rule.arguments)))
    rows.sort(key=lambda x: (x["rule"], x["methods"]))
    return rows


def survey_remote():
    import liquer.remote_store as RS
    src = textwrap.dedent(inspect.getsource(RS.RemoteStore))
    cls = next(n for n in ast.walk(ast.parse(src)) if isinstance(n, ast.ClassDef))
    verbs = dict(fetch="GET", fetch_json="GET", fetch_bytes="GET", post_json="POST", post_bytes="POST")
    rows = []
    for fdef in cls.body:
        if not isinstance(fdef, ast.FunctionDef) or fdef.name not in REMOTE_METHODS:
            continue
        reqs = []
        for n in ast.walk(fdef):
            if isinstance(n, ast.Call) and isinstance(n.func, ast.Attribute) and isinstance(n.func.value, ast.Name) and n.func.value.id == "self" and n.func.attr in verbs and n.args:
                a = n.args[0]
                if isinstance(a, ast.Call) and isinstance(a.func, ast.Attribute) and a.func.attr == "concat_api" and a.args and isinstance(a.args[0], ast.Constant):
                    reqs.append(((n.lineno, n.col_offset), verbs[n.func.attr], str(a.args[0].value), True))
                elif isinstance(a, ast.Constant) and isinstance(a.value, str):
                    reqs.append(((n.lineno, n.col_offset), verbs[n.func.attr], a.value, False))
                else:
                    reqs.append(((n.lineno, n.col_offset), verbs[n.func.attr], "?", False))
        reqs.sort(key=lambda x: x[0])
        rows.append(dict(method=fdef.name, requests=[(v, s, k) for _, v, s, k in reqs]))
    rows.sort(key=lambda x: x["method"])
    return rows


def gen(changed, X):
    lc = X.lean_chars

    def op(o):
        if isinstance(o, tuple):
            return "(.other %s %s)" % (lc(o[1]), lc(o[2]))
        return "." + o

    routes, remote = survey_routes(), survey_remote()
    t = X.HEADER + "import LiquerModel.Web\nnamespace Liquer.Gen\nopen Liquer.Web\n\n"
    t += "/-- `app.url_map` of a fresh Flask app with the blueprint registered (prefix `%s` stripped); `calls`: the\nlibrary calls of the view function on `get_store()` / `get_cache()` / `evaluate` / the command registry, by `ast`,\nin source order, with the origin of the key argument -/\n" % BLUEPRINT_PREFIX
    t += "def routes : List Route := [\n%s]\n\n" % ",\n".join(
        "  { rule := %s,\n    methods := [%s], endpoint := %s,\n    calls := [%s] }" % (
            lc(r["rule"]), ", ".join(lc(m) for m in r["methods"]), lc(r["endpoint"]),
            ", ".join("(%s, .%s)" % (op(o), k) for o, k in r["calls"])) for r in routes)
    t += "/-- `RemoteStore`: the requests each store method issues itself (verb, URL suffix, key appended) -/\n"
    t += "def remoteStoreRows : List RemoteRow := [\n%s]\n\n" % ",\n".join(
        "  { method := %s, requests := [%s] }" % (lc(r["method"]), ", ".join("(%s, %s, %s)" % (lc(v), lc(s), "true" if k else "false") for v, s, k in r["requests"]))
        for r in remote)
    t += "end Liquer.Gen\n"
    X.write_if_changed("Routes.lean", t, changed)
