"""Translator part for C20 (filled in below)."""


def gen(changed, X):
    pass
