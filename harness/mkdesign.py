#!/usr/bin/env python3
"""Regenerate the generated parts of DESIGN.md: §5.1 (fix commits of /repo), §5.2 (known findings), the table of §8 (seeded changes)."""
import json, os, subprocess
HERE = os.path.dirname(os.path.abspath(__file__))
V = os.path.join(HERE, "..")
WHY = {
 'C02-rtq-capture': 'the grammar has no canonical spelling for the transform reading; repairing it changes the query language',
 'C02-res-header-empty-param': 'only writable with white space; repairing it changes the printer of resource headers and the grammar',
 'D19': 'changes the on-disk layout of the nested store-backed cache',
 'D7f-keys-mount-parents': 'needs de-duplication against the default store inside a generator',
 'D7g-recipes-key-double-prefix': 'two classes use two conventions for recipes_key',
 'C06-pos-subevaluation-text': 'positions would have to be re-based on the canonical text of every sub-query',
 'C18-no-action-status': 'a query without any action never passes through evaluate_action',
 'C04-rtq-ambiguous-text': 'consequence of C02-rtq-capture', 'C05-rtq-ambiguous-text': 'consequence of C02-rtq-capture',
 'C12-rtq-ambiguous-text': 'consequence of C02-rtq-capture',
 'C10-volatile-input-not-cloned': 'cloning always was tried: volatile states may hold uncopyable data (2 baseline tests fail)'}


def main():
    k = json.load(open(os.path.join(V, "known_findings.json")))
    log = subprocess.check_output(['git', '-C', '/repo', 'log', '--format=%h %s', '47b593f..HEAD']).decode().strip().split('\n')
    subj = {l.split(' ', 1)[0]: l.split(' ', 1)[1] for l in log}
    fixed = {f['commit']: f for f in k['fixed']}
    missing = [c for c in subj if c not in fixed]
    assert not missing, "fix commits not recorded in known_findings.json: %r" % missing
    rows = ["| `%s` | %s | %s |" % (c, fixed[c]['property'], subj[c][5:].strip()) for c in reversed(list(subj))]
    sec = ("### 5.1 Genuine defects repaired in `/repo` (one `fix:` commit each; the suite of 216 tests stays green)\n\n| commit | property | what failed |\n|---|---|---|\n"
           + "\n".join(rows) + "\n\nEvery entry is recorded as `fixed: property=<id> <commit> <what failed>` in `known_findings.json`; a fixed entry suppresses nothing — the "
           "failing input of each is kept in `corpus/<ID>/` (where the property's harness replays a corpus) and the check reports the violation again if it returns.\n\n"
           "### 5.2 Known findings (genuine violations of the unchanged tree that are recorded, not repaired)\n\n| id | property | what fails | why not repaired |\n|---|---|---|---|\n")
    for f in k['findings']:
        sec += "| %s | %s | %s | %s |\n" % (f['id'], f['property'], f['what'].replace('|', '\\|')[:520], WHY.get(f['id'], ''))
    sec += ("\nEach finding is matched by the specific key of the failing input (never by property id alone); the check prints `KNOWN-FINDING: property=<id> …` and exits 0; "
            "any other violation of the same property is reported.\n\n")
    p = os.path.join(V, "DESIGN.md")
    s = open(p).read()
    i, j = s.index('### 5.1 Genuine defects repaired'), s.index('## 6. Limits, false-alarm policy')
    s = s[:i] + sec + s[j:]
    tab = subprocess.check_output(['python3', os.path.join(HERE, 'mkseedtable.py')]).decode()
    i, j = s.index('| seeded change | property | what it does | caught by |'), s.index('Misses and what they led to')
    s = s[:i] + tab + '\n' + s[j:]
    open(p, 'w').write(s)
    print("DESIGN.md regenerated: %d fixes, %d findings" % (len(rows), len(k['findings'])))


if __name__ == "__main__":
    main()
