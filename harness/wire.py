"""Wire format of the query AST (see lean/LiquerModel/Wire.lean) from liquer.parser objects."""
from common import hx


def ser_param(p, pos=True):
    from liquer.parser import StringActionParameter, LinkActionParameter
    o = p.position.offset if pos else 0
    if isinstance(p, StringActionParameter):
        return ["S", hx(p.string), str(o)]
    if isinstance(p, LinkActionParameter):
        return ["L", str(o)] + ser_query(p.link, pos)
    raise TypeError(type(p))


def ser_action(a, pos=True):
    r = ["A", hx(a.name), str(a.position.offset if pos else 0), str(len(a.parameters))]
    for p in a.parameters:
        r += ser_param(p, pos)
    return r


def ser_header(h, pos=True):
    if h is None:
        return ["N"]
    r = ["H", hx(h.name), str(h.level), "1" if h.resource else "0", str(len(h.parameters))]
    for p in h.parameters:
        r += ser_param(p, pos)
    return r


def ser_seg(s, pos=True):
    from liquer.parser import TransformQuerySegment
    if isinstance(s, TransformQuerySegment):
        r = ["T"] + ser_header(s.header, pos) + [str(len(s.query))]
        for a in s.query:
            r += ser_action(a, pos)
        r.append("N" if s.filename is None else hx(str(s.filename)))
        return r
    r = ["R"] + ser_header(s.header, pos) + [str(len(s.query))]
    return r + [hx(x.encode()) for x in s.query]


def ser_query(q, pos=True):
    r = ["Q", "1" if q.absolute else "0", str(len(q.segments))]
    for s in q.segments:
        r += ser_seg(s, pos)
    return r


def ser(q, pos=True):
    return " ".join(ser_query(q, pos))
