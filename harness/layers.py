"""Shared by props/C15.py (overlay) and props/C14.py (mount points): operation encoding of the
`ov` / `mt` line protocol (lean/LiquerModel/Handlers/StoreLayers.lean), canonical observations of an
implementation store, raw snapshots, an independent dict-based reference file system, shrinking."""
import hashlib, os, shutil, json
from common import hx, scratch_dir

# ops: ("s", key, data, user, size, md5data) | ("m", key, user, size, md5data) | ("r", key) | ("d", key, rec) | ("k", key)


def kx(key):
    return hx(key)


def enc_size(z):
    return "n" if z is None else str(z)


def enc_md5(d):
    return "n" if d is None else "h" + hx(d)


def enc_op(op):
    t = op[0]
    if t == "s":
        return "s:%s:%s:%s:%s:%s" % (kx(op[1]), hx(op[2]), hx(op[3]), enc_size(op[4]), enc_md5(op[5]))
    if t == "m":
        return "m:%s:%s:%s:%s" % (kx(op[1]), hx(op[2]), enc_size(op[3]), enc_md5(op[4]))
    if t == "r":
        return "r:" + kx(op[1])
    if t == "d":
        return "d:%s:%d" % (kx(op[1]), 1 if op[2] else 0)
    if t == "k":
        return "k:" + kx(op[1])
    raise ValueError(op)


def enc_ops(ops):
    return ",".join(enc_op(o) for o in ops) if ops else "-"


def enc_keys(ks):
    return ",".join(kx(k) for k in ks) if ks else "."


def show_op(op):
    t = op[0]
    if t == "s":
        return "store(%r, %r, user=%r)" % (op[1], op[2], op[3])
    if t == "m":
        return "store_metadata(%r, user=%r%s)" % (op[1], op[2], "" if op[3] is None else ", size=%r carried" % op[3])
    if t == "r":
        return "remove(%r)" % op[1]
    if t == "d":
        return "removedir(%r, recursive=%r)" % (op[1], bool(op[2]))
    return "makedir(%r)" % op[1]


def show_hist(ops):
    return "; ".join(show_op(o) for o in ops) or "(no operation)"


def op_json(op):
    return [x.decode("latin1") if isinstance(x, bytes) else x for x in op]


def op_unjson(l):
    l = list(l)
    if l[0] == "s":
        l[2] = l[2].encode("latin1")
        l[5] = None if l[5] is None else l[5].encode("latin1")
    if l[0] == "m":
        l[4] = None if l[4] is None else l[4].encode("latin1")
    return tuple(l)


def md_dict(user, size=None, md5data=None):
    d = {"user": user}
    if size is not None or md5data is not None:
        d["fileinfo"] = {}
        if size is not None:
            d["fileinfo"]["size"] = size
        if md5data is not None:
            d["fileinfo"]["md5"] = hashlib.md5(md5data).hexdigest()
    return d


def err(ex):
    import liquer.store as S
    if isinstance(ex, S.KeyNotFoundStoreException):
        return "Enf"
    if isinstance(ex, S.KeyNotSupportedStoreException):
        return "Ens"
    if isinstance(ex, S.KeyRouteNotFoundStoreException):
        return "Ern"
    if isinstance(ex, S.ReadOnlyStoreException):
        return "Ero"
    return "Eot"


def apply_impl(store, op):
    try:
        t = op[0]
        if t == "s":
            store.store(op[1], op[2], md_dict(op[3], op[4], op[5]))
        elif t == "m":
            md = md_dict(op[2], op[3], op[4])
            if op[3] is not None or op[4] is not None:
                # the read-modify-write idiom: the dictionary handed to store_metadata is the one get_metadata returned (same fields as
                # before; a store that hands out its own record would let the update reach places it must not)
                try:
                    got = store.get_metadata(op[1])
                except Exception:
                    got = None
                if isinstance(got, dict):
                    got.update(md)
                    md = got
            store.store_metadata(op[1], md)
        elif t == "r":
            store.remove(op[1])
        elif t == "d":
            store.removedir(op[1], recursive=bool(op[2]))
        elif t == "k":
            store.makedir(op[1])
        return "r=ok"
    except Exception as ex:
        return "r=" + err(ex)


class Md5Map:
    """md5 hex digest -> the data it is the digest of (the model represents md5 by the data itself)"""

    def __init__(self):
        self.m = {}

    def add(self, data):
        self.m[hashlib.md5(data).hexdigest()] = data

    def enc(self, digest):
        if digest is None:
            return "n"
        if digest in self.m:
            return "h" + hx(self.m[digest])
        return "?" + str(digest)


def call(f, *a):
    """(value, None) or (None, error enum)"""
    try:
        return f(*a), None
    except Exception as ex:
        return None, err(ex)


def read_key(store, k, md5):
    """everything observable about one key, as python values: dict(field -> ("ok", value) | ("err", enum))"""
    res = {}
    v, e = call(store.contains, k)
    res["contains"] = ("err", e) if e else ("ok", bool(v))
    v, e = call(store.is_dir, k)
    res["is_dir"] = ("err", e) if e else ("ok", bool(v))
    v, e = call(store.get_bytes, k)
    res["get_bytes"] = ("err", e) if e else ("ok", v)
    v, e = call(store.get_metadata, k)
    if e:
        res["get_metadata"] = ("err", e)
    elif not isinstance(v, dict):
        res["get_metadata"] = ("ok", None)
    else:
        fi = v.get("fileinfo") or {}
        res["get_metadata"] = ("ok", dict(key=v.get("key"), name=fi.get("name"), is_dir=bool(fi.get("is_dir")), size=fi.get("size"), md5=fi.get("md5"), user=v.get("user", "")))
    v, e = call(store.listdir, k)
    res["listdir"] = ("err", e) if e else ("ok", None if v is None else sorted(v))
    return res


def enc_read(k, r, md5):
    """the `O…` item of the protocol"""
    def f(x, g):
        return x[1] if x[0] == "err" else g(x[1])
    def meta(m):
        if m is None:
            return "?None"
        return "M%s,%s,%s,%s,%s,%s" % (kx(m["key"] or ""), hx(m["name"] or ""), "T" if m["is_dir"] else "F", enc_size(m["size"]), md5.enc(m["md5"]), hx(m["user"] or ""))
    return "O%s|%s|%s|%s|%s|%s" % (
        kx(k), f(r["contains"], lambda b: "T" if b else "F"), f(r["is_dir"], lambda b: "T" if b else "F"),
        "E" if r["get_bytes"][0] == "err" else f(r["get_bytes"], lambda d: "?None" if d is None else "B" + hx(d)), f(r["get_metadata"], meta),
        f(r["listdir"], lambda l: "N" if l is None else "L" + ",".join(sorted(hx(x) for x in l))))


def read_keys(store):
    v, e = call(lambda: list(store.keys()))
    return ("err", e) if e else ("ok", v)


def enc_keylist(r):
    return "K" + (r[1] if r[0] == "err" else ",".join(sorted(kx(k) for k in r[1])))


def dump(store, md5):
    """content of a part through its own interface, same format as `dump` of the handler"""
    ks, e = call(lambda: list(store.keys()))
    if e:
        return e
    items = []
    for k in ks:
        d, e = call(store.is_dir, k)
        if e is None and d:
            items.append(kx(k) + "=D")
            continue
        r = read_key(store, k, md5)
        o = enc_read(k, r, md5).split("|")
        items.append(kx(k) + "=" + o[3] + "/" + o[4])
    return ",".join(sorted(items))


# ---------------------------------------------------------------- part stores
class Parts:
    """factory of MemoryStore / FileStore parts with scratch directories removed by close()"""

    def __init__(self):
        self.root = None
        self.n = 0

    def make(self, kind):
        import liquer.store as S
        if kind == "M":
            return S.MemoryStore()
        if self.root is None:
            self.root = scratch_dir()
        self.n += 1
        d = os.path.join(self.root, "s%d" % self.n)
        os.makedirs(d)
        return S.FileStore(d)

    def close(self):
        if self.root is not None:
            shutil.rmtree(self.root, ignore_errors=True)
            self.root = None


def raw_snapshot(store):
    """byte-level content of a part, independent of its read methods"""
    import liquer.store as S
    if isinstance(store, S.MemoryStore):
        return ("M", tuple(sorted(store.directories)), tuple(sorted(store.data.items())), json.dumps(store.metadata, sort_keys=True, default=str))
    res = []
    for dp, dn, fn in os.walk(str(store.path)):
        rel = os.path.relpath(dp, str(store.path))
        res.append(("D", rel))
        for f in fn:
            with open(os.path.join(dp, f), "rb") as fh:
                res.append(("F", os.path.join(rel, f), fh.read()))
    return ("F", tuple(sorted(res)))


# ---------------------------------------------------------------- reference file system
def ancestors(k):
    p = k.split("/")
    return ["/".join(p[:i]) for i in range(1, len(p))]


class Ref:
    """dict-based reference: key -> ("D",) | ("F", data, user, size, md5data); written independently of the
    Lean specification and of liquer.store"""

    def __init__(self):
        self.n = {}

    def copy(self):
        r = Ref()
        r.n = dict(self.n)
        return r

    def is_file(self, k):
        return k in self.n and self.n[k][0] == "F"

    def is_dir(self, k):
        return k == "" or (k in self.n and self.n[k][0] == "D")

    def contains(self, k):
        return k == "" or k in self.n

    def children(self, k):
        pre = k + "/" if k else ""
        return sorted({x[len(pre):] for x in self.n if x.startswith(pre) and "/" not in x[len(pre):] and x != k})

    def keys(self):
        return sorted(self.n)

    def wf(self, op):
        t, k = op[0], op[1]
        if t == "s":
            return k != "" and not self.is_dir(k) and not any(self.is_file(a) for a in ancestors(k))
        if t in ("m", "r"):
            return self.is_file(k)
        if t == "d":
            return k != "" and self.is_dir(k) and (bool(op[2]) or not self.children(k))
        if t == "k":
            return k != "" and not any(self.is_file(a) for a in ancestors(k) + [k])
        return False

    def apply(self, op):
        t, k = op[0], op[1]
        if t == "s":
            for a in ancestors(k):
                self.n.setdefault(a, ("D",))
            self.n[k] = ("F", op[2], op[3], len(op[2]), op[2])
        elif t == "m":
            self.n[k] = ("F", self.n[k][1], op[2], op[3], op[4])
        elif t == "r":
            del self.n[k]
        elif t == "d":
            for x in [x for x in self.n if x == k or x.startswith(k + "/")]:
                del self.n[x]
        elif t == "k":
            for a in ancestors(k) + [k]:
                self.n.setdefault(a, ("D",))

    def expect(self, k):
        """expected observation of key k: dict(field -> value); bytes None = must raise, meta None = must raise,
        listdir None = not a directory (None or [] accepted)"""
        e = dict(contains=self.contains(k), is_dir=self.is_dir(k), get_bytes=None, get_metadata=None, listdir=None)
        name = k.split("/")[-1]
        if self.is_file(k):
            _, d, u, z, h = self.n[k]
            e["get_bytes"] = d
            e["get_metadata"] = dict(key=k, name=name, is_dir=False, size=z, md5=None if h is None else hashlib.md5(h).hexdigest(), user=u)
        elif self.is_dir(k):
            e["get_metadata"] = dict(key=k, name=name, is_dir=True)
            e["listdir"] = self.children(k)
        return e

    def dump(self, md5):
        items = []
        for k in self.keys():
            v = self.n[k]
            if v[0] == "D":
                items.append(kx(k) + "=D")
            else:
                items.append("%s=B%s/M%s,%s,F,%s,%s,%s" % (kx(k), hx(v[1]), kx(k), hx(k.split("/")[-1]), enc_size(v[3]), enc_md5(v[4]), hx(v[2])))
        return ",".join(sorted(items))


def diff_obs(got, exp):
    """compare read_key() result with Ref.expect(); list of (field, text)"""
    bad = []
    for f in ("contains", "is_dir"):
        if got[f] != ("ok", exp[f]):
            bad.append((f, "%s = %s, expected %r" % (f, show(got[f]), exp[f])))
    if exp["get_bytes"] is None:
        if got["get_bytes"][0] == "ok":
            bad.append(("get_bytes", "get_bytes returned %r for a key that is not a file (must raise)" % (got["get_bytes"][1],)))
    elif got["get_bytes"] != ("ok", exp["get_bytes"]):
        bad.append(("get_bytes", "get_bytes = %s, expected %r" % (show(got["get_bytes"]), exp["get_bytes"])))
    g = got["get_metadata"]
    if exp["get_metadata"] is None:
        if g[0] == "ok":
            bad.append(("get_metadata", "get_metadata returned %r for an absent key (must raise)" % (g[1],)))
    elif g[0] != "ok" or g[1] is None:
        bad.append(("get_metadata", "get_metadata = %s, expected %r" % (show(g), exp["get_metadata"])))
    else:
        for fld, v in exp["get_metadata"].items():
            if g[1].get(fld) != v:
                bad.append(("get_metadata." + fld, "get_metadata[%s] = %r, expected %r" % (fld, g[1].get(fld), v)))
    l = got["listdir"]
    if exp["listdir"] is None:
        if l[0] == "ok" and l[1]:
            bad.append(("listdir", "listdir of a non-directory = %r" % (l[1],)))
    elif l != ("ok", exp["listdir"]):
        bad.append(("listdir", "listdir = %s, expected %r" % (show(l), exp["listdir"])))
    return bad


def show(x):
    return "raises " + x[1] if x[0] == "err" else repr(x[1])


def shrink(items, still_fails, budget=400):
    """greedy one-at-a-time removal (from the end: later ops depend on earlier ones)"""
    items = list(items)
    changed = True
    while changed and budget > 0:
        changed = False
        for i in range(len(items) - 1, -1, -1):
            cand = items[:i] + items[i + 1:]
            budget -= 1
            if budget <= 0:
                break
            if still_fails(cand):
                items = cand
                changed = True
                break
    return items


def load_corpus(prop):
    """minimised past failures (corpus/<prop>/*.json, the `case` format of the replays), replayed first"""
    import glob
    from common import VERIF
    res = []
    for f in sorted(glob.glob(os.path.join(VERIF, "corpus", prop, "*.json"))):
        try:
            res.append(json.load(open(f)))
        except Exception:
            pass
    return res
