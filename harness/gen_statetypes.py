"""Translator part for C11: the state-type registry of the current tree, probed from the live objects.

Called from harness/extract.py (`gen_state_types`).  Emits lean/LiquerModel/Gen/StateTypes.lean:
rows (identifier, class, default extension, extensions written with the media type reported, extensions
read), `state_types_dictionary` (key -> identifier of the object stored), the default state type,
`MIMETYPES`, `TYPE_IDENTIFIER_BY_EXTENSION`.
"""
import warnings

# modules that register state types: the two the baseline suite relies on, others only if they import offline
REQUIRED_MODULES = ["liquer.state_types", "liquer.ext.lq_pandas"]
OPTIONAL_MODULES = ["liquer.ext.lq_polars"]


def import_registering_modules():
    import importlib
    loaded = []
    for m in REQUIRED_MODULES:
        importlib.import_module(m)
        loaded.append(m)
    for m in OPTIONAL_MODULES:
        try:
            importlib.import_module(m)
            loaded.append(m)
        except Exception:
            pass
    return loaded


def samples_for(identifier):
    """representative sample values per state type identifier (the set is recorded in the generated file)"""
    if identifier == "bytes":
        return [b"", b"\x00\xffabc"]
    if identifier == "text":
        return ["", "héllo\n"]
    if identifier == "dictionary":
        return [{}, {"a": 1, "b": "x"}]
    if identifier == "generic":
        return [None, 1, 1.5]
    if identifier == "pickle":
        return [[1, "a"], True]
    if identifier == "dataframe":
        import pandas as pd
        return [pd.DataFrame({"a": [1, 2], "b": ["x", "y"]})]
    if identifier == "polars_dataframe":
        import polars as pl
        return [pl.DataFrame({"a": [1, 2], "b": ["x", "y"]})]
    if identifier == "polars_lazyframe":
        import polars as pl
        return [pl.DataFrame({"a": [1, 2], "b": ["x", "y"]}).lazy()]
    return None


def candidate_extensions():
    from liquer.constants import MIMETYPES, TYPE_IDENTIFIER_BY_EXTENSION
    return sorted(set(MIMETYPES) | set(TYPE_IDENTIFIER_BY_EXTENSION) | {"zzz"})


def probe(st, samples, exts):
    """(writes: [(ext, mime)], reads: [ext]) — an extension is written when as_bytes accepts it for every
    sample and returns bytes; it is read when from_bytes then accepts those bytes for every sample"""
    writes, reads = [], []
    for e in exts:
        blobs, mime, ok = [], None, True
        for s in samples:
            try:
                with warnings.catch_warnings():
                    warnings.simplefilter("ignore")
                    b, m = st.as_bytes(s, extension=e)
                if not isinstance(b, (bytes, bytearray)) or not isinstance(m, str):
                    ok = False
                    break
                blobs.append(bytes(b))
                mime = mime or m
            except BaseException:
                ok = False
                break
        if not ok:
            continue
        writes.append((e, mime))
        rok = True
        for b in blobs:
            try:
                with warnings.catch_warnings():
                    warnings.simplefilter("ignore")
                    st.from_bytes(b, extension=e)
            except BaseException:
                rok = False
                break
        if rok:
            reads.append(e)
    return writes, reads


def describe(v):
    """stable description of a sample value (no addresses)"""
    if v is None or isinstance(v, (bytes, str, int, float, list, dict, tuple)):
        return repr(v)[:60].replace("\n", " ")
    shape = getattr(v, "shape", None)
    cols = getattr(v, "columns", None)
    return "%s%s%s" % (qualname(type(v)), "" if shape is None else " shape=%s" % (tuple(shape),), "" if cols is None else " columns=%s" % list(cols))


def qualname(cls):
    return "%s.%s" % (cls.__module__, cls.__qualname__)


def survey():
    """plain-Python description of the registry (also used by harness/props/C11.py)"""
    from liquer.state_types import state_types_registry
    from liquer.constants import MIMETYPES, TYPE_IDENTIFIER_BY_EXTENSION
    loaded = import_registering_modules()
    reg = state_types_registry()
    exts = candidate_extensions()
    objs = {}                      # identifier -> representative object (last registered wins, as in the dict)
    entries = []                   # (key, identifier, class)
    for k, o in reg.state_types_dictionary.items():
        entries.append((k, o.identifier(), qualname(type(o))))
        objs[o.identifier()] = o
    d = reg.default_state_type
    objs.setdefault(d.identifier(), d)
    rows, unprobed = [], []
    for ident in sorted(objs):
        smp = samples_for(ident)
        if smp is None:
            unprobed.append(ident)
            continue
        o = objs[ident]
        w, r = probe(o, smp, exts)
        rows.append(dict(ident=ident, cls=qualname(type(o)), default=o.default_extension(), writes=w, reads=r,
                         samples=[describe(s) for s in smp]))
    probed = {r["ident"] for r in rows}
    entries = [e for e in entries if e[1] in probed]
    return dict(modules=loaded, rows=rows, dict=entries, default=d.identifier(), unprobed=unprobed,
                mimetypes=list(MIMETYPES.items()), type_by_ext=list(TYPE_IDENTIFIER_BY_EXTENSION.items()), exts=exts)


def gen(changed, X):
    """X: the extract module (lean_chars, write_if_changed, HEADER)"""
    lc = X.lean_chars
    s = survey()
    t = X.HEADER + "import LiquerModel.StateTypes\nnamespace Liquer.Gen\nopen Liquer.StateTypes\n\n"
    t += "/- modules imported before reading the registry: %s\n   candidate extensions probed: keys of MIMETYPES and TYPE_IDENTIFIER_BY_EXTENSION plus `zzz` (%d)\n" % (", ".join(s["modules"]), len(s["exts"]))
    for r in s["rows"]:
        t += "   samples for `%s`: %s\n" % (r["ident"], " | ".join(r["samples"]).replace("-/", "- /").replace("/-", "/ -"))
    if s["unprobed"]:
        t += "   registered but not probed (no sample values known): %s\n" % ", ".join(s["unprobed"])
    t += "-/\n\n"
    rows = []
    for r in s["rows"]:
        rows.append("  { ident := %s, cls := %s, defaultExt := %s,\n    writes := [%s],\n    reads := [%s] }" % (
            lc(r["ident"]), lc(r["cls"]), lc(r["default"]),
            ",\n      ".join("(%s, %s)" % (lc(e), lc(m)) for e, m in r["writes"]),
            ", ".join(lc(e) for e in r["reads"])))
    t += "/-- the distinct state type objects of `state_types_registry()` (and its default), probed -/\n"
    t += "def stateTypeRows : List Row := [\n%s]\n\n" % ",\n".join(rows)
    t += "/-- `state_types_registry().state_types_dictionary`: key, identifier of the object stored, its class -/\n"
    t += "def stateTypeDictClasses : List (Str × Str × Str) := [\n  %s]\n\n" % ",\n  ".join("(%s, %s, %s)" % (lc(k), lc(i), lc(c)) for k, i, c in s["dict"])
    t += "def stateTypeRegistry : Registry :=\n  { rows := stateTypeRows, dict := stateTypeDictClasses.map (fun e => (e.1, e.2.1)), default := %s }\n\n" % lc(s["default"])
    t += "/-- `liquer.constants.MIMETYPES` -/\ndef mimetypes : List (Str × Str) := [\n  %s]\n\n" % ",\n  ".join("(%s, %s)" % (lc(k), lc(v)) for k, v in s["mimetypes"])
    t += "/-- `liquer.constants.TYPE_IDENTIFIER_BY_EXTENSION` -/\ndef typeIdByExt : List (Str × Str) := [\n  %s]\n\n" % ",\n  ".join("(%s, %s)" % (lc(k), lc(v)) for k, v in s["type_by_ext"])
    t += "end Liquer.Gen\n"
    X.write_if_changed("StateTypes.lean", t, changed)
