"""Translator part of C18 (called from extract.py: gen_evalmeta): emits lean/LiquerModel/Gen/EvalMeta.lean.

For every value kind of the evaluator model's `Val` the LIVE `type_identifier_of` and `data_characteristics` are probed on sample
values; the *kind* of a characteristics description is its first word (the rest of the text depends on the value itself: "Integer 5",
"Text 3 characters long."). All samples of one kind must agree, otherwise the translation fails (and with it the check).
`MIMETYPES` is not repeated here: `Liquer.Gen.mimetypes` of Gen/StateTypes.lean is the same live table.
"""

SAMPLES = [
    ("none", [None]),
    ("int", [0, 5, -3, 12345678901234567890]),
    ("bool", [True, False]),
    ("str", ["", "abc", "héllo w"]),
    ("flt", [0.5, -2.0, 1000.0]),
    ("list", [[], [1, "a"], [[1], None]]),
]


def kind_of_description(d):
    """first word of `data_characteristics(v)["description"]`"""
    return (d or "").split(" ")[0]


def probe():
    from liquer.state_types import type_identifier_of, data_characteristics
    rows = []
    for kind, samples in SAMPLES:
        tids = {type_identifier_of(v) for v in samples}
        dcs = {kind_of_description(data_characteristics(v).get("description")) for v in samples}
        dct = {data_characteristics(v).get("type_identifier") for v in samples}
        if len(tids) != 1 or len(dcs) != 1:
            raise ValueError("value kind %s: samples disagree: type identifiers %r, description kinds %r" % (kind, tids, dcs))
        if dct != tids:
            raise ValueError("value kind %s: data_characteristics names type %r, type_identifier_of %r" % (kind, dct, tids))
        rows.append((kind, tids.pop(), dcs.pop()))
    return rows


def gen(changed, X):
    from liquer.constants import Status, mimetype_from_extension
    rows = probe()
    text = X.HEADER + "import LiquerModel.Value\nnamespace Liquer.Gen\n\n"
    text += "/- samples probed per value kind: " + "; ".join("%s: %s" % (k, " | ".join(repr(v) for v in vs)) for k, vs in SAMPLES) + " -/\n\n"
    text += ("/-- value kind of `Val` ↦ (`type_identifier_of(v)`, first word of `data_characteristics(v)[\"description\"]`), probed on the live "
             "state types registry -/\ndef valueTypeTable : List (Str × Str × Str) := [\n  %s]\n\n" % ",\n  ".join(
                 "(%s, %s, %s)" % (X.lean_chars(k), X.lean_chars(t), X.lean_chars(d)) for k, t, d in rows))
    text += "/-- `Status.READY.value` -/\ndef metaStatusReady : Str := %s\n\n" % X.lean_chars(Status.READY.value)
    text += "/-- `Status.ERROR.value` -/\ndef metaStatusError : Str := %s\n\n" % X.lean_chars(Status.ERROR.value)
    text += "/-- `mimetype_from_extension(None)`: the default media type -/\ndef metaDefaultMimetype : Str := %s\n\n" % X.lean_chars(mimetype_from_extension(None))
    text += "end Liquer.Gen\n"
    X.write_if_changed("EvalMeta.lean", text, changed)
