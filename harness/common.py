"""Shared machinery of ./check: build + audit of the Lean obligations, the model driver,
evidence / replay / known-findings plumbing, and the decision procedure of DESIGN §2.3."""
import os, sys, json, time, random, subprocess, re, hashlib, tempfile, shutil, traceback, fcntl

VERIF = os.path.dirname(os.path.dirname(os.path.abspath(__file__)))
LEAN = os.path.join(VERIF, "lean")
DRIVER = os.environ.get("VERIF_DRIVER") or os.path.join(LEAN, ".lake", "build", "bin", "driver")   # VERIF_DRIVER: development only
LOCK = os.path.join(LEAN, ".build.lock")
REPO = os.environ.get("VERIF_REPO", "/repo")
ALLOWED_AXIOMS = {"propext", "Classical.choice", "Quot.sound"}
FORBIDDEN = re.compile(r"\b(sorry|admit|native_decide|bv_decide|implemented_by|unsafe)\b|^axiom\s|maxHeartbeats\s+0\b", re.M)

_real_out = None


def out(line):
    """print on the real stdout (liquer's own chatter is redirected to /dev/null)"""
    global _real_out
    if _real_out is None:
        _real_out = sys.__stdout__
    _real_out.write(line + "\n")
    _real_out.flush()


def silence():
    """keep a private handle on stdout, send fd 1/2 (liquer prints a lot) to /dev/null"""
    global _real_out
    if os.environ.get("VERIF_DEBUG"):
        return
    sys.stdout.flush()
    sys.stderr.flush()
    _real_out = os.fdopen(os.dup(1), "w")
    dn = os.open(os.devnull, os.O_WRONLY)
    os.dup2(dn, 1)
    os.dup2(dn, 2)
    import logging
    logging.disable(logging.CRITICAL)


def hx(s):
    """hex field of the line protocol"""
    if isinstance(s, str):
        s = s.encode("utf-8", "surrogatepass")
    return s.hex() if s else "-"


def unhx(h):
    return b"" if h == "-" else bytes.fromhex(h)


def unhxs(h):
    return unhx(h).decode("utf-8")


class Locked:
    def __enter__(self):
        self.f = open(LOCK, "w")
        fcntl.flock(self.f, fcntl.LOCK_EX)
        return self

    def __exit__(self, *a):
        fcntl.flock(self.f, fcntl.LOCK_UN)
        self.f.close()


def run_cmd(cmd, cwd=None, timeout=None, env=None):
    e = dict(os.environ)
    if env:
        e.update(env)
    p = subprocess.run(cmd, cwd=cwd, stdout=subprocess.PIPE, stderr=subprocess.STDOUT, timeout=timeout, env=e, text=True)
    return p.returncode, p.stdout


def strip_comments(src):
    """remove Lean comments (nested block comments and line comments) and string literals"""
    out_, i, depth, n = [], 0, 0, len(src)
    while i < n:
        if src.startswith("/-", i):
            depth += 1
            i += 2
        elif depth and src.startswith("-/", i):
            depth -= 1
            i += 2
        elif depth:
            i += 1
        elif src.startswith("--", i):
            j = src.find("\n", i)
            i = n if j < 0 else j
        elif src[i] == '"':
            j = i + 1
            while j < n and src[j] != '"':
                j += 2 if src[j] == "\\" else 1
            i = j + 1
        else:
            out_.append(src[i])
            i += 1
    return "".join(out_)


def lean_module_path(mod):
    return os.path.join(LEAN, *mod.split(".")) + ".lean"


def module_closure(mods):
    """project-local transitive imports of the given modules"""
    seen, todo = [], list(mods)
    while todo:
        m = todo.pop()
        if m in seen:
            continue
        p = lean_module_path(m)
        if not os.path.exists(p):
            continue
        seen.append(m)
        with open(p, encoding="utf-8") as f:
            for line in f:
                mm = re.match(r"\s*(?:public\s+)?import\s+([\w.]+)", line)
                if mm and mm.group(1).split(".")[0] in ("LiquerModel", "LiquerProofs"):
                    todo.append(mm.group(1))
    return seen


def read_obligations(prop):
    """names listed after `-- OBLIGATIONS:` lines in Props/<prop>.lean; `-- STATEMENT-ONLY:` lists
    full statements kept as `def … : Prop` that are *not* proved (partial)"""
    p = lean_module_path("LiquerProofs.Props." + prop)
    obs, missing = [], []
    if os.path.exists(p):
        for line in open(p, encoding="utf-8"):
            m = re.match(r"\s*--\s*OBLIGATIONS:\s*(.*)", line)
            if m:
                obs += m.group(1).split()
            m = re.match(r"\s*--\s*STATEMENT-ONLY:\s*(.*)", line)
            if m:
                missing += m.group(1).split()
    return obs, missing


def build_and_audit(prop, tier, extra_targets=()):
    """returns dict(ok, built, obligations, discharged, axioms, broken=[...], log, cmds)"""
    res = dict(ok=False, built=False, obligations=[], undischarged_statements=[], discharged=[], axioms={}, broken=[], log="", cmds=[], driver=False)
    obs, missing = read_obligations(prop)
    res["obligations"] = obs
    res["undischarged_statements"] = missing
    target = "LiquerProofs.Props." + prop
    with Locked():
        cmd = ["lake", "build", "driver"]
        rc, log = run_cmd(cmd, cwd=LEAN, timeout=1500)
        res["cmds"].append("cd lean && " + " ".join(cmd))
        res["driver"] = rc == 0 and os.path.exists(DRIVER)
        if res["driver"]:
            # private copy: another build may relink the binary while this check is using it
            priv = os.path.join(LEAN, ".lake", "build", "bin", "driver-%d" % os.getpid())
            shutil.copy2(DRIVER, priv)
            res["driver_path"] = priv
        if rc != 0:
            res["log"] += log
        cmd = ["lake", "build", target] + list(extra_targets)
        rc, log = run_cmd(cmd, cwd=LEAN, timeout=2400)
        res["cmds"].append("cd lean && " + " ".join(cmd))
        res["built"] = rc == 0
        if rc != 0:
            res["log"] += log
            for m in re.finditer(r"error: ([\w/.]+\.lean):(\d+):(\d+): (.*)", log):
                res["broken"].append(dict(file=m.group(1), line=int(m.group(2)), decl=enclosing_decl(m.group(1), int(m.group(2))), msg=m.group(4)[:300]))
            if not res["broken"]:
                res["broken"].append(dict(file="?", line=0, decl="(build)", msg=log[-600:]))
            return res
        # source hygiene
        mods = module_closure([target])
        for m in mods:
            src = strip_comments(open(lean_module_path(m), encoding="utf-8").read())
            bad = FORBIDDEN.search(src)
            if bad:
                res["broken"].append(dict(file=m, line=0, decl="(hygiene)", msg="forbidden token %r" % bad.group(0)))
        # axiom audit
        if obs:
            audit = "import %s\n" % target + "".join("#print axioms %s\n" % o for o in obs)
            d = os.path.join(LEAN, ".lake", "audit")
            os.makedirs(d, exist_ok=True)
            ap = os.path.join(d, "Audit_%s.lean" % prop)
            with open(ap, "w") as f:
                f.write(audit)
            cmd = ["lake", "env", "lean", ap]
            rc, log = run_cmd(cmd, cwd=LEAN, timeout=900)
            res["cmds"].append("cd lean && lake env lean .lake/audit/Audit_%s.lean   # #print axioms for every obligation" % prop)
            res["axioms"] = parse_axioms(log)
            for o in obs:
                ax = res["axioms"].get(o)
                if ax is None:
                    res["broken"].append(dict(file=target, line=0, decl=o, msg="obligation not found by #print axioms: " + log[-300:]))
                elif not set(ax) <= ALLOWED_AXIOMS:
                    res["broken"].append(dict(file=target, line=0, decl=o, msg="axioms outside the allowed set: %s" % ax))
                else:
                    res["discharged"].append(o)
        if tier == "thorough" and not res["broken"]:
            cmd = ["lake", "env", "leanchecker"] + [m for m in mods if m.startswith("LiquerProofs")]
            rc, log = run_cmd(cmd, cwd=LEAN, timeout=1800)
            res["cmds"].append("cd lean && " + " ".join(cmd))
            if rc != 0:
                res["broken"].append(dict(file=target, line=0, decl="(leanchecker)", msg=log[-400:]))
    res["ok"] = res["built"] and not res["broken"] and len(res["discharged"]) == len(obs) and bool(obs)
    return res


def parse_axioms(log):
    """`'X' depends on axioms: [a, b]` / `'X' does not depend on any axioms`"""
    res = {}
    for m in re.finditer(r"'([^']+)' depends on axioms: \[([^\]]*)\]", log, re.S):
        res[m.group(1)] = [a.strip() for a in m.group(2).replace("\n", " ").split(",") if a.strip()]
    for m in re.finditer(r"'([^']+)' does not depend on any axioms", log):
        res[m.group(1)] = []
    return res


def enclosing_decl(relfile, line):
    p = os.path.join(LEAN, relfile) if not os.path.isabs(relfile) else relfile
    try:
        lines = open(p, encoding="utf-8").read().split("\n")
    except OSError:
        return "?"
    for i in range(min(line, len(lines)) - 1, -1, -1):
        m = re.match(r"\s*(?:@\[[^\]]*\]\s*)*(?:private\s+|protected\s+)?(theorem|lemma|def|example|instance|abbrev)\s+([^\s:({\[]+)?", lines[i])
        if m:
            return (m.group(2) or m.group(1)) + " (%s:%d)" % (os.path.basename(p), i + 1)
    return "?"


class Driver:
    """batch access to the compiled model driver"""

    def __init__(self):
        self.available = os.path.exists(DRIVER)
        self.path = DRIVER

    def ask(self, lines, chunk=200000):
        if not self.available:
            return None
        res = []
        for i in range(0, len(lines), chunk):
            part = lines[i:i + chunk]
            p = subprocess.run([self.path], input=("\n".join(part) + "\n").encode(), stdout=subprocess.PIPE, stderr=subprocess.PIPE, timeout=3600)
            if p.returncode != 0:
                # find the request the driver dies on (bisection): an infrastructure failure should name its input
                lo, hi = 0, len(part)
                while hi - lo > 1:
                    mid = (lo + hi) // 2
                    q = subprocess.run([self.path], input=("\n".join(part[lo:mid]) + "\n").encode(), stdout=subprocess.PIPE, stderr=subprocess.PIPE, timeout=3600)
                    if q.returncode != 0:
                        hi = mid
                    else:
                        lo = mid
                raise RuntimeError("driver failed (exit %s) %s on request: %s" % (p.returncode, p.stderr.decode()[-300:], part[lo][:2000]))
            ans = p.stdout.decode().split("\n")
            if ans and ans[-1] == "":
                ans.pop()
            if len(ans) != len(part):
                raise RuntimeError("driver answered %d lines for %d requests" % (len(ans), len(part)))
            res += ans
        return res


class Ctx:
    def __init__(self, prop, tier, seed):
        self.prop, self.tier, self.seed = prop, tier, seed
        self.rng = random.Random(seed)
        self.driver = Driver()
        self.violations = []      # oracle failures on the implementation: dict(key, what, case)
        self.disagreements = []   # model vs implementation: dict(stream, case, impl, model)
        self.samples = []
        self.evaluations = 0
        self.nontrivial = set()
        self.streams = {}         # stream -> dict(cases, compared, ...)
        self.dist = {}            # histogram of the input distribution
        self.notes = []
        self.exhaustive = []
        self.t0 = time.time()
        self.budget_s = None

    # --- bookkeeping -------------------------------------------------------
    def count(self, bucket, key, n=1):
        d = self.dist.setdefault(bucket, {})
        d[key] = d.get(key, 0) + n

    def case(self, nontrivial_key=None):
        self.evaluations += 1
        if nontrivial_key is not None:
            if len(self.nontrivial) < 2000000:
                self.nontrivial.add(nontrivial_key if isinstance(nontrivial_key, (str, int)) else hashlib.md5(repr(nontrivial_key).encode()).hexdigest())

    def sample(self, s, cap=12):
        if len(self.samples) < cap:
            self.samples.append(s)

    def violation(self, key, what, case):
        if len(self.violations) < 200:
            self.violations.append(dict(key=key, what=what, case=case))

    def disagree(self, stream, case, impl, model):
        if len(self.disagreements) < 200:
            self.disagreements.append(dict(stream=stream, case=case, impl=impl, model=model))

    def stream(self, name, **kw):
        d = self.streams.setdefault(name, {})
        for k, v in kw.items():
            d[k] = d.get(k, 0) + v if isinstance(v, (int, float)) and not isinstance(v, bool) else v

    def compare(self, stream, cases, impl, model, show=lambda c: c):
        """line-by-line comparison of canonicalised observations; `model` may be None (driver missing)"""
        self.stream(stream, cases=len(cases))
        if model is None:
            self.stream(stream, compared=0)
            return
        n = 0
        for c, a, b in zip(cases, impl, model):
            if b == "UNMODELLED":
                self.stream(stream, unmodelled=1)
                continue
            n += 1
            if a != b:
                self.disagree(stream, show(c), a, b)
        self.stream(stream, compared=n)


def load_known():
    p = os.path.join(VERIF, "known_findings.json")
    if os.path.exists(p):
        return json.load(open(p))
    return dict(findings=[], fixed=[])


def match_finding(prop, v, known):
    for f in known.get("findings", []):
        if f.get("property") != prop:
            continue
        if "key" in f and f["key"] == v["key"]:
            return f
        if "key_regex" in f and re.fullmatch(f["key_regex"], v["key"]):
            return f
    return None


def write_json(path, obj):
    os.makedirs(os.path.dirname(path), exist_ok=True)
    tmp = path + ".tmp"
    with open(tmp, "w") as f:
        json.dump(obj, f, indent=1, sort_keys=True, default=str)
    os.replace(tmp, path)


def scratch_dir(prefix="liquer-verif-"):
    return tempfile.mkdtemp(prefix=prefix)


def _pool_init():
    silence()


def pmap(func, items, procs=None, chunksize=None):
    """parallel map over independent work items (fork pool; workers silence liquer's chatter)"""
    import multiprocessing
    items = list(items)
    procs = procs or min(14, os.cpu_count() or 2)
    if len(items) < 8 or procs <= 1 or os.environ.get("VERIF_SERIAL"):
        return [func(x) for x in items]
    with multiprocessing.get_context("fork").Pool(procs, initializer=_pool_init) as pool:
        return pool.map(func, items, chunksize=chunksize or max(1, len(items) // (procs * 8)))
