"""C12 at the granularity of individual FILE operations (file-backed caches).

Real threads evaluate overlapping queries against one FileCache / StoreCache(FileStore); a deterministic scheduler lets exactly one
thread run; every file operation of a thread on a path below the cache directory — open (read or write), write, close, os.replace /
rename, unlink / remove, mkdir / rmdir — is a yield point (the thread is stopped BEFORE the operation). Each schedule runs in a forked
child (the interposition patches builtins.open / os.* of that process only).

Oracle only (the file-step protocol itself is modelled in LiquerModel/ConcFile.lean and tied to the code by the C16 crash replay of
the same step lists): every evaluation returns what it returns alone without cache and raises nothing; every value left in the
cache equals a fresh evaluation of its key.
"""
import os, sys, io, builtins, threading, pickle, shutil
import common, vocab
import evalprops as EP
import evalharness as H

BACKENDS = ["FileCache", "StoreCache(FileStore,flat)"]


class FScheduler:
    def __init__(self, n, root):
        self.n, self.root = n, os.path.realpath(root)
        self.sems = [threading.Semaphore(0) for _ in range(n)]
        self.main = threading.Semaphore(0)
        self.done = [False] * n
        self.ids = {}
        self.ops = [[] for _ in range(n)]
        self.calls = [[] for _ in range(n)]
        self.ncalls = 0

    def tid(self):
        return self.ids.get(threading.get_ident())

    def mine(self, p):
        try:
            p = os.path.realpath(os.fspath(p))
        except TypeError:
            return False
        return p == self.root or p.startswith(self.root + os.sep)

    def point(self, kind, path):
        t = self.tid()
        if t is None:
            return
        self.main.release()
        self.sems[t].acquire()
        self.ops[t].append("%s %s" % (kind, os.path.relpath(os.path.realpath(os.fspath(path)), self.root)))

    def step(self, t):
        if self.done[t]:
            return
        self.sems[t].release()
        self.main.acquire()
        new = vocab.CALLS[self.ncalls:]
        self.calls[t] += new
        self.ncalls = len(vocab.CALLS)


class FProxy:
    def __init__(self, f, path, sched):
        self._f, self._p, self._s, self._closed = f, path, sched, False

    def write(self, b):
        # a yield point at the 1st, 2nd, 4th, 8th … write of this file (json.dump writes hundreds of small chunks)
        self._nw = getattr(self, "_nw", 0) + 1
        if self._nw & (self._nw - 1) == 0:
            self._s.point("a", self._p)
        r = self._f.write(b)
        self._f.flush()
        return r

    def close(self):
        if not self._closed:
            self._closed = True
            self._s.point("x", self._p)
            self._f.close()

    def __enter__(self):
        return self

    def __exit__(self, *a):
        self.close()

    def __iter__(self):
        return iter(self._f)

    def __getattr__(self, name):
        return getattr(self._f, name)


def install(s):
    real_open, real_os_open = builtins.open, os.open
    fd_paths = {}

    def w_open(file, mode="r", *a, **kw):
        if isinstance(file, int):
            f = real_open(file, mode, *a, **kw)
            if file in fd_paths and any(c in mode for c in "wax+"):
                return FProxy(f, fd_paths.pop(file), s)
            return f
        if s.tid() is not None and s.mine(file):
            writing = any(c in mode for c in "wax+")
            s.point("c" if writing else "o", file)
            f = real_open(file, mode, *a, **kw)
            return FProxy(f, os.fspath(file), s) if writing else f
        return real_open(file, mode, *a, **kw)

    def w_os_open(path, flags, *a, **kw):
        if (flags & os.O_CREAT) and s.tid() is not None and s.mine(path):
            s.point("c", path)
            fd = real_os_open(path, flags, *a, **kw)
            fd_paths[fd] = os.fspath(path)
            return fd
        return real_os_open(path, flags, *a, **kw)

    def wrap1(name, kind):
        real = getattr(os, name)

        def w(path, *a, **kw):
            if s.tid() is not None and s.mine(path):
                s.point(kind, path)
            return real(path, *a, **kw)
        return w

    def wrap2(name):
        real = getattr(os, name)

        def w(src, dst, *a, **kw):
            if s.tid() is not None and s.mine(dst):
                s.point("r", dst)
            return real(src, dst, *a, **kw)
        return w

    builtins.open = w_open
    io.open = w_open
    os.open = w_os_open
    os.fdopen = w_open
    unl = wrap1("unlink", "u")
    os.unlink = unl
    os.remove = unl
    os.mkdir = wrap1("mkdir", "m")
    os.rmdir = wrap1("rmdir", "d")
    os.replace = wrap2("replace")
    os.rename = wrap2("rename")


class LogCache:
    """records (thread, kind, key) of every cache operation (no yield points here: threads are pre-empted at file operations)"""

    def __init__(self, inner, sched):
        self.inner, self.sched, self.glog = inner, sched, []

    def _log(self, kind, key):
        t = self.sched.tid()
        if t is not None:
            self.glog.append((t, kind, key))

    def get(self, key):
        self._log("G", key)
        return self.inner.get(key)

    def store(self, state):
        r = self.inner.store(state)
        self._log("S", state.query)       # logged when complete: the entry is finished from here on
        return r

    def store_metadata(self, metadata):
        r = self.inner.store_metadata(metadata)
        self._log("M", metadata["query"])     # logged when complete (its effect is the final rename)
        return r

    def remove(self, key):
        self._log("R", key)
        return self.inner.remove(key)

    def contains(self, key):
        return self.inner.contains(key)

    def get_metadata(self, key):
        return self.inner.get_metadata(key)

    def keys(self):
        return self.inner.keys()

    def clean(self):
        return self.inner.clean()


def make_cache(backend, root):
    from liquer import cache as C
    from liquer.store import FileStore
    if backend == "FileCache":
        return C.FileCache(root)
    return C.StoreCache(FileStore(root), "cache", flat=True)


def child(task):
    """runs in the forked child: -> dict(obs=[...], solo=[...], findings=[...], nops=[...])"""
    bi, queries, schedule, defaults = task
    from liquer.cache import set_cache
    from liquer.context import get_context
    tmp = common.scratch_dir("liquer-verif-c12f-")
    os.makedirs(tmp, exist_ok=True)
    try:
        cache = make_cache(BACKENDS[bi], os.path.join(tmp, "c"))
        n = len(queries)
        sched = FScheduler(n, os.path.join(tmp, "c"))
        EP.set_global(cache, defaults)
        logged = LogCache(cache, sched)
        set_cache(logged)
        vocab.CALLS.clear()
        results = [None] * n

        def worker(i):
            sched.ids[threading.get_ident()] = i
            sched.sems[i].acquire()
            try:
                o = H.observe_nolog(lambda: get_context().evaluate(queries[i]))
            except BaseException as e:      # pragma: no cover
                o = dict(kind="exception", exc=type(e).__name__)
            results[i] = o
            sched.done[i] = True
            sched.main.release()

        install(sched)
        threads = [threading.Thread(target=worker, args=(i,), daemon=True) for i in range(n)]
        for th in threads:
            th.start()
        for i in range(n):
            sched.step(i)
        for t in schedule:
            if 0 <= t < n:
                sched.step(t)
        for i in range(n):
            guard = 0
            while not sched.done[i] and guard < 100000:
                sched.step(i)
                guard += 1
        for th in threads:
            th.join(timeout=10)
        set_cache(cache)
        obs = [{k: v for k, v in o.items() if k != "metadata"} for o in results]
        keys = set()
        for q in queries:
            keys |= EP.related_keys(q)
        findings = EP.inspect_cache(cache, keys, defaults)
        solo = [{k: v for k, v in EP.fresh(("E", q), defaults).items() if k != "metadata"} for q in queries]
        return dict(obs=obs, solo=solo, findings=findings, nops=[len(x) for x in sched.ops], ops=[x[:400] for x in sched.ops], glog=logged.glog)
    finally:
        shutil.rmtree(tmp, ignore_errors=True)


def run_file_schedule(task):
    """fork, run `child`, return its result (None if the child died)"""
    r, w = os.pipe()
    pid = os.fork()
    if pid == 0:
        try:
            os.close(r)
            try:
                res = child(task)
            except BaseException as e:
                import traceback
                res = dict(error=traceback.format_exc()[-1500:])
            data = pickle.dumps(res)
            while data:
                k = os.write(w, data)
                data = data[k:]
        finally:
            os._exit(0)
    os.close(w)
    chunks = []
    while True:
        b = os.read(r, 1 << 16)
        if not b:
            break
        chunks.append(b)
    os.close(r)
    os.waitpid(pid, 0)
    try:
        return pickle.loads(b"".join(chunks))
    except Exception:
        return None
