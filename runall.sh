#!/bin/bash
# run every registered quick (or thorough) check sequentially; prints one summary line per check
cd "$(dirname "$0")"
tier=${1:-quick}
for p in $(python3 -c "import json;print(' '.join(c['property_id'] for c in json.load(open('MANIFEST.json'))['checks']))"); do
  out=$(./check $p --tier $tier 2>&1); rc=$?
  echo "$p rc=$rc $(echo "$out" | grep -v '^KNOWN-FINDING' | tail -1 | cut -c1-220)"
done
