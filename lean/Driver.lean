/-
`driver`: one request per line on stdin, one answer per line on stdout.
`<cmd> <hex-field> ...`; unknown commands answer `bad-op`.
Only `LiquerModel` (import-free models) is linked here.
-/
import LiquerModel.Handlers.Token
import LiquerModel.Handlers.Paths
import LiquerModel.Handlers.StoreLayers
import LiquerModel.Handlers.Store
import LiquerModel.Handlers.Parse
import LiquerModel.Handlers.Eval
import LiquerModel.Handlers.EvalMeta
import LiquerModel.Handlers.Conc
import LiquerModel.Handlers.Cache
import LiquerModel.Handlers.StateTypes
import LiquerModel.Handlers.Web
import LiquerModel.Handlers.Recipes
import LiquerModel.Handlers.Iso

open Liquer

def handlers : List (String → List String → Option String) :=
  [Handlers.store, Handlers.token, Handlers.paths, Handlers.parseH, Handlers.evalH, Handlers.evalMetaH, Handlers.concH, Handlers.storeLayers, Handlers.cache, Handlers.stateTypes, Handlers.web, Handlers.recipes, Handlers.isoH]

def answer (line : String) : String :=
  match (line.trimAscii.toString.splitOn " ").filter (· ≠ "") with
  | [] => "bad-op"
  | cmd :: args =>
    match handlers.findSome? (fun h => h cmd args) with
    | some r => r
    | none => "bad-op"

partial def loop (hin : IO.FS.Stream) (hout : IO.FS.Stream) : IO Unit := do
  let line ← hin.getLine
  if line.isEmpty then return ()
  hout.putStrLn (answer line)
  loop hin hout

def main : IO Unit := do
  let hin ← IO.getStdin
  let hout ← IO.getStdout
  loop hin hout
  hout.flush
