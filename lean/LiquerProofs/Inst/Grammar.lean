/-
Side conditions of the C02 round-trip proof, re-proved on every run for the terminals, the entity
table and the escape table regenerated from /repo. Everything here is closed by `decide`.
-/
import LiquerModel.Parse
import LiquerProofs.Lemmas.TokenDefs

namespace Liquer.Inst
open Liquer

/-! ### shapes of the terminals (the classes themselves stay opaque to the proofs) -/

def rangesAt (r : Re) (i : Nat) : List (Nat × Nat) :=
  match r[i]? with
  | some it => it.ranges
  | none => []

/-- `-+` -/
def dashItem : ReItem := ⟨[(45, 45)], 1, none⟩

/-- class of `parameter_text` -/
def ptR : List (Nat × Nat) := rangesAt Gen.parameterTextRe 0
theorem parameterText_shape : Gen.parameterTextRe = [⟨ptR, 1, none⟩] := by decide

/-- class of a hexadecimal digit in `percent_encoding` -/
def hexR : List (Nat × Nat) := rangesAt Gen.percentEncodingRe 1
theorem percentEncoding_shape :
    Gen.percentEncodingRe = [⟨[(37, 37)], 1, some 1⟩, ⟨hexR, 1, some 1⟩, ⟨hexR, 1, some 1⟩] := by decide

def idR1 : List (Nat × Nat) := rangesAt Gen.identifierRe 0
def idR2 : List (Nat × Nat) := rangesAt Gen.identifierRe 1
theorem identifier_shape : Gen.identifierRe = [⟨idR1, 1, some 1⟩, ⟨idR2, 0, none⟩] := by decide

def fnR1 : List (Nat × Nat) := rangesAt Gen.filenameRe 0
def fnR3 : List (Nat × Nat) := rangesAt Gen.filenameRe 2
theorem filename_shape :
    Gen.filenameRe = [⟨fnR1, 0, none⟩, ⟨[(46, 46)], 1, some 1⟩, ⟨fnR3, 0, none⟩] := by decide

def rnR1 : List (Nat × Nat) := rangesAt Gen.resourceNameRe 0
def rnR2 : List (Nat × Nat) := rangesAt Gen.resourceNameRe 1
theorem resourceName_shape : Gen.resourceNameRe = [⟨rnR1, 1, some 1⟩, ⟨rnR2, 0, none⟩] := by decide

/-- the part of `resource_identifier` behind the dashes: `R[a-zA-Z0-9_]*` -/
def resIdTail : Re := Gen.resourceIdentifierRe.drop 1
theorem resourceIdentifier_shape : Gen.resourceIdentifierRe = dashItem :: resIdTail := by decide
def riR : List (Nat × Nat) := rangesAt Gen.resourceIdentifierRe 2
theorem resIdTail_shape : resIdTail = [⟨[(82, 82)], 1, some 1⟩, ⟨riR, 0, none⟩] := by decide

/-- the part of the named `segment_identifier` behind the dashes: `[a-z][a-zA-Z0-9_]*` -/
def segIdTail : Re := Gen.segmentIdentifierNamedRe.drop 1
theorem segmentIdentifierNamed_shape : Gen.segmentIdentifierNamedRe = dashItem :: segIdTail := by decide
def siR1 : List (Nat × Nat) := rangesAt Gen.segmentIdentifierNamedRe 1
def siR2 : List (Nat × Nat) := rangesAt Gen.segmentIdentifierNamedRe 2
theorem segIdTail_shape : segIdTail = [⟨siR1, 1, some 1⟩, ⟨siR2, 0, none⟩] := by decide

theorem segmentIdentifierBare_shape : Gen.segmentIdentifierBareRe = [dashItem] := by decide

theorem link_shape : Gen.linkOpen = ['~', 'X', '~'] ∧ Gen.linkClose = ['~', 'E'] := by decide

/-! ### which delimiters stop which class -/

/-- all classes of the expression exclude the character -/
def excl (r : Re) (c : Char) : Bool := r.all (fun it => !inRanges it.ranges c)

/-- the characters that can follow a terminal in canonical text -/
def delims : List Char := ['-', '/', '~']

theorem identifier_stops : delims.all (excl Gen.identifierRe) = true := by decide
theorem filename_stops : ['/', '~'].all (excl Gen.filenameRe) = true := by decide
theorem resourceName_stops : ['/', '~'].all (excl Gen.resourceNameRe) = true := by decide
theorem resIdTail_stops : delims.all (excl resIdTail) = true := by decide
theorem segIdTail_stops : delims.all (excl segIdTail) = true := by decide
theorem parameterText_stops : ('%' :: delims).all (excl Gen.parameterTextRe) = true := by decide
theorem percent_stops : delims.all (fun c => !inRanges [(37, 37)] c) = true := by decide

/-- no class of any terminal contains a white-space character -/
theorem terminals_noWhite :
    [Gen.identifierRe, Gen.filenameRe, Gen.resourceNameRe, Gen.parameterTextRe, Gen.percentEncodingRe,
      Gen.resourceIdentifierRe, Gen.segmentIdentifierNamedRe, Gen.segmentIdentifierBareRe].all
      (fun r => Gen.whiteChars.all (excl r)) = true := by decide

/-- the delimiters and the ASCII characters allowed in an encoded token are not white space -/
theorem white_ascii : Gen.whiteChars.all (fun c => c.toNat < 128) = true := by decide
theorem tokSafe_noWhite : Gen.whiteChars.all (fun c => !tokSafe c && c != '-' && c != '/') = true := by decide

/-- each range of `a` lies inside one range of `b` -/
def subRanges (a b : List (Nat × Nat)) : Bool :=
  a.all (fun x => b.any (fun y => y.1 ≤ x.1 && x.2 ≤ y.2))

/-- a file name is not mistaken for an action followed by `/`, an action is not mistaken for a file name -/
theorem identifier_no_dot : excl Gen.identifierRe '.' = true := by decide
theorem filename_first : ['-', '.', '/', '~'].all (fun c => !inRanges fnR1 c) = true := by decide
theorem filename_in_identifier : subRanges fnR1 idR2 = true := by decide
/-- a resource name does not begin with a dash -/
theorem resourceName_first : inRanges rnR1 '-' = false := by decide
/-- a resource header `-R…` is not a transform header -/
theorem segId_not_R : inRanges siR1 'R' = false := by decide

/-! ### canonical text read as a resource path (the `resource_transform_query` alternative of `parse`) -/

/-- the characters of identifiers and file names are resource-name characters -/
theorem names_in_resourceName :
    (subRanges idR1 rnR1 && subRanges idR1 rnR2 && subRanges idR2 rnR2 && subRanges fnR1 rnR1 &&
      subRanges fnR1 rnR2 && subRanges fnR3 rnR2 && inRanges rnR1 '.' && inRanges rnR2 '.' &&
      inRanges rnR2 '-') = true := by decide
/-- `~`, `%`, `+` and `/` are not -/
theorem resourceName_excl :
    ['~', '%', '+', '/'].all (fun c => !inRanges rnR2 c && !inRanges rnR1 c) = true := by decide
/-- every bare character of an encoded token is a resource-name character -/
theorem resourceName_covers :
    ∀ n : Fin 128, (tokSafe (Char.ofNat n.val) && Char.ofNat n.val != '%' && Char.ofNat n.val != '~') = true →
      inRanges rnR2 (Char.ofNat n.val) = true := by decide
/-- a tab is white space (so canonical text, which has no white space, is not changed by `expandtabs`) -/
theorem tab_white : Gen.whiteChars.contains '\t' = true := by decide

/-! ### parameter pieces -/

/-- every bare character of an encoded token (`tokSafe`, not `%`, not `~`) is parameter text -/
theorem parameterText_covers :
    ∀ n : Fin 128, (tokSafe (Char.ofNat n.val) && Char.ofNat n.val != '%' && Char.ofNat n.val != '~') = true →
      inRanges ptR (Char.ofNat n.val) = true := by decide

/-- upper-case hexadecimal digits are accepted by `percent_encoding` -/
theorem hex_covers : ∀ n : Fin 16, inRanges hexR (hexDigitUpper n.val) = true := by decide

/-- entity literals are two characters long and begin with `~` -/
theorem entity_literals :
    Gen.entityTable.all (fun e => e.1.length == 2 && e.1.head? == some '~') = true := by decide

/-- every code `~y` of the escape table is an entity whose replacement is the pattern of that code,
and it is not the opening of a link -/
theorem entity_inverts_escape :
    Gen.escapeTable.all (fun pe =>
      Gen.entityTable.find? (fun e => isPrefix e.1 pe.2) == some (pe.2, pe.1) &&
      pe.2.length == 2 && !isPrefix pe.2 Gen.linkOpen) = true := by decide

/-- `~E` (end of a link) is not an entity -/
theorem linkClose_not_entity :
    Gen.entityTable.all (fun e => !isPrefix e.1 Gen.linkClose) = true := by decide

end Liquer.Inst
