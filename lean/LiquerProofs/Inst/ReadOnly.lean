/-
C17(a), generated obligation: every method of `liquer.store.Store` that mutates a store
(`Gen.memoryStoreMutators`, `Gen.fileStoreMutators`: regenerated from the live classes by
`harness/extract.py`) is overridden by `ReadOnlyStore` with a method that raises
`ReadOnlyStoreException` (`Gen.readOnlyRefused`), and the model's `StoreOp` has a constructor for each of them.
A new mutator that the read-only proxy does not refuse makes these `decide`s fail.
-/
import LiquerModel.Gen.StoreMethods
import LiquerModel.StoreCore

namespace Liquer.Inst

/-- the Python method each constructor of `StoreOp` models -/
def StoreOp.method : StoreOp → String
  | .store .. => "store"
  | .storeMeta .. => "store_metadata"
  | .remove .. => "remove"
  | .removedir .. => "removedir"
  | .makedir .. => "makedir"

def modelledMutators : List String := ["store", "store_metadata", "remove", "removedir", "makedir"]

/-- methods that change a store only through a handle or as a side effect of a failed read; they are
not operations of a history: `openbin` (refused for writing modes by the read-only proxy, probed by the harness),
`get_metadata` (`FileStore` deletes a key whose metadata file is unreadable) -/
def nonHistoryMutators : List String := ["openbin", "get_metadata"]

theorem method_modelled (op : StoreOp) : StoreOp.method op ∈ modelledMutators := by
  cases op <;> simp [StoreOp.method, modelledMutators]

/-- every method that mutates a `MemoryStore` is refused by `ReadOnlyStore` -/
theorem memory_mutators_refused : Gen.memoryStoreMutators.all (fun m => Gen.readOnlyRefused.contains m) = true := by decide

/-- every method that writes in a `FileStore` is refused by `ReadOnlyStore`, except the read `get_metadata` -/
theorem file_mutators_refused :
    (Gen.fileStoreMutators.filter (fun m => m != "get_metadata")).all (fun m => Gen.readOnlyRefused.contains m) = true := by decide

/-- the histories of the model cover every mutator of the code -/
theorem mutators_modelled :
    (Gen.memoryStoreMutators ++ Gen.fileStoreMutators).all (fun m => modelledMutators.contains m || nonHistoryMutators.contains m) = true := by decide

/-- whatever `readOnlyOps` refuses is refused by the code -/
theorem modelled_refused : modelledMutators.all (fun m => Gen.readOnlyRefused.contains m) = true := by decide

end Liquer.Inst
