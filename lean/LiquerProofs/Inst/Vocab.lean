/- Side conditions re-proved on every run for the command signature table regenerated from the live registry. -/
import LiquerModel.Vocab

namespace Liquer.Inst

/-- a variadic parameter is the last non-context parameter and there is at most one; no two entries share (ns, name) -/
def sigOK (c : CmdSig) : Bool :=
  let nonCtx := c.args.filter (fun a => a.ty != .context)
  (nonCtx.dropLast.all (fun a => !a.multiple)) &&
  c.args.all (fun a => a.ty != .context || !a.multiple)

def registryOK (r : Registry) : Bool :=
  r.all sigOK && (r.map (fun c => (c.ns, c.name))).eraseDups.length == r.length && r.hasNs "root".toList

theorem registry_ok : registryOK Gen.registry = true := by decide

end Liquer.Inst
