/- Side conditions re-proved on every run for the table regenerated from /repo. -/
import LiquerModel.Gen.EscapeTable
import LiquerProofs.Lemmas.TokenDefs

namespace Liquer.Inst

/-- The regenerated `ESCAPE_SEQUENCES` satisfies the decidable side condition of the C03 theorems. -/
theorem escapeTable_ok : tableOK Gen.escapeTable = true := by decide

/-- `/`, `-` and the space are patterns of the regenerated table and no code contains them. -/
theorem escapeTable_sepCovered : sepCovered Gen.escapeTable = true := by decide

/-- The probed safe set of `urllib.parse.quote` is exactly the model's `quoteSafe` on ASCII. -/
theorem quoteSafe_probe : ∀ n : Fin 128, quoteSafe (Char.ofNat n.val) = Gen.quoteSafeProbe.contains (Char.ofNat n.val) := by
  decide

end Liquer.Inst
