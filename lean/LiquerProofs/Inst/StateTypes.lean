/- Side conditions re-proved on every run for the state-type registry regenerated from /repo. -/
import LiquerModel.Gen.StateTypes

namespace Liquer.Inst
open Liquer Liquer.StateTypes

/-- The regenerated registry satisfies the decidable side condition of the C11 dispatch theorems:
look-up by identifier and by qualified name select the same state type, every default extension is
both written and read, the default (fall-back) state type is stable. -/
theorem stateTypes_ok : regOK Gen.stateTypeRegistry = true := by decide +kernel

/-- every key of `state_types_dictionary` that carries the same identifier is served by the same class -/
def classesFunctional (es : List (Str × Str × Str)) : Bool :=
  es.all (fun a => es.all (fun b => a.2.1 != b.2.1 || a.2.2 == b.2.2))

theorem stateTypes_classes : classesFunctional Gen.stateTypeDictClasses = true := by decide +kernel

/-- the media types probed on the live core state types are the ones the hand model computes from the
regenerated `MIMETYPES` -/
theorem stateTypes_mime : mimeAgree Gen.mimetypes Gen.stateTypeRegistry = true := by decide +kernel

end Liquer.Inst
