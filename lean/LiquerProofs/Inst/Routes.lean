/- Side conditions re-proved on every run for the route table regenerated from the Flask blueprint and
the request table regenerated from `RemoteStore`. -/
import LiquerModel.Gen.Routes

namespace Liquer.Inst
open Liquer Liquer.Web

/-- every store operation and every exposed cache operation has an endpoint in the documented API -/
theorem api_coverage : coverageOK = true := by decide +kernel

/-- every documented store / cache endpoint is served, and its view function performs exactly one call of
the documented library operation with the path parameter as key (besides read-only look-ups) -/
theorem routes_spec : specOK Gen.routes = true := by decide +kernel

/-- every `RemoteStore` method requests the endpoint that performs the operation it implements -/
theorem remote_store_ok : remoteOK Gen.routes Gen.remoteStoreRows = true := by decide +kernel

end Liquer.Inst
