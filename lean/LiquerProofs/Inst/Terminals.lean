/- Side conditions re-proved on every run for the terminals regenerated from /repo. -/
import LiquerModel.Gen.Terminals

namespace Liquer.Inst

/-- every terminal regular expression is deterministic, so greedy matching (the model) is `re.match` -/
theorem terminals_deterministic :
    reDeterministic Gen.identifierRe = true ∧ reDeterministic Gen.filenameRe = true ∧
    reDeterministic Gen.resourceNameRe = true ∧ reDeterministic Gen.parameterTextRe = true ∧
    reDeterministic Gen.percentEncodingRe = true ∧ reDeterministic Gen.resourceIdentifierRe = true ∧
    reDeterministic Gen.segmentIdentifierNamedRe = true ∧ reDeterministic Gen.segmentIdentifierBareRe = true := by
  decide

/-- the combinator graph of the grammar is the one the hand-written PEG mirrors -/
theorem grammar_shape : Gen.grammarShapeOK = true := by decide

end Liquer.Inst
