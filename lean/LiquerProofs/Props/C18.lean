/-
C18 — Metadata truthfully describes every result.

Theorems about `metaOf` / `metaQ` (LiquerModel/EvalMeta.lean: the metadata `Context.evaluate` returns with the state),
for EVERY query, fuel, as-typed text, extra parameters and injected input:

  * `c18_outcome_agrees`   the outcome component of `metaQ` is the reference interpretation `refQ`'s (same fuel);
  * `c18_status_iff`       the error flag is the outcome's; a value can be obtained iff the flag is clear; once an action
                           was executed the status is `ready` or `error`, and it is `ready` iff the flag is clear;
  * `c18_describes_value`  type identifier and kind of data characteristics are those of the outcome's value (generated
                           table), `query` is the canonical text, last command / file name / extension / attributes are
                           the state's, the media type is the one `MIMETYPES` gives for the file name's extension;
  * `c18_last_action`      when the evaluation reaches the last action of `q`: `commands[-1]`, name, `parent_query` =
                           canonical text of the predecessor, namespace / version / argument queries of the resolved
                           command (none for an unknown command);
  * `c18_filename`         a trailing file name changes only query text, filename, extension, mimetype: every other field
                           equals that of the query without it (also when an earlier step failed: then nothing but the
                           query text changes);
  * `c18_attributes`       along ANY chain of predecessors of a successful evaluation capitalised attribute keys persist;
                           `c18_attributes_step`: after an action the attributes are the capitalised inherited ones with the
                           command's own on top, so the non-capitalised ones are exactly the last command's.
The copy kept by the CACHE, on the cache model of the evaluator (`evalQ`, LiquerModel/Eval.lean; `keptAfter` = the record
(status, state) under the canonical key after the evaluation; lemmas in Lemmas/EvalKept.lean), in a `Sound` world with the
cache enabled, for a closed class of queries with the canonical-text hypothesis (as in C05/C09):

  * `c18_kept_copy_success`   successful, non-volatile, caching on: the kept record has status `ready` and holds a state equal
                              to the returned one up to `status`; every field of the returned metadata that is a function
                              of the final state (`recOfState`: query text, status, error flag, type identifier / kind of
                              data characteristics of the value, last command and its name, file name, extension, media
                              type, attributes) is that field of the kept state — for every modelled run of `metaOf`;
  * `c18_kept_copy_error`     failed: the kept record is metadata-only with status `error`; the returned metadata carries the
                              error flag and the same status;
  * `c18_kept_copy_uncached`  successful but volatile or cache-disabled: no record (hence no data) is kept under the key.
The fields of `MetaRec` recorded by the evaluating context only (namespace / version flag of the resolved command,
`parent_query`, `argument_queries`, `direct_subqueries`) are not carried by the entries of the cache model; for those and
for the copy kept by the STORE (`store_key`) `c18_kept_copy_agrees_statement` records the full statement as a schema over
unmodelled values; it is covered by the oracle of harness/props/C18.py on the implementation only.
-/
import LiquerProofs.Lemmas.EvalMetaAttrs
import LiquerProofs.Lemmas.EvalKept

namespace Liquer.C18
open Liquer.C18R

/-! ### `metaOf` -/

theorem metaOf_eq_some {env : Env} {n : Nat} {q : Query} {raw : Str} {extra : Extra} {input : Option Val} {m : MetaRec} :
    metaOf env n q raw extra input = some m ↔ ∃ e, metaQ env n q raw extra input = (.st e, m) := by
  unfold metaOf
  rcases metaQ env n q raw extra input with ⟨o, m'⟩
  cases o <;> simp

/-! ### outcome -/

/-- the outcome component of the metadata model is the reference interpretation (same fuel) -/
theorem c18_outcome_agrees (env : Env) (n : Nat) (q : Query) (raw : Str) (extra : Extra) (input : Option Val) :
    (metaQ env n q raw extra input).1 = (refQ env n q raw extra input).1 :=
  metaQ_fst env n q raw extra input

/-- … in particular metadata is returned exactly when the reference interpretation returns a state -/
theorem c18_meta_iff_state (env : Env) (n : Nat) (q : Query) (raw : Str) (extra : Extra) (input : Option Val) :
    (metaOf env n q raw extra input).isSome = true ↔ ∃ e, (refQ env n q raw extra input).1 = .st e := by
  rw [← c18_outcome_agrees]
  unfold metaOf
  rcases metaQ env n q raw extra input with ⟨o, m'⟩
  cases o <;> simp

/-! ### status -/

/-- status, error flag and "a value can be obtained" agree -/
theorem c18_status_iff (env : Env) (n : Nat) (q : Query) (raw : Str) (extra : Extra) (input : Option Val) (m : MetaRec)
    (h : metaOf env n q raw extra input = some m) :
    ∃ e, (refQ env n q raw extra input).1 = .st e ∧ m.isError = e.isError ∧
      (m.isError = false ↔ (((Outcome.st e).obs).bind (·.value)).isSome = true) ∧
      (m.lastName ≠ none →
        (m.status = some Gen.metaStatusReady ∨ m.status = some Gen.metaStatusError) ∧
        (m.status = some Gen.metaStatusReady ↔ m.isError = false)) := by
  obtain ⟨e, he⟩ := metaOf_eq_some.mp h
  have hd := metaQ_describes env n q raw extra input e m he
  refine ⟨e, ?_, hd.isError, ?_, ?_⟩
  · rw [← c18_outcome_agrees, he]
  · rw [hd.isError]; cases hv : e.isError <;> simp [Outcome.obs, hv]
  · intro hl
    have hs := hd.status
    have : m.lastName.isSome = true := by cases hn : m.lastName <;> simp_all
    rw [this] at hs
    simp only [if_true] at hs
    cases hv : m.isError
    · simp [hs, hv]
    · have := statuses_distinct
      simp [hs, hv, Ne.symm this]

/-- non-vacuity and sharpness of the side condition: the initial state's metadata carries no status -/
example : (initMeta none).status = none ∧ (initMeta none).lastName = none := ⟨rfl, rfl⟩

/-! ### the value, the query text, the file name -/

/-- the metadata describes the returned state -/
theorem c18_describes_value (env : Env) (n : Nat) (q : Query) (raw : Str) (extra : Extra) (input : Option Val) (m : MetaRec)
    (h : metaOf env n q raw extra input = some m) :
    ∃ e, (refQ env n q raw extra input).1 = .st e ∧
      m.typeId = typeIdIn Gen.valueTypeTable e.data ∧ m.dataKind = dataKindIn Gen.valueTypeTable e.data ∧
      m.query = q.encode Gen.escapeTable ∧
      m.lastCommand = e.commands.getLast?.getD [] ∧
      m.filename = e.filename ∧ m.extension = e.extension ∧ m.attrs = e.attrs ∧
      (∀ f, m.filename = some f → m.extension = some (extensionOf f) ∧
        m.mimetype = some (StateTypes.mimeFromExt Gen.mimetypes (extensionOf f) Gen.metaDefaultMimetype)) ∧
      (m.filename = none → m.extension = none ∧ (m.lastName ≠ none → m.mimetype = some Gen.metaDefaultMimetype)) := by
  obtain ⟨e, he⟩ := metaOf_eq_some.mp h
  have hd := metaQ_describes env n q raw extra input e m he
  refine ⟨e, ?_, hd.typeId, hd.dataKind, metaQ_query env n q raw extra input e m he, hd.lastCommand, hd.filename, hd.extension,
    hd.attrs, hd.fileMime, ?_⟩
  · rw [← c18_outcome_agrees, he]
  · intro hf
    obtain ⟨hx, hm⟩ := hd.noFileMime hf
    refine ⟨hx, fun hl => ?_⟩
    have : m.lastName.isSome = true := by cases hn : m.lastName <;> simp_all
    simpa [this] using hm

/-! ### the last action -/

theorem isResource_no_predecessor (q : Query) (h : q.isResource = true) : q.predecessor = none := by
  unfold Query.isResource at h
  split at h
  · rfl
  · cases h

/-- the evaluation of `q` reaches its last step `r`: the predecessor is empty or evaluates successfully -/
def Reaches (env : Env) (n : Nat) (input : Option Val) (p : Query) (e0 : EState) (m0 : MetaRec) (parent : Str) : Prop :=
  (p.segments.isEmpty = true ∧ e0 = C18R.initSt env input ∧ m0 = initMeta input ∧ parent = []) ∨
  (p.segments.isEmpty = false ∧ metaQ env n p (p.encode Gen.escapeTable) .none input = (.st e0, m0) ∧ e0.isError = false ∧
    parent = p.encode Gen.escapeTable)

theorem metaQ_reached (env : Env) (n : Nat) (q p : Query) (r : Option Seg) (raw : Str) (extra : Extra) (input : Option Val)
    (hp : q.predecessor = some (p, r)) (e0 : EState) (m0 : MetaRec) (parent : Str) (hr : Reaches env n input p e0 m0 parent) :
    metaQ env (n+1) q raw extra input = metaPost env n e0 m0 parent r (q.encode Gen.escapeTable) raw extra := by
  rw [metaQ_succ]
  have hres : q.isResource = false := by
    cases hq : q.isResource
    · rfl
    · rw [isResource_no_predecessor q hq] at hp; cases hp
  simp only [hres, Bool.false_eq_true, if_false, hp]
  rcases hr with ⟨hpe, rfl, rfl, rfl⟩ | ⟨hpe, hm, he0, rfl⟩
  · simp [hpe, metaAfter, C18R.initSt]
  · simp [hpe, hm, metaAfter, he0]

/-- one command action applied to a successful state: what `evaluate_action` records -/
theorem c18_action_step (env : Env) (n : Nat) (st : EState) (m0 : MetaRec) (parent : Str) (hd : Option Header) (a : Action)
    (key raw : Str) (extra : Extra) (e : EState) (m : MetaRec)
    (h : metaPost env n st m0 parent (some (.transform hd [a] none)) key raw extra = (.st e, m)) :
    m.lastCommand = a.toList Gen.escapeTable ∧ m.lastName = some a.name ∧ m.parentQuery = some parent ∧ m.query = key ∧
    (∀ nss sig, namespacesOf st.vars = some nss → resolve env.reg nss a.name = some sig →
      m.lastNs = some sig.ns ∧ m.lastVersionKnown = true ∧ m.argumentQueries = linkQueries a.params ∧
      m.attrs = mergeAttrs m0.attrs sig.attrs) ∧
    (∀ nss, namespacesOf st.vars = some nss → resolve env.reg nss a.name = none →
      m.lastNs = none ∧ m.lastVersionKnown = false ∧ m.argumentQueries = [] ∧ m.directSubqueries = [] ∧
      m.attrs = mergeAttrs m0.attrs []) := by
  rcases metaPost_cases env n st m0 parent _ key raw extra e m h with ⟨hc, _⟩ | ⟨_, _, hc, _⟩ | ⟨hd', a', e2, hc, hr, _, rfl⟩
  · cases hc
  · cases hc
  · cases hc
    refine ⟨rfl, rfl, rfl, rfl, ?_, ?_⟩
    · intro nss sig hns hrs
      cases n with
      | zero => simp [refAction_zero] at hr
      | succ n =>
        obtain ⟨hs, ha⟩ := actionInfo_resolved env n st a raw parent extra nss sig hns hrs
        simp [actionMeta, hs, ha]
    · intro nss hns hrs
      cases n with
      | zero => simp [refAction_zero] at hr
      | succ n =>
        simp [actionMeta, actionInfo, hns, hrs]

/-- when the evaluation reaches the last action of `q`, the metadata names it, the canonical text of the query it was
applied to, and the namespace / argument queries of the command it resolved to -/
theorem c18_last_action (env : Env) (n : Nat) (q p : Query) (hd : Option Header) (a : Action) (raw : Str) (extra : Extra)
    (input : Option Val) (hp : q.predecessor = some (p, some (.transform hd [a] none)))
    (e0 : EState) (m0 : MetaRec) (parent : Str) (hr : Reaches env n input p e0 m0 parent)
    (m : MetaRec) (h : metaOf env (n+1) q raw extra input = some m) :
    m.lastCommand = a.toList Gen.escapeTable ∧ m.lastName = some a.name ∧
    m.parentQuery = some (if p.segments.isEmpty then [] else p.encode Gen.escapeTable) ∧
    m.query = q.encode Gen.escapeTable ∧
    (∀ nss sig, namespacesOf e0.vars = some nss → resolve env.reg nss a.name = some sig →
      m.lastNs = some sig.ns ∧ m.lastVersionKnown = true ∧ m.argumentQueries = linkQueries a.params ∧
      m.attrs = mergeAttrs m0.attrs sig.attrs) ∧
    (∀ nss, namespacesOf e0.vars = some nss → resolve env.reg nss a.name = none →
      m.lastNs = none ∧ m.lastVersionKnown = false ∧ m.argumentQueries = [] ∧ m.directSubqueries = [] ∧
      m.attrs = mergeAttrs m0.attrs []) := by
  obtain ⟨e, he⟩ := metaOf_eq_some.mp h
  rw [metaQ_reached env n q p _ raw extra input hp e0 m0 parent hr] at he
  obtain ⟨h1, h2, h3, h4, h5, h6⟩ := c18_action_step env n e0 m0 parent hd a _ raw extra e m he
  refine ⟨h1, h2, ?_, h4, h5, h6⟩
  rw [h3]
  rcases hr with ⟨hpe, _, _, rfl⟩ | ⟨hpe, _, _, rfl⟩ <;> simp [hpe]

/-! ### a trailing file name -/

/-- all fields except query text, filename, extension, mimetype -/
def SameExceptFile (a b : MetaRec) : Prop :=
  a.status = b.status ∧ a.isError = b.isError ∧ a.typeId = b.typeId ∧ a.dataKind = b.dataKind ∧
  a.lastCommand = b.lastCommand ∧ a.lastName = b.lastName ∧ a.lastNs = b.lastNs ∧ a.lastVersionKnown = b.lastVersionKnown ∧
  a.parentQuery = b.parentQuery ∧ a.argumentQueries = b.argumentQueries ∧ a.directSubqueries = b.directSubqueries ∧
  a.attrs = b.attrs

/-- a trailing file name changes only the query text and filename / extension / mimetype -/
theorem c18_filename (env : Env) (n : Nat) (q p : Query) (hd : Option Header) (f : Str) (raw : Str) (extra : Extra)
    (input : Option Val) (hp : q.predecessor = some (p, some (.transform hd [] (some f)))) (hpe : p.segments.isEmpty = false)
    (m : MetaRec) (h : metaOf env (n+1) q raw extra input = some m) :
    ∃ m0, metaOf env n p (p.encode Gen.escapeTable) .none input = some m0 ∧ SameExceptFile m m0 ∧
      m.query = q.encode Gen.escapeTable ∧
      (m.isError = false → m.filename = some f ∧ m.extension = some (extensionOf f) ∧
        m.mimetype = some (StateTypes.mimeFromExt Gen.mimetypes (extensionOf f) Gen.metaDefaultMimetype)) ∧
      (m.isError = true → m.filename = m0.filename ∧ m.extension = m0.extension ∧ m.mimetype = m0.mimetype) := by
  obtain ⟨e, he⟩ := metaOf_eq_some.mp h
  rcases metaQ_cases env n q raw extra input e m he with ⟨r', hc, _⟩ | ⟨p', r', hp', _, hafter⟩
  · rcases hc with ⟨hn, _⟩ | ⟨p', hp', hpe'⟩
    · rw [hp] at hn; cases hn
    · rw [hp] at hp'; cases hp'; rw [hpe] at hpe'; cases hpe'
  · rw [hp] at hp'; cases hp'
    rcases hm : metaQ env n p (p.encode Gen.escapeTable) .none input with ⟨o, m0⟩
    rw [hm] at hafter
    simp only at hafter
    unfold metaAfter at hafter
    cases o with
    | st st =>
      have hd0 := metaQ_describes env n p _ .none input st m0 hm
      refine ⟨m0, metaOf_eq_some.mpr ⟨st, hm⟩, ?_⟩
      simp only at hafter
      split at hafter
      · next hse =>
        simp only [Prod.mk.injEq, Outcome.st.injEq] at hafter
        obtain ⟨_, rfl⟩ := hafter
        have hdata := hd0.errNoData hse
        have hme : m0.isError = true := by rw [hd0.isError]; exact hse
        refine ⟨⟨rfl, rfl, ?_, ?_, rfl, rfl, rfl, rfl, rfl, rfl, rfl, rfl⟩, rfl, ?_, fun _ => ⟨rfl, rfl, rfl⟩⟩
        · simp [MetaRec.propagate, hd0.typeId, hdata]
        · simp [MetaRec.propagate, hd0.dataKind, hdata]
        · intro hne; simp [MetaRec.propagate, hme] at hne
      · next hse =>
        rcases metaPost_cases env n st m0 _ _ _ raw extra e m hafter with ⟨hc, _⟩ | ⟨_, f', hc, _, rfl⟩ | ⟨_, _, _, hc, _⟩
        · cases hc
        · cases hc
          have hme : m0.isError = false := by rw [hd0.isError]; simpa using hse
          refine ⟨⟨rfl, rfl, rfl, rfl, rfl, rfl, rfl, rfl, rfl, rfl, rfl, rfl⟩, rfl, fun _ => ⟨rfl, rfl, rfl⟩, ?_⟩
          intro hne; simp [MetaRec.withFilename, hme] at hne
        · cases hc
    | _ => simp at hafter

/-! ### attributes -/

/-- capitalised attribute keys of any earlier step of a successful evaluation are present at the end — any number `k` of
steps later -/
theorem c18_attributes (env : Env) (input : Option Val) {p q : Query} {k : Nat} (hch : Chain p q k)
    (n : Nat) (raw : Str) (extra : Extra) (e : EState) (m : MetaRec)
    (h : metaQ env (n+k) q raw extra input = (.st e, m)) (he : e.isError = false) :
    ∃ e0 m0, metaQ env n p (p.encode Gen.escapeTable) .none input = (.st e0, m0) ∧ e0.isError = false ∧
      ∀ key, isUpperFirst key = true → key ∈ m0.attrs.map (·.1) → key ∈ m.attrs.map (·.1) :=
  attrs_persist_chain env input hch n raw extra e m h he

/-- what one action does to the attributes (`cmd` = the attributes of the command it resolved to): capitalised keys persist
(with their value unless the command redefines the key); the non-capitalised keys are exactly the command's own (without
`volatile`) and every non-capitalised attribute is literally one of the command's -/
theorem c18_attributes_step (inherited cmd : List (Str × Str)) :
    (∀ k, isUpperFirst k = true → k ∈ inherited.map (·.1) → k ∈ (mergeAttrs inherited cmd).map (·.1)) ∧
    (∀ kv, isUpperFirst kv.1 = true → kv ∈ inherited → kv.1 ∉ cmd.map (·.1) → kv ∈ mergeAttrs inherited cmd) ∧
    (∀ k, isUpperFirst k = false → (k ∈ (mergeAttrs inherited cmd).map (·.1) ↔ (k ∈ cmd.map (·.1) ∧ k ≠ s "volatile"))) ∧
    (∀ kv, isUpperFirst kv.1 = false → kv ∈ mergeAttrs inherited cmd → kv ∈ cmd) :=
  ⟨fun k hu hk => mergeAttrs_capital_persists inherited cmd k hu hk,
   fun kv hu hk hno => mergeAttrs_capital_value inherited cmd kv hu hk hno,
   fun k hl => mergeAttrs_lower_keys inherited cmd k hl,
   fun kv hl h => mergeAttrs_lower_mem inherited cmd kv hl h⟩

/-! ### non-vacuity: the real vocabulary, `one/attr1/attr2/x.TXT` and `one/boom/x.txt` as hand-built ASTs -/

namespace Ex

def env0 : Env := { reg := Gen.registry, defaults := [], dec := fun _ => [] }
def act (name : String) (pos : Nat) : Action := .mk (s name) [] pos
def qOne : Query := .mk [.transform none [act "one" 0] none] false
def qA1 : Query := .mk [.transform none [act "one" 0, act "attr1" 4] none] false
def qA2 : Query := .mk [.transform none [act "one" 0, act "attr1" 4, act "attr2" 10] none] false
def qFile : Query := .mk [.transform none [act "one" 0, act "attr1" 4, act "attr2" 10] (some (s "x.TXT"))] false
def qBoom : Query := .mk [.transform none [act "one" 0, act "boom" 4] none] false
def qBoomFile : Query := .mk [.transform none [act "one" 0, act "boom" 4] (some (s "x.txt"))] false

/-- metadata is returned, an action was executed, status `ready` -/
example : (metaOf env0 6 qA2 (s "one/attr1/attr2") .none none).map (fun m => (m.status, m.isError, m.lastName)) =
      some (some (s "ready"), false, some (s "attr2")) ∧
    (metaOf env0 6 qA2 (s "one/attr1/attr2") .none none).map (fun m => (m.parentQuery, m.typeId, m.dataKind)) =
      some (some (s "one/attr1"), s "generic", s "Integer") := by decide +kernel

/-- a failing evaluation: status `error`, flag set, still the failing action and its parent -/
example : (metaOf env0 6 qBoomFile (s "one/boom/x.txt") .none none).map (fun m => (m.status, m.isError, m.lastName, m.parentQuery)) =
      some (some (s "error"), true, some (s "boom"), some (s "one")) ∧
    (metaOf env0 6 qBoomFile (s "one/boom/x.txt") .none none).map (fun m => (m.filename, m.mimetype, m.query)) =
      some (none, some (s "application/octet-stream"), s "one/boom/x.txt") := by decide +kernel

def Outcome.isGood : Outcome → Bool
  | .st e => !e.isError
  | _ => false

theorem Outcome.isGood_elim {o : Outcome} (h : Outcome.isGood o = true) : ∃ e, o = .st e ∧ e.isError = false := by
  cases o with
  | st e => exact ⟨e, rfl, by simpa [Outcome.isGood] using h⟩
  | _ => simp [Outcome.isGood] at h

theorem keys : qOne.encode Gen.escapeTable = s "one" ∧ qA1.encode Gen.escapeTable = s "one/attr1" ∧
    qA2.encode Gen.escapeTable = s "one/attr1/attr2" := by decide +kernel

/-- hypotheses of `c18_last_action` / `c18_action_step`: `one/attr1/attr2` reaches its last action `attr2`, which resolves -/
example : qA2.predecessor = some (qA1, some (.transform none [act "attr2" 10] none)) ∧
    (∃ e0 m0, Reaches env0 5 none qA1 e0 m0 (qA1.encode Gen.escapeTable)) ∧
    (metaOf env0 6 qA2 (s "one/attr1/attr2") .none none).isSome = true ∧
    (resolve env0.reg [s "root"] (s "attr2")).isSome = true := by
  refine ⟨rfl, ?_, by decide +kernel, by decide +kernel⟩
  obtain ⟨e, he, hg⟩ := Outcome.isGood_elim (o := (metaQ env0 5 qA1 (qA1.encode Gen.escapeTable) .none none).1) (by decide +kernel)
  exact ⟨e, _, Or.inr ⟨rfl, Prod.ext he rfl, hg, rfl⟩⟩

/-- … and an unknown command is recorded without namespace and version -/
example : (metaOf env0 6 (.mk [.transform none [act "one" 0, act "zzz" 4] none] false) (s "one/zzz") .none none).map
      (fun m => (m.lastName, m.lastNs, m.lastVersionKnown, m.isError)) = some (some (s "zzz"), none, false, true) := by
  decide +kernel

/-- hypotheses of `c18_filename`, successful case: only query text, filename, extension, mimetype differ -/
example : qFile.predecessor = some (qA2, some (.transform none [] (some (s "x.TXT")))) ∧ qA2.segments.isEmpty = false ∧
    (metaOf env0 7 qFile (s "one/attr1/attr2/x.TXT") .none none).map (fun m => (m.isError, m.filename, m.extension)) =
      some (false, some (s "x.TXT"), some (s "txt")) ∧
    (metaOf env0 7 qFile (s "one/attr1/attr2/x.TXT") .none none).map (fun m => (m.mimetype, m.lastName)) =
      some (some (s "text/plain"), some (s "attr2")) := by
  refine ⟨rfl, rfl, by decide +kernel, by decide +kernel⟩

/-- … failing case: the file name is not applied -/
example : qBoomFile.predecessor = some (qBoom, some (.transform none [] (some (s "x.txt")))) ∧
    (metaOf env0 6 qBoomFile (s "one/boom/x.txt") .none none).map (fun m => (m.isError, m.filename)) = some (true, none) := by
  refine ⟨rfl, by decide +kernel⟩

/-- hypotheses of `c18_attributes`: `one/attr1/attr2` is two steps after `one`, one step after `one/attr1`; it succeeds; the
capitalised `Keep` of `attr1` is still there after `attr2`, whose own `low`/`Other` replaced `attr1`'s `low` -/
example : Chain qOne qA2 2 ∧ Chain qA1 qA2 1 ∧
    Outcome.isGood (metaQ env0 (4+2) qA2 (s "one/attr1/attr2") .none none).1 = true ∧
    (metaOf env0 5 qA1 (s "one/attr1") .none none).map (·.attrs) = some [(s "Keep", s "k1"), (s "low", s "l1"), (s "ns", s "root")] ∧
    (metaOf env0 6 qA2 (s "one/attr1/attr2") .none none).map (·.attrs) =
      some [(s "Keep", s "k1"), (s "Other", s "o2"), (s "low", s "l2"), (s "ns", s "root")] := by
  refine ⟨Chain.step qOne qA1 qA2 _ 1 (Chain.one qOne qA1 _ rfl rfl) rfl rfl, Chain.one qA1 qA2 _ rfl rfl, by decide +kernel,
    by decide +kernel, by decide +kernel⟩

/-- `c18_attributes_step` on the attributes above -/
example : isUpperFirst (s "Keep") = true ∧ isUpperFirst (s "low") = false ∧
    mergeAttrs [(s "Keep", s "k1"), (s "low", s "l1"), (s "ns", s "root")] [(s "Other", s "o2"), (s "low", s "l2"), (s "ns", s "root")] =
      [(s "Keep", s "k1"), (s "Other", s "o2"), (s "low", s "l2"), (s "ns", s "root")] := by decide +kernel

end Ex

/-! ### the copy kept by the cache (cache model of `evalQ`) -/

/-- SUCCESS.  In a sound world with the cache enabled, after an evaluation that returns a successful, non-volatile,
caching-enabled state through an action or a file name (`hasStep`), the record kept under the canonical key has status
`ready` and holds a state `s` equal to the returned one up to `status`.  The metadata model returns metadata for this
evaluation, and every record it returns (any fuel) agrees with the kept state on every state-determined field
(`stateView` / `recOfState`), carries no error flag, and — once an action was executed — has the kept status. -/
theorem c18_kept_copy_success {env : Env} {C : Query → Prop} {T : Str → Prop} (hC : Closed env C T)
    (hcanon : ∀ q, C q → CanonOK env q) (n : Nat) (w : World) (q : Query) (raw : Str) (hS : Sound env w)
    (hen : w.enabled = true) (hCq : C q) (st : EState)
    (h : (evalQ env (n+1) w q raw .none none true).2 = .st st)
    (hc : st.caching = true) (he : st.isError = false) (hv : st.volatile = false) (hstep : q.hasStep = true) :
    ∃ s, keptAfter env (n+1) w q raw = some (statusReady, some s) ∧ s.core = st.core ∧
      (∃ m, (metaOf env m q raw .none none).isSome = true) ∧
      ∀ m mrec, metaOf env m q raw .none none = some mrec →
        mrec.stateView = recOfState s ∧ mrec.isError = false ∧
        (mrec.lastName ≠ none → mrec.status = some statusReady) :=
  kept_copy_success hC hcanon n w q raw hS hen hCq st h hc he hv hstep

/-- the state-determined fields, one by one: what `stateView = recOfState s` says -/
theorem c18_kept_copy_fields (m : MetaRec) (s : EState) (h : m.stateView = recOfState s) :
    m.query = s.query ∧ m.isError = s.isError ∧
    m.typeId = typeIdIn Gen.valueTypeTable s.data ∧ m.dataKind = dataKindIn Gen.valueTypeTable s.data ∧
    m.lastCommand = s.commands.getLast?.getD [] ∧ m.lastName = (s.commands.getLast?.getD []).head? ∧
    m.filename = s.filename ∧ m.extension = s.extension ∧ m.attrs = s.attrs ∧
    m.status = (recOfState s).status ∧ m.mimetype = (recOfState s).mimetype := by
  have hq := congrArg MetaRec.query h
  have h1 := congrArg MetaRec.isError h
  have h2 := congrArg MetaRec.typeId h
  have h3 := congrArg MetaRec.dataKind h
  have h4 := congrArg MetaRec.lastCommand h
  have h5 := congrArg MetaRec.lastName h
  have h6 := congrArg MetaRec.filename h
  have h7 := congrArg MetaRec.extension h
  have h8 := congrArg MetaRec.attrs h
  have h9 := congrArg MetaRec.status h
  have h10 := congrArg MetaRec.mimetype h
  exact ⟨hq, h1, h2, h3, h4, h5, h6, h7, h8, h9, h10⟩

/-- ERROR.  In a sound world with the cache enabled, after an evaluation (typed as the canonical text) that returns an
error state, the record kept under the canonical key is metadata-only with status `error`; the metadata model returns
metadata, and every record it returns carries the error flag and the same status: both are marked as error. -/
theorem c18_kept_copy_error {env : Env} {C : Query → Prop} {T : Str → Prop} (hC : Closed env C T)
    (hcanon : ∀ q, C q → CanonOK env q) (n : Nat) (w : World) (q : Query) (hS : Sound env w)
    (hen : w.enabled = true) (hCq : C q) (st : EState)
    (h : (evalQ env (n+1) w q (q.encode Gen.escapeTable) .none none true).2 = .st st) (he : st.isError = true) :
    keptAfter env (n+1) w q (q.encode Gen.escapeTable) = some (s "error", none) ∧
      (∃ m, (metaOf env m q (q.encode Gen.escapeTable) .none none).isSome = true) ∧
      ∀ m mrec, metaOf env m q (q.encode Gen.escapeTable) .none none = some mrec →
        mrec.isError = true ∧ mrec.status = some (s "error") :=
  kept_copy_error hC hcanon n w q hS hen hCq st h he

/-- UNCACHED.  In a sound world, after an evaluation that returns a successful but volatile or cache-disabled state
through an action or a file name, no record is kept under the canonical key — in particular no data, visible or hidden
(C05's `not_admitted`, sharpened) — while the returned metadata still describes the returned state. -/
theorem c18_kept_copy_uncached {env : Env} {C : Query → Prop} {T : Str → Prop} (hC : Closed env C T)
    (hcanon : ∀ q, C q → CanonOK env q) (n : Nat) (w : World) (q : Query) (raw : Str) (hS : Sound env w) (hCq : C q)
    (st : EState) (h : (evalQ env (n+1) w q raw .none none true).2 = .st st)
    (he : st.isError = false) (hbad : st.volatile = true ∨ st.caching = false) (hstep : q.hasStep = true) :
    keptAfter env (n+1) w q raw = none ∧
      (evalQ env (n+1) w q raw .none none true).1.dataAt (q.encode Gen.escapeTable) = none ∧
      (∃ m, (metaOf env m q raw .none none).isSome = true) ∧
      ∀ m mrec, metaOf env m q raw .none none = some mrec → mrec.stateView = recOfState st :=
  kept_copy_uncached hC hcanon n w q raw hS hCq st h he hbad hstep

/-! non-vacuity (the family `one`, `one/add-2`, `one/boom`, `one/vol`, `one/nocache` of Lemmas/EvalKept.lean, empty world) -/

namespace KeptEx
open Liquer.Ex

/-- the common hypotheses: a closed class with the canonical-text hypothesis, the empty world is sound and enabled -/
example : Closed env0 CK T0 ∧ (∀ q, CK q → CanonOK env0 q) ∧ Sound env0 {} ∧ ({} : World).enabled = true ∧
    CK qOneAdd ∧ CK qOneBoom ∧ CK qOneVol ∧ CK qOneNocache :=
  ⟨closedK, canonK, Sound.empty _, rfl, Or.inl rfl, Or.inr (Or.inl rfl), Or.inr (Or.inr (Or.inl rfl)),
    Or.inr (Or.inr (Or.inr (Or.inl rfl)))⟩

/-- `c18_kept_copy_success`: `one/add-2` from the empty world is successful, non-volatile, caching on, has a step; the kept
record is `ready` and core-equal to the returned state; the metadata of the metadata model agrees with the kept state on
the state-determined fields (and these are not trivial: `add`, `ready`, `Integer`) -/
example :
    let r := evalQ env0 9 {} qOneAdd (s "one/add-2") .none none true
    qOneAdd.hasStep = true ∧
    (match r.2, keptAfter env0 9 {} qOneAdd (s "one/add-2") with
     | .st st, some (status, some k) =>
       st.caching && !st.isError && !st.volatile && decide (status = statusReady) && decide (k.core = st.core) &&
       decide ((metaOf env0 8 qOneAdd (s "one/add-2") .none none).map (·.stateView) = some (recOfState k)) &&
       decide (((recOfState k).lastName, (recOfState k).status, (recOfState k).dataKind) =
         (some (s "add"), some (s "ready"), s "Integer"))
     | _, _ => false) = true := by
  decide +kernel

/-- `c18_kept_copy_error`: `one/boom` typed canonically fails; the kept record is metadata-only with status `error`, and so
is the returned metadata -/
example :
    qOneBoom.encode Gen.escapeTable = s "one/boom" ∧
    (evalQ env0 9 {} qOneBoom (s "one/boom") .none none true).2.obs.map (·.value) = some none ∧
    keptAfter env0 9 {} qOneBoom (s "one/boom") = some (s "error", none) ∧
    (metaOf env0 8 qOneBoom (s "one/boom") .none none).map (fun m => (m.isError, m.status)) =
      some (true, some (s "error")) := by
  decide +kernel

/-- `c18_kept_copy_uncached`: `one/vol` (volatile) and `one/nocache` (caching switched off) succeed and have a step;
nothing is kept under their keys, while the prefix `one` is kept -/
example :
    qOneVol.hasStep = true ∧ qOneNocache.hasStep = true ∧
    (match (evalQ env0 9 {} qOneVol (s "one/vol") .none none true).2 with
     | .st st => !st.isError && st.volatile | _ => false) = true ∧
    (match (evalQ env0 9 {} qOneNocache (s "one/nocache") .none none true).2 with
     | .st st => !st.isError && !st.caching | _ => false) = true ∧
    keptAfter env0 9 {} qOneVol (s "one/vol") = none ∧ keptAfter env0 9 {} qOneNocache (s "one/nocache") = none ∧
    ((evalQ env0 9 {} qOneVol (s "one/vol") .none none true).1.kept (s "one")).map (·.1) = some statusReady := by
  decide +kernel

end KeptEx

/-! ### the kept copies in general (statement only: a schema over unmodelled values) -/

/-- full statement about the copies of the metadata kept by the cache and by the store: for a successful evaluation
they agree with the returned metadata on every field of `MetaRec`; for a failed one both are marked as error.
`cached` / `stored` stand for `cache.get_metadata(encode q)` / `store.get_metadata(store_key)` after the evaluation:
they are arbitrary values here, not connected to any model, so this definition is a schema and cannot be proved as it
stands.  The CACHE part is proved on the cache model by `c18_kept_copy_success` / `c18_kept_copy_error` /
`c18_kept_copy_uncached` (for the fields of `MetaRec` that are a function of the kept state; the entries of the cache model
do not carry the context-recorded fields).  The STORE copy (`store_key`) has no model: it remains covered by the
implementation-side oracle of harness/props/C18.py only. -/
def c18_kept_copy_agrees_statement : Prop :=
  ∀ (env : Env) (n : Nat) (q : Query) (raw : Str) (input : Option Val) (m : MetaRec)
    (cached stored : Option MetaRec),
    metaOf env n q raw .none input = some m →
    (∀ c, cached = some c ∨ stored = some c →
      (m.isError = false → c = m) ∧ (m.isError = true → c.isError = true ∧ c.status = some Gen.metaStatusError))

end Liquer.C18

-- OBLIGATIONS: Liquer.C18.c18_outcome_agrees Liquer.C18.c18_meta_iff_state Liquer.C18.c18_status_iff Liquer.C18.c18_describes_value Liquer.C18.c18_action_step Liquer.C18.c18_last_action Liquer.C18.c18_filename Liquer.C18.c18_attributes Liquer.C18.c18_attributes_step Liquer.C18.c18_kept_copy_success Liquer.C18.c18_kept_copy_fields Liquer.C18.c18_kept_copy_error Liquer.C18.c18_kept_copy_uncached
-- STATEMENT-ONLY: Liquer.C18.c18_kept_copy_agrees_statement
