/-
C06 — Error containment: a failing step yields an error state or an exception, names the failing action, and
nothing to the right of it is executed.
Reference level (`ref_*`): every failing branch, propagation through any number of further steps, no further
call.  Evaluator level (`eval_*`): by the refinement theorem (C01) the evaluator reports the same failure and
executes a subsequence of the reference calls; one-level propagation at the evaluator.
`Sound`, `Closed`, `CanonOK`: see the header of Props/C01.lean.
The text hypothesis `CanonOK` is discharged by C02's round trip for every class of `wfTop` queries: the `_wf`
corollaries (last section).
-/
import LiquerModel.Ref
import LiquerProofs.Inst.Vocab
import LiquerProofs.Lemmas.EvalErr
import LiquerProofs.Lemmas.EvalCache
import LiquerProofs.Lemmas.EvalExact
import LiquerProofs.Lemmas.EvalExample
import LiquerProofs.Lemmas.EvalCanon

namespace Liquer.C06

/-- the regenerated command signature table satisfies the side conditions the evaluator theorems assume -/
theorem inst_registry : Inst.registryOK Gen.registry = true := Inst.registry_ok

/-! ### every failing branch of an action gives an error state naming the action -/

/-- the error state of a failed action: marked as error, no data, position and query of the failure -/
theorem fail_state_spec (st : EState) (act : Action) (attrs vol pos q) :
    (failSt st act attrs vol pos q).isError = true ∧ (failSt st act attrs vol pos q).data = .none ∧
      (failSt st act attrs vol pos q).errPos = pos ∧ (failSt st act attrs vol pos q).errQuery = q :=
  failSt_spec st act attrs vol pos q

/-- unknown command: error state at the action's position, no call -/
theorem ref_unknown_command (env : Env) (n : Nat) (st : EState) (act : Action) (raw parent : Str) (extra : Extra)
    (nss : List Str) (hns : namespacesOf st.vars = some nss)
    (hl : (nss.getLast?.map env.reg.hasNs).getD false = true)
    (hr : resolve env.reg nss act.name = none) :
    refAction env (n+1) st act raw parent extra =
      (.st (failSt st act (mergeAttrs st.attrs []) false (some act.pos) (some raw)), []) :=
  Liquer.ref_unknown_command env n st act raw parent extra nss hns hl hr

/-- argument that cannot be converted, too few or too many arguments (`parse_argv` fails): error state at the
action's position; the command is not called (the calls are those of the link arguments) -/
theorem ref_bad_arguments (env : Env) (n : Nat) (st : EState) (act : Action) (raw parent : Str) (extra : Extra)
    (nss : List Str) (sig : CmdSig) (given : List PVal) (c1 : List Str)
    (hns : namespacesOf st.vars = some nss) (hl : (nss.getLast?.map env.reg.hasNs).getD false = true)
    (hr : resolve env.reg nss act.name = some sig)
    (hp : refParams env n act.params raw parent = (.inl given, c1))
    (ha : parseArgv sig.args (applyExtra extra given).1 (applyExtra extra given).2.1 = .fail) :
    refAction env (n+1) st act raw parent extra =
      (.st (failSt st act (mergeAttrs st.attrs sig.attrs) ((applyExtra extra given).2.2 || cmdVolatile sig.attrs)
        (some act.pos) (some raw)), c1) :=
  Liquer.ref_bad_arguments env n st act raw parent extra nss sig given c1 hns hl hr hp ha

/-- the command raises: error state at the action's position -/
theorem ref_command_raises (env : Env) (n : Nat) (st : EState) (act : Action) (raw parent : Str) (extra : Extra)
    (nss : List Str) (sig : CmdSig) (given : List PVal) (c1 : List Str) (args : List Val)
    (hns : namespacesOf st.vars = some nss) (hl : (nss.getLast?.map env.reg.hasNs).getD false = true)
    (hr : resolve env.reg nss act.name = some sig)
    (hp : refParams env n act.params raw parent = (.inl given, c1))
    (ha : parseArgv sig.args (applyExtra extra given).1 (applyExtra extra given).2.1 = .ok args)
    (hc : cmdSem sig.ns sig.name st.data st.vars args = .raises) :
    refAction env (n+1) st act raw parent extra =
      (.st (failSt st act (mergeAttrs st.attrs sig.attrs) ((applyExtra extra given).2.2 || cmdVolatile sig.attrs)
        (some act.pos) (some raw)), c1 ++ callOf st sig args) :=
  Liquer.ref_command_raises env n st act raw parent extra nss sig given c1 args hns hl hr hp ha hc

/-- a failing sub-evaluation: error state with the position and query of the failing action *of the sub-query* -/
theorem ref_sub_fails (env : Env) (n : Nat) (st : EState) (act : Action) (raw parent : Str) (extra : Extra)
    (nss : List Str) (sig : CmdSig) (given : List PVal) (c1 c3 : List Str) (args : List Val) (x : Val) (qtext : Str)
    (sub : EState)
    (hns : namespacesOf st.vars = some nss) (hl : (nss.getLast?.map env.reg.hasNs).getD false = true)
    (hr : resolve env.reg nss act.name = some sig)
    (hp : refParams env n act.params raw parent = (.inl given, c1))
    (ha : parseArgv sig.args (applyExtra extra given).1 (applyExtra extra given).2.1 = .ok args)
    (hc : cmdSem sig.ns sig.name st.data st.vars args = .subeval x qtext)
    (hs : refText env n qtext = (.st sub, c3)) (he : sub.isError = true) :
    refAction env (n+1) st act raw parent extra =
      (.st (failSt st act (mergeAttrs st.attrs sig.attrs) (applyExtra extra given).2.2 sub.errPos sub.errQuery),
        c1 ++ (callOf st sig args ++ c3)) :=
  Liquer.ref_sub_fails env n st act raw parent extra nss sig given c1 c3 args x qtext sub hns hl hr hp ha hc hs he

/-- an unparsable sub-query: error state at the action's position -/
theorem ref_sub_unparsable (env : Env) (n : Nat) (st : EState) (act : Action) (raw parent : Str) (extra : Extra)
    (nss : List Str) (sig : CmdSig) (given : List PVal) (c1 c3 : List Str) (args : List Val) (x : Val) (qtext : Str)
    (hns : namespacesOf st.vars = some nss) (hl : (nss.getLast?.map env.reg.hasNs).getD false = true)
    (hr : resolve env.reg nss act.name = some sig)
    (hp : refParams env n act.params raw parent = (.inl given, c1))
    (ha : parseArgv sig.args (applyExtra extra given).1 (applyExtra extra given).2.1 = .ok args)
    (hc : cmdSem sig.ns sig.name st.data st.vars args = .subeval x qtext)
    (hs : refText env n qtext = (.parseError, c3)) :
    refAction env (n+1) st act raw parent extra =
      (.st (failSt st act (mergeAttrs st.attrs sig.attrs) (applyExtra extra given).2.2 (some act.pos) (some raw)),
        c1 ++ (callOf st sig args ++ c3)) :=
  Liquer.ref_sub_unparsable env n st act raw parent extra nss sig given c1 c3 args x qtext hns hl hr hp ha hc hs

/-- all branches at once: an error state produced by an action on a successful input never carries data -/
theorem ref_failure_has_no_data (env : Env) (n : Nat) (st : EState) (act : Action) (raw parent : Str) (extra : Extra)
    (e : EState) (hst : st.isError = false)
    (h : (refAction env n st act raw parent extra).1 = .st e) (he : e.isError = true) : e.data = .none :=
  refAction_error_no_data env n st act raw parent extra e hst h he

/-! ### link arguments -/

/-- a failing link argument raises with the position of that parameter and the query being evaluated; the
parameters to its right are not evaluated (the result and the calls do not depend on them) -/
theorem ref_link_fails (env : Env) (n : Nat) (lq : Query) (pos : Nat) (ps : List Param) (raw parent : Str)
    (v : EState) (c1 : List Str) (hl : refLink env n lq parent = (.st v, c1)) (he : v.isError = true) :
    refParams env (n+1) (.link lq pos :: ps) raw parent = (.inr (.raised (some pos) (some raw)), c1) :=
  Liquer.ref_link_fails env n lq pos ps raw parent v c1 hl he

/-- … at any position after plain arguments -/
theorem ref_link_fails_after (env : Env) (n : Nat) (pre : List (Str × Nat)) (lq : Query) (pos : Nat) (post : List Param)
    (raw parent : Str) (v : EState) (c1 : List Str) (hl : refLink env n lq parent = (.st v, c1))
    (he : v.isError = true) :
    refParams env (n + 1 + pre.length) (pre.map (fun tp => Param.str tp.1 tp.2) ++ .link lq pos :: post) raw parent =
      (.inr (.raised (some pos) (some raw)), c1) :=
  Liquer.ref_link_fails_after env n pre lq pos post raw parent v c1 hl he

/-- … and after successful link arguments the abort propagates with the calls made so far -/
theorem ref_abort_after_link (env : Env) (n : Nat) (lq : Query) (pos : Nat) (ps : List Param) (raw parent : Str)
    (v : EState) (c1 c2 : List Str) (o : Outcome)
    (hl : refLink env n lq parent = (.st v, c1)) (he : v.isError = false)
    (h : refParams env n ps raw parent = (.inr o, c2)) :
    refParams env (n+1) (.link lq pos :: ps) raw parent = (.inr o, c1 ++ c2) :=
  Liquer.ref_abort_after_link env n lq pos ps raw parent v c1 c2 o hl he h

/-- the action aborts with what aborted its parameters; the command itself is not called -/
theorem ref_params_abort (env : Env) (n : Nat) (st : EState) (act : Action) (raw parent : Str) (extra : Extra)
    (nss : List Str) (sig : CmdSig) (o : Outcome) (c1 : List Str)
    (hns : namespacesOf st.vars = some nss) (hl : (nss.getLast?.map env.reg.hasNs).getD false = true)
    (hr : resolve env.reg nss act.name = some sig)
    (hp : refParams env n act.params raw parent = (.inr o, c1)) :
    refAction env (n+1) st act raw parent extra = (o, c1) :=
  Liquer.ref_params_abort env n st act raw parent extra nss sig o c1 hns hl hr hp

/-! ### nothing to the right of the failure is executed -/

/-- the failure of the predecessor propagates unchanged (same position and query of the failure, data cleared)
and no further call is made -/
theorem ref_error_stops (env : Env) (n : Nat) (p q : Query) (r : Option Seg) (raw : Str) (extra : Extra)
    (input : Option Val) (e : EState) (c : List Str)
    (h : refQ env n p (p.encode Gen.escapeTable) .none input = (.st e, c)) (he : e.isError = true)
    (hp : q.predecessor = some (p, r)) (hpe : p.segments.isEmpty = false) :
    refQ env (n+1) q raw extra input = (.st { e with data := .none, query := q.encode Gen.escapeTable }, c) :=
  Liquer.ref_error_stops env n p q r raw extra input e c h he hp hpe

/-- … through any number `k` of further steps -/
theorem ref_error_stops_chain (env : Env) (n : Nat) (p : Query) (input : Option Val) (e : EState) (c : List Str)
    (h : refQ env n p (p.encode Gen.escapeTable) .none input = (.st e, c)) (he : e.isError = true)
    {q : Query} {k : Nat} (hch : Chain p q k) (raw : Str) (extra : Extra) :
    refQ env (n+k) q raw extra input = (.st { e with data := .none, query := q.encode Gen.escapeTable }, c) :=
  Liquer.ref_error_stops_chain env n p input e c h he hch raw extra

/-- the same for an exception (failed link argument) -/
theorem ref_raised_stops_chain (env : Env) (n : Nat) (p : Query) (input : Option Val) (a : Option Nat) (b : Option Str)
    (c : List Str) (h : refQ env n p (p.encode Gen.escapeTable) .none input = (.raised a b, c))
    {q : Query} {k : Nat} (hch : Chain p q k) (raw : Str) (extra : Extra) :
    refQ env (n+k) q raw extra input = (.raised a b, c) :=
  Liquer.ref_raised_stops_chain env n p input a b c h hch raw extra

/-! ### the evaluator -/

/-- Evaluator, with any sound cache: if the reference interpretation fails with an error state, so does the
evaluator — marked as error, no data, same position and query of the failure — and the executed calls are a
subsequence of the reference calls (which stop at the failure). -/
theorem eval_reports_failure {env : Env} {C : Query → Prop} {T : Str → Prop} (hC : Closed env C T)
    (hcanon : ∀ q, C q → CanonOK env q) (n m : Nat) (w : World) (q : Query) (raw : Str) (extra : Extra)
    (input : Option Val) (uc : Bool) (hS : Sound env w) (hCq : C q) (huc : uc = true → input = none)
    (hne : (evalQ env n w q raw extra input uc).2 ≠ .unmodelled)
    (e : EState) (c : List Str) (href : refQ env m q raw extra input = (.st e, c)) (he : e.isError = true) :
    ∃ e' c', (evalQ env n w q raw extra input uc).2 = .st e' ∧ e'.isError = true ∧ e'.data = e.data ∧
      e'.errPos = e.errPos ∧ e'.errQuery = e.errQuery ∧
      (evalQ env n w q raw extra input uc).1.calls = w.calls ++ c' ∧ c'.Sublist c := by
  obtain ⟨m', c', h1, h2, h3⟩ := (evalQ_refines hC hcanon n w q raw extra input uc hS hCq huc).2 hne
  have hdet := refQ_det env q raw extra input (m := m') (m' := m) (Outcome.sim_ne_unmodelled h3 hne)
    (by rw [href]; simp)
  rw [hdet, href] at h2 h3
  obtain ⟨e', he', hcore⟩ := Outcome.sim_st_left (Outcome.sim_symm h3)
  exact ⟨e', c', he', by rw [← EState.core_isError hcore]; exact he, (EState.core_data hcore).symm,
    (EState.core_errPos hcore).symm, (EState.core_errQuery hcore).symm, h1, h2⟩

/-- … and if the reference interpretation raises (failed link argument), the evaluator raises the same -/
theorem eval_reports_raise {env : Env} {C : Query → Prop} {T : Str → Prop} (hC : Closed env C T)
    (hcanon : ∀ q, C q → CanonOK env q) (n m : Nat) (w : World) (q : Query) (raw : Str) (extra : Extra)
    (input : Option Val) (uc : Bool) (hS : Sound env w) (hCq : C q) (huc : uc = true → input = none)
    (hne : (evalQ env n w q raw extra input uc).2 ≠ .unmodelled)
    (a : Option Nat) (b : Option Str) (c : List Str) (href : refQ env m q raw extra input = (.raised a b, c)) :
    ∃ c', (evalQ env n w q raw extra input uc).2 = .raised a b ∧
      (evalQ env n w q raw extra input uc).1.calls = w.calls ++ c' ∧ c'.Sublist c := by
  obtain ⟨m', c', h1, h2, h3⟩ := (evalQ_refines hC hcanon n w q raw extra input uc hS hCq huc).2 hne
  have hdet := refQ_det env q raw extra input (m := m') (m' := m) (Outcome.sim_ne_unmodelled h3 hne)
    (by rw [href]; simp)
  rw [hdet, href] at h2 h3
  have := Outcome.sim_symm h3
  simp only [Outcome.sim_raised] at this
  exact ⟨c', this, h1, h2⟩

/-- Evaluator without a cache: exactly the reference failure and exactly its calls. -/
theorem eval_reports_failure_nocache (env : Env) (n : Nat) (w : World) (q : Query) (raw : Str) (extra : Extra)
    (input : Option Val) (uc : Bool) (hN : w.NoCache) :
    (evalQ env n w q raw extra input uc).2 = (refQ env n q raw extra input).1 ∧
    (evalQ env n w q raw extra input uc).1.calls = w.calls ++ (refQ env n q raw extra input).2 :=
  ⟨((exact env n).q w q raw extra input uc hN).2.1, ((exact env n).q w q raw extra input uc hN).2.2⟩

/-- Evaluator, one level, any world: an erroneous predecessor state is returned (data cleared, same failure
record) without running the last step; only progress metadata is written and the call log is untouched. -/
theorem eval_error_stops (env : Env) (n : Nat) (w w1 : World) (p q : Query) (r : Option Seg) (raw : Str)
    (extra : Extra) (input : Option Val) (uc : Bool) (e : EState)
    (hmiss : (extra.isEmpty && input.isNone && uc) = false ∨ w.get (q.encode Gen.escapeTable) = none)
    (hp : q.predecessor = some (p, r)) (hpe : p.segments.isEmpty = false)
    (h : evalQ env n (w.metaIf uc raw (s "evaluating parent")) p (p.encode Gen.escapeTable) .none input uc = (w1, .st e))
    (he : e.isError = true) :
    evalQ env (n+1) w q raw extra input uc =
      (w1.metaIf uc raw (s "error"), .st { e with data := .none, query := q.encode Gen.escapeTable }) ∧
    (w1.metaIf uc raw (s "error")).calls = w1.calls :=
  Liquer.eval_error_stops env n w w1 p q r raw extra input uc e hmiss hp hpe h he

-- non-vacuity: `one/boom/add-2` — `boom` (second step, position 4) raises; the reference interpretation and the
-- evaluator (empty cache) report an error state at position 4 of `one/boom`, with no data, and run `one`, `boom` only.
open Ex in
example :
    (refQ env0 9 qBoom (s "one/boom/add-2") .none none).2 = [s "root.one(N;)", s "root.boom(I1;)"] ∧
    (evalQ env0 9 {} qBoom (s "one/boom/add-2") .none none true).1.calls = [s "root.one(N;)", s "root.boom(I1;)"] ∧
    (match (evalQ env0 9 {} qBoom (s "one/boom/add-2") .none none true).2 with
      | .st e => (e.isError, e.data, e.errPos, e.errQuery) | _ => (false, .none, none, none)) =
      (true, .none, some 4, some (s "one/boom")) ∧
    (match (refQ env0 9 qBoom (s "one/boom/add-2") .none none).1 with
      | .st e => (e.isError, e.data, e.errPos, e.errQuery) | _ => (false, .none, none, none)) =
      (true, .none, some 4, some (s "one/boom")) := by
  decide +kernel
-- the hypotheses of `ref_error_stops_chain`: `one/boom` fails, `one/boom/add-2` is one further step
open Ex in
example : Chain qOneBoom qBoom 1 ∧
    (match (refQ env0 8 qOneBoom (qOneBoom.encode Gen.escapeTable) .none none).1 with
      | .st e => e.isError | _ => false) = true :=
  ⟨Chain.one _ _ (some (.transform none [.mk (s "add") [.str (s "2") 13] 9] none))
      (by simp [qBoom, qOneBoom, Query.predecessor]) (by decide), by decide +kernel⟩
-- the hypotheses of the evaluator theorems: as in C01
open Ex in
example : Closed env0 C0 T0 ∧ (∀ q, C0 q → CanonOK env0 q) ∧ Sound env0 {} := ⟨closed0, canon0, Sound.empty _⟩

/-! ### the canonical-text hypothesis discharged: closed classes of well-formed queries (C02's round trip) -/

/-- every well-formed query of the class means what its canonical text means (Lemmas/EvalCanon.lean) -/
theorem canon_of_wf {env : Env} (hd : DecOK env.dec) {C : Query → Prop}
    (hwf : ∀ q, C q → wfTop Gen.escapeTable q = true) : ∀ q, C q → CanonOK env q :=
  fun q hq => CanonOK.of_same (Canon.canonSame_of_wf env hd q (hwf q hq))

/-- `eval_reports_failure` for a closed class of well-formed queries -/
theorem eval_reports_failure_wf {env : Env} (hd : DecOK env.dec) {C : Query → Prop} {T : Str → Prop}
    (hC : Closed env C T) (hwf : ∀ q, C q → wfTop Gen.escapeTable q = true) (n m : Nat) (w : World) (q : Query)
    (raw : Str) (extra : Extra) (input : Option Val) (uc : Bool) (hS : Sound env w) (hCq : C q)
    (huc : uc = true → input = none)
    (hne : (evalQ env n w q raw extra input uc).2 ≠ .unmodelled)
    (e : EState) (c : List Str) (href : refQ env m q raw extra input = (.st e, c)) (he : e.isError = true) :
    ∃ e' c', (evalQ env n w q raw extra input uc).2 = .st e' ∧ e'.isError = true ∧ e'.data = e.data ∧
      e'.errPos = e.errPos ∧ e'.errQuery = e.errQuery ∧
      (evalQ env n w q raw extra input uc).1.calls = w.calls ++ c' ∧ c'.Sublist c :=
  eval_reports_failure hC (canon_of_wf hd hwf) n m w q raw extra input uc hS hCq huc hne e c href he

/-- `eval_reports_raise` for a closed class of well-formed queries -/
theorem eval_reports_raise_wf {env : Env} (hd : DecOK env.dec) {C : Query → Prop} {T : Str → Prop}
    (hC : Closed env C T) (hwf : ∀ q, C q → wfTop Gen.escapeTable q = true) (n m : Nat) (w : World) (q : Query)
    (raw : Str) (extra : Extra) (input : Option Val) (uc : Bool) (hS : Sound env w) (hCq : C q)
    (huc : uc = true → input = none)
    (hne : (evalQ env n w q raw extra input uc).2 ≠ .unmodelled)
    (a : Option Nat) (b : Option Str) (c : List Str) (href : refQ env m q raw extra input = (.raised a b, c)) :
    ∃ c', (evalQ env n w q raw extra input uc).2 = .raised a b ∧
      (evalQ env n w q raw extra input uc).1.calls = w.calls ++ c' ∧ c'.Sublist c :=
  eval_reports_raise hC (canon_of_wf hd hwf) n m w q raw extra input uc hS hCq huc hne a b c href

-- non-vacuity of the `_wf` hypotheses: the decoder of the example environment is a decoder and the example family
-- (closed; it contains the failing query `one/boom/add-2`) consists of well-formed queries
open Ex in
example : DecOK env0.dec ∧ Closed env0 C0 T0 ∧ (∀ q, C0 q → wfTop Gen.escapeTable q = true) ∧ Sound env0 {} :=
  ⟨decUtf8_ok, closed0, by intro q hq; rcases hq with rfl | rfl | rfl | rfl <;> decide +kernel, Sound.empty _⟩

end Liquer.C06

-- OBLIGATIONS: Liquer.C06.inst_registry Liquer.C06.fail_state_spec Liquer.C06.ref_unknown_command Liquer.C06.ref_bad_arguments Liquer.C06.ref_command_raises Liquer.C06.ref_sub_fails Liquer.C06.ref_sub_unparsable Liquer.C06.ref_failure_has_no_data Liquer.C06.ref_link_fails Liquer.C06.ref_link_fails_after Liquer.C06.ref_abort_after_link Liquer.C06.ref_params_abort Liquer.C06.ref_error_stops Liquer.C06.ref_error_stops_chain Liquer.C06.ref_raised_stops_chain Liquer.C06.eval_reports_failure Liquer.C06.eval_reports_raise Liquer.C06.eval_reports_failure_nocache Liquer.C06.eval_error_stops Liquer.C06.canon_of_wf Liquer.C06.eval_reports_failure_wf Liquer.C06.eval_reports_raise_wf
