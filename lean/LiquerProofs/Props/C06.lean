/-
C06 — evaluator property; theorems over LiquerModel/Eval.lean and LiquerModel/Ref.lean.
-/
import LiquerModel.Ref
import LiquerProofs.Inst.Vocab

namespace Liquer.C06

/-- the regenerated command signature table satisfies the side conditions the evaluator theorems assume -/
theorem inst_registry : Inst.registryOK Gen.registry = true := Inst.registry_ok

end Liquer.C06

-- OBLIGATIONS: Liquer.C06.inst_registry
