/-
C12 — concurrent evaluations sharing a cache are serializable. Theorems over LiquerModel/EvalO.lean and Conc.lean.

"When several evaluations of overlapping queries run concurrently against one shared cache, under every interleaving of their
cache accesses each evaluation returns exactly what it would return when run alone, and every value left in the cache equals
the value of a fresh evaluation of its key.  In particular an entry that another evaluation is still producing is never served
as a finished result."

Model: a thread is the evaluator run against an oracle (`evalQO`: every `get` consumes the next answer of a list, every cache
operation is appended to a trace).  A thread's own steps are the `get` / `store` / `remove` operations of its trace (`ownOps`);
`stepThread` performs the thread's next own operation on the shared cache `World` (a `get` records the cache's answer).
Progress-metadata writes (`store_metadata`) are not predicted: they are environment steps `envMeta c k status` — anybody may
write metadata for ANY key with ANY status at ANY time.  `StepAny` lets any thread move or the environment write metadata;
`Reach env c c'` is its reflexive-transitive closure: all schedules, any length, any number of threads, interleaved with
arbitrary metadata writes.  (`runEvents` runs a list of such events, `runSchedule` a list of thread indices, `finishAll` lets the
threads finish.)  An environment write between two steps of a thread changes what the cache answers later, but the cache stays
`Sound` whatever is written, so every answer a thread receives is still a miss or the finished value of the key.

Vocabulary (Lemmas/ConcW.lean, ConcO3.lean, ConcO5.lean, EvalDefs.lean):
  `GoodAt env k st`   — `st` is, up to `status`, the successful, non-volatile, cacheable reference value of the key text `k`;
  `Sound env w`       — every data-bearing entry of `w` is `GoodAt` its key (= "equals the value of a fresh evaluation of its key");
  `GoodAns env k a`   — the answer `a` to `get k` is a miss or `GoodAt` `k`;
  `GoodPairs env tr A` — the `i`-th answer of `A` is good for the key of the `i`-th `get` of the trace `tr`;
  `OpGood env op`     — `op` writes no data, or stores `GoodAt` data under its own key;
  `Closed env C T`, `CanonOK env q` — the class of queries an evaluation stays in, and C02's print-parse round trip for them
                         (hypotheses exactly as in C01/C04).
Proof structure: ConcO1 (one-step equations of the oracle evaluator), ConcO2 (frame: trace grows, answers accounted, starved ⇒
`unmodelled`), ConcO3 (refinement by induction on the fuel, reusing the reference-side lemmas of R-eval), ConcO4 (more answers
only extend the trace), ConcO5 (the invariant and its preservation by every thread step and every environment write), ConcO6
(an oracle fed the answers of a cache is the sequential evaluator).
-/
import LiquerModel.Conc
import LiquerProofs.Inst.Vocab
import LiquerProofs.Lemmas.ConcO4
import LiquerProofs.Lemmas.ConcO5
import LiquerProofs.Lemmas.ConcO6
import LiquerProofs.Lemmas.EvalCor
import LiquerProofs.Lemmas.EvalExample
import LiquerProofs.Lemmas.ConcFile3
import LiquerProofs.Lemmas.ConcFileT3
import LiquerProofs.Lemmas.ConcFileSplit
import LiquerProofs.Lemmas.ConcFileSplitT

namespace Liquer.C12

/-- the regenerated command signature table satisfies the side conditions the evaluator theorems assume -/
theorem inst_registry : Inst.registryOK Gen.registry = true := Inst.registry_ok

/-! ### 1. the shared cache answers with finished values only -/

/-- every answer of a `Sound` cache is a miss or the good value of the key asked -/
theorem good_answer {env : Env} {w : World} (h : Sound env w) (k : Str) : GoodAns env k (w.get k) := h.get_good k

/-! ### 2. oracle refinement: a thread that received good answers writes good data and returns the reference value -/

/-- The analogue of R-eval for the oracle evaluator.  If every answer the run consumed is good for the key it was asked for,
then (a) every `store` of its trace writes the good value of its own key, (b) every operation of the trace is harmless
(`storeMeta`, `remove` and `get` write no data), and (c) when the run did not starve and its outcome is modelled, the
observation is that of the reference interpretation. -/
theorem oracle_refines {env : Env} {C : Query → Prop} {T : Str → Prop} (hC : Closed env C T)
    (hcanon : ∀ q, C q → CanonOK env q) (n : Nat) (A : List (Option EState)) (q : Query) (raw : Str) (hCq : C q)
    (hG : GoodPairs env (evalQO env n { answers := A } q raw .none none true).1.trace A) :
    (∀ st, COp.store st ∈ (evalQO env n { answers := A } q raw .none none true).1.trace → GoodAt env st.query st) ∧
    (∀ op ∈ (evalQO env n { answers := A } q raw .none none true).1.trace, OpGood env op) ∧
    ((evalQO env n { answers := A } q raw .none none true).1.starved = false →
      (evalQO env n { answers := A } q raw .none none true).2 ≠ .unmodelled →
      ∃ m, (refQ env m q raw .none none).1 ≠ .unmodelled ∧
        (evalQO env n { answers := A } q raw .none none true).2.obs = (refQ env m q raw .none none).1.obs) := by
  obtain ⟨h1, h2⟩ := evalQO_refines hC hcanon n A q raw hCq hG
  refine ⟨fun st hst => h1 _ hst, h1, fun _ hne => ?_⟩
  obtain ⟨m, hsim⟩ := h2 hne
  exact ⟨m, Outcome.sim_ne_unmodelled hsim hne, Outcome.sim_obs hsim⟩

/-- frame of an oracle run: the answers consumed are exactly accounted for by the `get`s of the trace — a run that did not
starve asked as many keys as it consumed answers, a starved run asked one key more than there were answers — and a starved
run returns `unmodelled` -/
theorem oracle_frame (env : Env) (n : Nat) (A : List (Option EState)) (q : Query) (raw : Str) :
    ((evalQO env n { answers := A } q raw .none none true).1.starved = false →
      ∃ used, A = used ++ (evalQO env n { answers := A } q raw .none none true).1.answers ∧
        used.length = (gets (evalQO env n { answers := A } q raw .none none true).1.trace).length) ∧
    ((evalQO env n { answers := A } q raw .none none true).1.starved = true →
      A.length < (gets (evalQO env n { answers := A } q raw .none none true).1.trace).length ∧
      (evalQO env n { answers := A } q raw .none none true).2 = .unmodelled) := by
  have h := (frameO env n).q { answers := A } q raw .none none true
  have hw := h.2.1 A (WFO.init A)
  exact ⟨hw.2, fun hs => ⟨hw.1 hs, h.2.2 rfl hs⟩⟩

/-- more answers only extend what a thread does: the trace against `A` is a prefix of the trace against `A ++ B` -/
theorem answers_extend_trace (env : Env) (n : Nat) (A B : List (Option EState)) (q : Query) (raw : Str) :
    (evalQO env n { answers := A } q raw .none none true).1.trace <+:
      (evalQO env n { answers := A ++ B } q raw .none none true).1.trace :=
  evalQO_ext_prefix env n A B q raw .none none true

/-! ### 3. world lemmas -/

/-- a harmless operation keeps the shared cache `Sound`; progress metadata, removals and look-ups are always harmless -/
theorem apply_op_sound {env : Env} {w : World} {ans : List (Option EState)} (h : Sound env w) {op : COp}
    (hop : OpGood env op) : Sound env (applyOp (w, ans) op).1 := Sound.applyOp (acc := (w, ans)) h hop

theorem meta_remove_harmless (env : Env) (k x : Str) :
    OpGood env (.storeMeta k x) ∧ OpGood env (.remove k) ∧ OpGood env (.get k) := ⟨trivial, trivial, trivial⟩

/-- the answer recorded by a `get` step is the cache's answer at that moment, and it is good -/
theorem recorded_answer_good {env : Env} {w : World} {ans : List (Option EState)} (h : Sound env w) (k : Str) :
    (applyOp (w, ans) (.get k)).2 = ans ++ [w.get k] ∧ GoodAns env k (w.get k) := ⟨rfl, h.get_good k⟩

/-! ### 4. the invariant -/

/-- the invariant: the shared cache is `Sound`; every thread evaluates a query of the class, has performed a prefix of its
own operations (`ThreadOK.done_le`: `t.done ≤ (ownOps (t.run env).1.trace).length`), has received exactly the answers of the
`get`s it performed, each good for its key; a result is the outcome of a run that did not starve -/
theorem inv_iff (env : Env) (C : Query → Prop) (c : Config) :
    Inv env C c ↔ Sound env c.shared ∧ ∀ t ∈ c.threads, ThreadOK env C t := Iff.rfl

theorem fresh_inv {env : Env} {C : Query → Prop} {c : Config} (h : Fresh env C c) : Inv env C c := h.inv

theorem step_preserves_inv {env : Env} {C : Query → Prop} {T : Str → Prop} (hC : Closed env C T)
    (hcanon : ∀ q, C q → CanonOK env q) {c : Config} (h : Inv env C c) (i : Nat) : Inv env C (stepAt env c i) :=
  stepAt_inv hC hcanon (fun n A B q raw => evalQO_ext_prefix env n A B q raw .none none true) h i

/-- an environment step — a metadata-only write of any key with any status — preserves the invariant -/
theorem env_preserves_inv {env : Env} {C : Query → Prop} {c : Config} (h : Inv env C c) (k status : Str) :
    Inv env C (envMeta c k status) :=
  envMeta_inv h k status

theorem reach_preserves_inv {env : Env} {C : Query → Prop} {T : Str → Prop} (hC : Closed env C T)
    (hcanon : ∀ q, C q → CanonOK env q) {c c' : Config} (hr : Reach env c c') (h : Inv env C c) : Inv env C c' :=
  hr.inv hC hcanon (fun n A B q raw => evalQO_ext_prefix env n A B q raw .none none true) h

theorem schedule_preserves_inv {env : Env} {C : Query → Prop} {T : Str → Prop} (hC : Closed env C T)
    (hcanon : ∀ q, C q → CanonOK env q) (sched : List Nat) (fuel : Nat) {c : Config} (h : Inv env C c) :
    Inv env C (finishAll env fuel (runSchedule env c sched)) :=
  finishAll_inv hC hcanon (fun n A B q raw => evalQO_ext_prefix env n A B q raw .none none true) fuel
    (runSchedule_inv hC hcanon (fun n A B q raw => evalQO_ext_prefix env n A B q raw .none none true) sched h)

/-- every list of events (thread steps and environment metadata writes in any order), followed by letting the threads finish,
preserves the invariant -/
theorem events_preserve_inv {env : Env} {C : Query → Prop} {T : Str → Prop} (hC : Closed env C T)
    (hcanon : ∀ q, C q → CanonOK env q) (evs : List Ev) (fuel : Nat) {c : Config} (h : Inv env C c) :
    Inv env C (finishAll env fuel (runEvents env c evs)) :=
  finishAll_inv hC hcanon (fun n A B q raw => evalQO_ext_prefix env n A B q raw .none none true) fuel
    (runEvents_inv hC hcanon (fun n A B q raw => evalQO_ext_prefix env n A B q raw .none none true) evs h)

/-- `runSchedule`, `finishAll` are instances of reachability (indices out of range do nothing) -/
theorem schedule_reach (env : Env) (c : Config) (sched : List Nat) (fuel : Nat) :
    Reach env c (finishAll env fuel (runSchedule env c sched)) :=
  ((Reach.refl c).runSchedule sched).finishAll fuel

/-- … and so is `runEvents` -/
theorem events_reach (env : Env) (c : Config) (evs : List Ev) (fuel : Nat) :
    Reach env c (finishAll env fuel (runEvents env c evs)) :=
  ((Reach.refl c).runEvents evs).finishAll fuel

/-! ### 5. the property -/

/-- Every value left in the cache equals the fresh value of its key: from a `Sound` shared cache and fresh threads, under
every schedule and whatever metadata the environment writes in between, the shared cache of every reachable configuration is
`Sound`. -/
theorem cache_sound_every_schedule {env : Env} {C : Query → Prop} {T : Str → Prop} (hC : Closed env C T)
    (hcanon : ∀ q, C q → CanonOK env q) {c0 c : Config} (h0 : Fresh env C c0)
    (hr : Reach env c0 c) : Sound env c.shared :=
  (reach_preserves_inv hC hcanon hr h0.inv).1

/-- spelled out: every data-bearing entry of every reachable shared cache is the reference value of its key text -/
theorem cache_values_fresh {env : Env} {C : Query → Prop} {T : Str → Prop} (hC : Closed env C T)
    (hcanon : ∀ q, C q → CanonOK env q) {c0 c : Config} (h0 : Fresh env C c0)
    (hr : Reach env c0 c) (k : Str) (st : EState) (hk : c.shared.dataAt k = some st) :
    ∃ fuel st' calls, refText env fuel k = (.st st', calls) ∧ st'.isError = false ∧ st'.volatile = false ∧
      st'.caching = true ∧ st.core = st'.core :=
  cache_sound_every_schedule hC hcanon h0 hr k st hk

/-- Each evaluation returns what it returns alone: in every reachable configuration the result of a finished thread has the
observation of the reference interpretation of its query. -/
theorem result_is_solo {env : Env} {C : Query → Prop} {T : Str → Prop} (hC : Closed env C T)
    (hcanon : ∀ q, C q → CanonOK env q) {c0 c : Config} (h0 : Fresh env C c0)
    (hr : Reach env c0 c) (t : Thread) (ht : t ∈ c.threads) (o : Outcome)
    (ho : t.result = some o) (hne : o ≠ .unmodelled) :
    ∃ m, (refQ env m t.q t.raw .none none).1 ≠ .unmodelled ∧ o.obs = (refQ env m t.q t.raw .none none).1.obs := by
  have hinv : Inv env C c := reach_preserves_inv hC hcanon hr h0.inv
  obtain ⟨m, hsim⟩ := (hinv.2 t ht).result_sim hC hcanon ho hne
  exact ⟨m, Outcome.sim_ne_unmodelled hsim hne, Outcome.sim_obs hsim⟩

/-- … which is the observation of the sequential evaluator `evalQ` run alone against any `Sound` cache (an empty one, the
initial one, or the final one), by cache transparency (C04) -/
theorem result_is_sequential {env : Env} {C : Query → Prop} {T : Str → Prop} (hC : Closed env C T)
    (hcanon : ∀ q, C q → CanonOK env q) {c0 c : Config} (h0 : Fresh env C c0)
    (hr : Reach env c0 c) (t : Thread) (ht : t ∈ c.threads) (o : Outcome)
    (ho : t.result = some o) (hne : o ≠ .unmodelled) (n : Nat) (w : World) (hS : Sound env w)
    (he : (evalQ env n w t.q t.raw .none none true).2 ≠ .unmodelled) :
    o.obs = (evalQ env n w t.q t.raw .none none true).2.obs := by
  have hinv : Inv env C c := reach_preserves_inv hC hcanon hr h0.inv
  obtain ⟨m, hm, hobs⟩ := result_is_solo hC hcanon h0 hr t ht o ho hne
  rw [hobs, evalQ_obs hC hcanon n m w t.q t.raw .none none true hS (hinv.2 t ht).inC (fun _ => rfl) he hm]

/-- two threads evaluating the same query under any schedule agree with each other -/
theorem same_query_same_result {env : Env} {C : Query → Prop} {T : Str → Prop} (hC : Closed env C T)
    (hcanon : ∀ q, C q → CanonOK env q) {c0 c : Config} (h0 : Fresh env C c0)
    (hr : Reach env c0 c) (t t' : Thread) (ht : t ∈ c.threads) (ht' : t' ∈ c.threads)
    (hq : t.q = t'.q) (hraw : t.raw = t'.raw) (o o' : Outcome) (ho : t.result = some o) (ho' : t'.result = some o')
    (hne : o ≠ .unmodelled) (hne' : o' ≠ .unmodelled) : o.obs = o'.obs := by
  obtain ⟨m, hm, hobs⟩ := result_is_solo hC hcanon h0 hr t ht o ho hne
  obtain ⟨m', hm', hobs'⟩ := result_is_solo hC hcanon h0 hr t' ht' o' ho' hne'
  rw [hobs, hobs', hq, hraw] at *
  rw [refQ_det env t'.q t'.raw .none none hm hm']

/-- An entry another evaluation is still producing is never served as a finished result, thread side: in every reachable
configuration every answer a thread has received is a miss or the finished (good) value of the key it asked for. -/
theorem answers_are_finished {env : Env} {C : Query → Prop} {T : Str → Prop} (hC : Closed env C T)
    (hcanon : ∀ q, C q → CanonOK env q) {c0 c : Config} (h0 : Fresh env C c0)
    (hr : Reach env c0 c) (t : Thread) (ht : t ∈ c.threads) :
    GoodPairs env (t.run env).1.trace t.answers := by
  have hinv : Inv env C c := reach_preserves_inv hC hcanon hr h0.inv
  exact (hinv.2 t ht).good

/-- … cache side: a progress (`store_metadata`) write — including the `ready` one that precedes `store` — never creates data:
afterwards the entry holds the data it held before (caches that keep data on a metadata write) or none … -/
theorem never_serves_unfinished (w : World) (hen : w.enabled = true) (k status : Str) :
    (w.storeMeta k status).dataAt k = (if w.metaKeepsData then w.dataAt k else none) ∧
    (∀ k', k' ≠ k → (w.storeMeta k status).dataAt k' = w.dataAt k') :=
  ⟨World.dataAt_storeMeta_self w hen k status, fun k' hk => World.dataAt_storeMeta_other w k status k' hk⟩

/-- … and an entry without data is a miss whatever its status says: a key whose producer has only written metadata so far is
not served -/
theorem metadata_only_is_miss (w : World) (k status : Str) (h : w.dataAt k = none) :
    w.get k = none ∧ (w.storeMeta k status).get k = none := by
  refine ⟨World.get_of_dataAt_none h, World.get_of_dataAt_none ?_⟩
  cases hd : (w.storeMeta k status).dataAt k with
  | none => rfl
  | some s => rw [World.dataAt_storeMeta hd] at h; simp at h

/-- A thread that is never pre-empted is the sequential evaluation: fed exactly the answers the cache gives in order, the
oracle evaluator returns `evalQ`'s outcome, logs `evalQ`'s calls, consumes all answers without starving, and replaying its
full trace — own operations and progress-metadata writes — on the cache (`applyOp` folded over it) gives `evalQ`'s final cache
and those answers: the sequential evaluation is the schedule in which the thread's own operations are thread steps and its
metadata writes are the environment steps, in trace order. -/
theorem evalQO_agrees (env : Env) (n : Nat) (w : World) (q : Query) (raw : Str) :
    ∃ A : List (Option EState),
      (evalQO env n { answers := A } q raw .none none true).2 = (evalQ env n w q raw .none none true).2 ∧
      (evalQO env n { answers := A } q raw .none none true).1.starved = false ∧
      (evalQO env n { answers := A } q raw .none none true).1.answers = [] ∧
      (evalQ env n w q raw .none none true).1.calls = w.calls ++ (evalQO env n { answers := A } q raw .none none true).1.calls ∧
      (evalQO env n { answers := A } q raw .none none true).1.trace.foldl applyOp (w, []) =
        ({ (evalQ env n w q raw .none none true).1 with calls := w.calls }, A) :=
  Liquer.evalQO_agrees env n w q raw .none none true

/-! ### non-vacuity -/

open Ex in
/-- two overlapping evaluations on an empty cache: `one/add-2` and its prefix `one` -/
def cfg0 : Config :=
  { shared := {}, threads := [{ q := qOneAdd, raw := s "one/add-2" }, { q := qOne, raw := s "one" }] }

-- the hypotheses hold for the example family and this configuration
open Ex in
example : Closed env0 C0 T0 ∧ (∀ q, C0 q → CanonOK env0 q) ∧ Fresh env0 C0 cfg0 := by
  refine ⟨closed0, canon0, Sound.empty _, fun t ht => ?_⟩
  simp only [cfg0, List.mem_cons, List.not_mem_nil, or_false] at ht
  rcases ht with rfl | rfl <;> simp [C0]

-- thread 0 asks for `one/add-2` and `one` (two misses); then the environment writes metadata with status `ready` for `one`,
-- which nobody has stored yet (the write the producer of `one` issues just before its `store`): the entry of `one` says
-- `ready` but holds no data, and thread 1 asking for `one` gets a miss (it is not served the unfinished entry) …
open Ex in
example :
    let c1 := runEvents env0 cfg0 [.thread 0, .thread 0, .meta_ (s "one") statusReady]
    (c1.shared.entry (s "one")).map (fun e => (e.status == statusReady, e.st.isSome)) = some (true, false) ∧
    c1.shared.get (s "one") = none ∧
    (c1.threads.map (·.done)) = [2, 0] ∧
    ((runEvents env0 c1 [.thread 1]).threads.map (fun t => t.answers.map Option.isSome)) = [[false, false], [false]] := by
  decide +kernel

-- … and whatever happens next — here both threads interleave their remaining operations and the environment writes more
-- metadata — both return their solo results (3 and 1, as the reference interpretation), the cache ends with the fresh values of
-- `one` and `one/add-2`
open Ex in
example :
    let c := finishAll env0 20 (runEvents env0 cfg0 [.thread 0, .thread 0, .meta_ (s "one") statusReady, .thread 1, .thread 0,
      .meta_ (s "one/add-2") (s "evaluation"), .thread 1, .thread 0, .thread 1])
    (c.threads.map (fun t => (t.result.bind (·.obs)).map (·.value))) = [some (some (.int 3)), some (some (.int 1))] ∧
    (c.threads.map (·.done)) = [4, 2] ∧
    (refQ env0 9 qOneAdd (s "one/add-2") .none none).1.obs.map (·.value) = some (some (.int 3)) ∧
    (refQ env0 9 qOne (s "one") .none none).1.obs.map (·.value) = some (some (.int 1)) ∧
    ((c.shared.get (s "one")).map (·.data)) = some (.int 1) ∧
    ((c.shared.get (s "one/add-2")).map (·.data)) = some (.int 3) := by
  decide +kernel

-- the same with thread indices only (no environment step)
open Ex in
example :
    let c := finishAll env0 20 (runSchedule env0 cfg0 [0, 0, 1, 0, 1, 0, 1])
    (c.threads.map (fun t => (t.result.bind (·.obs)).map (·.value))) = [some (some (.int 3)), some (some (.int 1))] := by
  decide +kernel

-- a thread that runs alone (never pre-empted) is the sequential evaluation: same observation, same cache contents, same calls
-- — without any environment step (the final `store` of a key overwrites its progress metadata), and with the thread's own
-- progress writes replayed as environment steps at their places in the trace
open Ex in
example :
    let c := finishAll env0 20 { shared := {}, threads := [{ q := qOneAdd, raw := s "one/add-2" }] }
    let c' := runEvents env0 { shared := {}, threads := [{ q := qOneAdd, raw := s "one/add-2" }] }
      [.thread 0, .meta_ (s "one/add-2") (s "evaluating parent"), .thread 0, .meta_ (s "one") (s "evaluation"),
       .meta_ (s "one") statusReady, .thread 0, .meta_ (s "one/add-2") (s "evaluation"), .meta_ (s "one/add-2") statusReady,
       .thread 0, .thread 0]
    let r := evalQ env0 (evalFuel (s "one/add-2")) {} qOneAdd (s "one/add-2") .none none true
    (c.threads.map (fun t => (t.result.bind (·.obs)).map (·.value))) = [r.2.obs.map (·.value)] ∧
    (c.threads.map (·.calls)) = [r.1.calls] ∧
    (c.shared.cache.map (fun e => (e.1, e.2.status, e.2.st.map (·.data)))) =
      (r.1.cache.map (fun e => (e.1, e.2.status, e.2.st.map (·.data)))) ∧
    (c'.threads.map (fun t => (t.result.bind (·.obs)).map (·.value))) = [r.2.obs.map (·.value)] ∧
    (c'.threads.map (·.calls)) = [r.1.calls] ∧
    (c'.shared.cache.map (fun e => (e.1, e.2.status, e.2.st.map (·.data)))) =
      (r.1.cache.map (fun e => (e.1, e.2.status, e.2.st.map (·.data)))) := by
  decide +kernel

-- `oracle_refines` is exercised: against two misses the run of `one/add-2` does not starve, its answers are (trivially) good,
-- and it returns 3
open Ex in
example :
    GoodPairs env0 (evalQO env0 9 { answers := [none, none] } qOneAdd (s "one/add-2") .none none true).1.trace [none, none] ∧
    (evalQO env0 9 { answers := [none, none] } qOneAdd (s "one/add-2") .none none true).1.starved = false ∧
    (evalQO env0 9 { answers := [none, none] } qOneAdd (s "one/add-2") .none none true).2.obs.map (·.value) =
      some (some (.int 3)) := by
  refine ⟨fun i k a _ ha => ?_, by decide +kernel, by decide +kernel⟩
  have : a = none := by
    have := List.mem_of_getElem? ha; simpa using this
  subst this; exact GoodAns.none _ _

-- the theorems apply to it: the final cache is `Sound`
open Ex in
example : Sound env0 (finishAll env0 20 (runEvents env0 cfg0 [.thread 0, .thread 0, .meta_ (s "one") statusReady, .thread 1,
    .thread 0, .meta_ (s "one/add-2") (s "evaluation"), .thread 1, .thread 0, .thread 1])).shared :=
  cache_sound_every_schedule closed0 canon0
    (by
      refine ⟨Sound.empty _, fun t ht => ?_⟩
      simp only [cfg0, List.mem_cons, List.not_mem_nil, or_false] at ht
      rcases ht with rfl | rfl <;> simp [C0])
    (events_reach env0 _ _ _)

-- an environment step is a step of `StepAny` (so `Reach` covers arbitrary metadata writes), and it preserves the invariant of
-- the example configuration
open Ex in
example : Reach env0 cfg0 (envMeta cfg0 (s "one") statusReady) ∧ Inv env0 C0 (envMeta cfg0 (s "one") statusReady) := by
  have hf : Fresh env0 C0 cfg0 := by
    refine ⟨Sound.empty _, fun t ht => ?_⟩
    simp only [cfg0, List.mem_cons, List.not_mem_nil, or_false] at ht
    rcases ht with rfl | rfl <;> simp [C0]
  exact ⟨(Reach.refl _).envMeta _ _, env_preserves_inv hf.inv _ _⟩

end Liquer.C12

/-! ## file-operation granularity

The theorems above take one cache operation as one atomic step.  For `FileCache` (and its obfuscating / encrypting subclasses) one
operation is a sequence of file operations, and the scheduler may switch threads between any two of them.  Model:
`LiquerModel/ConcFile.lean` — `storeStepsN` / `storeMetaStepsN` are the file operations of `FileCache.store` / `store_metadata` with
the writer's OWN temporary names (`tmp_<uuid4>` in the code), `Interleave` / `Interleave3` (and the executable `merge` / `merge3`)
are the schedules, `runPrefix n l d0` is the directory after the first `n` file operations, `FileC.get` is what a reader (a `get` of
any thread, or of a fresh cache object) obtains from that directory.  The step lists are tied to the ones the C16 crash replay
validates against the code by `file_steps_link_exact` / `file_steps_link_run`.
Proof: `Lemmas/ConcFile2.lean` (an invariant over the directory and the positions of the threads: a writer's temporaries are
touched by nobody else; the data file, once published by anybody, is absent or complete; the metadata file, once touched by anybody,
is absent, a progress record, or a ready record whose writer has published the data before), `Lemmas/ConcFile3.lean`. -/

namespace Liquer.C12
open Liquer Liquer.Crash

/-- **two concurrent `FileCache.store` of one key**: writers A and B of the same key and type whose encoded data bytes are equal
(concurrent evaluations of one key are deterministic), with four pairwise distinct temporary names, started on ANY directory `d0`.
After EVERY prefix (`n` file operations) of EVERY interleaving `l` of their file operations a reader of the key obtains what it
obtained from `d0` (the old entry, or a miss), or a miss, or the complete new data with A's or with B's ready metadata — never a
truncated or mixed value; and every key with another digest reads exactly as in `d0`.  (Nothing is assumed about `d0`: it may hold
an old entry of another type, stray data files, or files named like the temporaries; the decoders are only assumed to accept the
complete payloads of the two states, `CodecAt` as in C16.) -/
theorem file_writers_serializable (c : FileCfg) (d0 : CDir) (stA stB : CState) (okA : CodecAt c stA) (okB : CodecAt c stB)
    (hq : stB.metadata.query = stA.metadata.query) (hty : stB.metadata.typeId = stA.metadata.typeId)
    (hdata : c.enc (c.serD stB.metadata.typeId stB.data) = c.enc (c.serD stA.metadata.typeId stA.data))
    (a1 a2 b1 b2 : Nat) (hdist : [a1, a2, b1, b2].Nodup) (l : List (Step FName))
    (hl : Interleave (storeStepsN c (.tmp a1) (.tmp a2) stA) (storeStepsN c (.tmp b1) (.tmp b2) stB) l) (n : Nat) :
    (FileC.get c (runPrefix n l d0) stA.metadata.query = FileC.get c d0 stA.metadata.query ∨
     FileC.get c (runPrefix n l d0) stA.metadata.query = none ∨
     FileC.get c (runPrefix n l d0) stA.metadata.query = some { metadata := { stA.metadata with status := ready }, data := stA.data } ∨
     FileC.get c (runPrefix n l d0) stA.metadata.query = some { metadata := { stB.metadata with status := ready }, data := stA.data }) ∧
    ∀ k', c.h k' ≠ c.h stA.metadata.query → FileC.get c (runPrefix n l d0) k' = FileC.get c d0 k' :=
  writers2 c d0 stA stB okA okB hq hty hdata a1 a2 b1 b2 hdist l hl n

/-- the same in the vocabulary of the codec laws (`CodecOK`: decoders invert encoders) with the old entry named: the reader sees
a miss, the old state, or the complete new state -/
theorem file_writers_serializable_old (c : FileCfg) (ok : CodecOK c) (d0 : CDir) (k : Str) (old : Option CState)
    (hold : FileC.get c d0 k = old) (stA stB : CState) (hkA : stA.metadata.query = k) (hkB : stB.metadata.query = k)
    (hty : stB.metadata.typeId = stA.metadata.typeId) (hdata : c.serD stB.metadata.typeId stB.data = c.serD stA.metadata.typeId stA.data)
    (a1 a2 b1 b2 : Nat) (hdist : [a1, a2, b1, b2].Nodup) (l : List (Step FName))
    (hl : Interleave (storeStepsN c (.tmp a1) (.tmp a2) stA) (storeStepsN c (.tmp b1) (.tmp b2) stB) l) (n : Nat) :
    FileC.get c (runPrefix n l d0) k = none ∨ FileC.get c (runPrefix n l d0) k = old ∨
    (∃ st, FileC.get c (runPrefix n l d0) k = some st ∧ st.data = stA.data ∧ st.data = stB.data ∧
      (st.metadata = { stA.metadata with status := ready } ∨ st.metadata = { stB.metadata with status := ready })) := by
  subst hkA
  have hAB : stA.data = stB.data := by
    have h1 := ok.deD_serD stA.metadata.typeId stA.data
    have h2 := ok.deD_serD stB.metadata.typeId stB.data
    rw [hdata, hty, h1] at h2
    exact Option.some.inj h2
  rcases (writers2 c d0 stA stB (ok.at stA) (ok.at stB) hkB hty (by rw [hdata]) a1 a2 b1 b2 hdist l hl n).1 with h | h | h | h
  · exact Or.inr (Or.inl (h.trans hold))
  · exact Or.inl h
  · exact Or.inr (Or.inr ⟨_, h, rfl, hAB, Or.inl rfl⟩)
  · exact Or.inr (Or.inr ⟨_, h, rfl, hAB, Or.inr rfl⟩)

/-- **progress records are harmless**: the same with a third thread that writes a progress record for the key
(`store_metadata(m)`, `m.status ≠ ready` — what the repaired evaluator guarantees, repo fix cb22d87), under every three-way
interleaving of the file operations: the reader still obtains only what it obtained before, a miss, or the complete new state.
(One progress writer; any number of them, and progress writes of the store writers themselves before their `store`, are covered only
by the cache-operation theorems above and by the schedules of `harness/concfile.py`.) -/
theorem file_writers_progress_harmless (c : FileCfg) (d0 : CDir) (stA stB : CState) (okA : CodecAt c stA) (okB : CodecAt c stB)
    (hq : stB.metadata.query = stA.metadata.query) (hty : stB.metadata.typeId = stA.metadata.typeId)
    (hdata : c.enc (c.serD stB.metadata.typeId stB.data) = c.enc (c.serD stA.metadata.typeId stA.data))
    (mP : CMeta) (hPq : mP.query = stA.metadata.query) (hPdec : (c.dec (c.enc (c.serM mP))).bind c.deM = some mP)
    (hPs : mP.status ≠ ready)
    (a1 a2 b1 b2 tp : Nat) (hdist : [a1, a2, b1, b2, tp].Nodup) (l : List (Step FName))
    (hl : Interleave3 (storeStepsN c (.tmp a1) (.tmp a2) stA) (storeStepsN c (.tmp b1) (.tmp b2) stB)
      (storeMetaStepsN c (.tmp tp) mP) l) (n : Nat) :
    (FileC.get c (runPrefix n l d0) stA.metadata.query = FileC.get c d0 stA.metadata.query ∨
     FileC.get c (runPrefix n l d0) stA.metadata.query = none ∨
     FileC.get c (runPrefix n l d0) stA.metadata.query = some { metadata := { stA.metadata with status := ready }, data := stA.data } ∨
     FileC.get c (runPrefix n l d0) stA.metadata.query = some { metadata := { stB.metadata with status := ready }, data := stA.data }) ∧
    ∀ k', c.h k' ≠ c.h stA.metadata.query → FileC.get c (runPrefix n l d0) k' = FileC.get c d0 k' :=
  writers3 c d0 stA stB okA okB hq hty hdata mP hPq hPdec hPs a1 a2 b1 b2 tp hdist l hl n

/-- one store writer and one progress writer (not an instance of the previous theorem, whose second store writer runs to the
end of the interleaving): the reader obtains what it obtained before, a miss, or the complete new state -/
theorem file_writer_and_progress (c : FileCfg) (d0 : CDir) (st : CState) (ok : CodecAt c st)
    (mP : CMeta) (hPq : mP.query = st.metadata.query) (hPdec : (c.dec (c.enc (c.serM mP))).bind c.deM = some mP)
    (hPs : mP.status ≠ ready) (a1 a2 tp : Nat) (hdist : [a1, a2, tp].Nodup) (l : List (Step FName))
    (hl : Interleave (storeStepsN c (.tmp a1) (.tmp a2) st) (storeMetaStepsN c (.tmp tp) mP) l) (n : Nat) :
    (FileC.get c (runPrefix n l d0) st.metadata.query = FileC.get c d0 st.metadata.query ∨
     FileC.get c (runPrefix n l d0) st.metadata.query = none ∨
     FileC.get c (runPrefix n l d0) st.metadata.query = some { metadata := { st.metadata with status := ready }, data := st.data }) ∧
    ∀ k', c.h k' ≠ c.h st.metadata.query → FileC.get c (runPrefix n l d0) k' = FileC.get c d0 k' :=
  writer_and_progress c d0 st ok mP hPq hPdec hPs a1 a2 tp hdist l hl n

/-- **link to the crash model (exact)**: with the crash model's temporary name, on a directory holding the metadata file of the key
and exactly one data file of the key (of the state's type), `storeStepsN` IS the list `storeStepsC` that the C16 crash replay
compares with the file operations of the code -/
theorem file_steps_link_exact (c : FileCfg) (d : CDir) (st : CState) (x : Data)
    (hs : (AL.get d (.state (c.h st.metadata.query))).isSome = true)
    (hd : d.filter (fun e => FileC.isDataOf (c.h st.metadata.query) e.1) =
      [(.data (c.h st.metadata.query) (c.ext st.metadata.typeId), x)]) :
    storeStepsN c tmpC tmpC st = storeStepsC c d st :=
  storeStepsN_eq_storeStepsC c d st x hs hd

/-- **link (effect)**: on every directory without a data file of ANOTHER type for the key the two lists lead to the same directory
(`storeStepsC` omits the unlinks of missing files, which are no-ops of `execC`) -/
theorem file_steps_link_run (c : FileCfg) (d : CDir) (st : CState)
    (hd : ∀ f ∈ d, FileC.isDataOf (c.h st.metadata.query) f.1 = true →
      f.1 = .data (c.h st.metadata.query) (c.ext st.metadata.typeId)) :
    (storeStepsN c tmpC tmpC st).foldl execC d = (storeStepsC c d st).foldl execC d :=
  storeStepsN_run_eq_storeStepsC c d st hd

/-- the executable schedules are exactly the interleavings -/
theorem file_merge_iff_interleave {α : Type} (x y l : List α) : Interleave x y l ↔ ∃ sch, l = merge sch x y :=
  ⟨interleave_merge, fun ⟨sch, h⟩ => h ▸ merge_interleave sch x y⟩

theorem file_merge3_interleave3 {α : Type} (sch : List Nat) (x y z : List α) : Interleave3 x y z (merge3 sch x y z) :=
  merge3_interleave3 sch x y z

/-- a shuffle of (a shuffle of two threads) with a third thread is a three-way interleaving -/
theorem file_nested_interleave {α : Type} {x y xy z l : List α} (h1 : Interleave x y xy) (h2 : Interleave xy z l) :
    Interleave3 x y z l := h1.nest h2

/-! ### non-vacuity, a concrete schedule, and the negative witness (shared temporary name) -/

def fMetaA : CMeta := { query := ['k'], status := ready, typeId := ['t'], rest := ['a'] }
def fMetaB : CMeta := { query := ['k'], status := ready, typeId := ['t'], rest := ['b'] }
def fMetaP : CMeta := { query := ['k'], status := "evaluation".toList, typeId := ['t'] }

/-- identity codec; three metadata records with distinct payloads; the data decoder accepts ANY bytes (every prefix of a payload
decodes to a shorter value: truncation would be visible) -/
def fCfg : FileCfg :=
  { h := id, ext := id, enc := id, dec := some,
    serM := fun m => if m = fMetaA then [1] else if m = fMetaB then [2] else [3],
    deM := fun b => if b = [1] then some fMetaA else if b = [2] then some fMetaB else if b = [3] then some fMetaP else none,
    serD := fun _ _ => [4, 5], deD := fun _ b => some (some (b.map (fun x => Char.ofNat x.toNat))) }

def fStA : CState := { metadata := { fMetaA with status := [] }, data := some [Char.ofNat 4, Char.ofNat 5] }
def fStB : CState := { metadata := { fMetaB with status := "evaluation".toList }, data := some [Char.ofNat 4, Char.ofNat 5] }
/-- a complete old entry of the key and an entry of another key -/
def fOld : CDir := [(.state ['k'], [2]), (.data ['k'] ['t'], [7]), (.state ['j'], [1]), (.data ['j'] ['t'], [9])]

def fA (n1 n2 : Nat) : List (Step FName) := storeStepsN fCfg (.tmp n1) (.tmp n2) fStA
def fB (n1 n2 : Nat) : List (Step FName) := storeStepsN fCfg (.tmp n1) (.tmp n2) fStB
/-- A: unlink, unlink, create, write — B: unlink, unlink, create — A: close, rename (data), create, write, close, rename (metadata) — B: the rest -/
def fSched : List Bool := [true, true, true, true, false, false, false, true, true, true, true, true, true]

-- the hypotheses of `file_writers_serializable` / `file_writers_progress_harmless` are satisfiable
example : CodecAt fCfg fStA ∧ CodecAt fCfg fStB ∧ fStB.metadata.query = fStA.metadata.query ∧
    fStB.metadata.typeId = fStA.metadata.typeId ∧
    fCfg.enc (fCfg.serD fStB.metadata.typeId fStB.data) = fCfg.enc (fCfg.serD fStA.metadata.typeId fStA.data) ∧
    [10, 11, 20, 21, 30].Nodup ∧ fMetaP.query = fStA.metadata.query ∧
    (fCfg.dec (fCfg.enc (fCfg.serM fMetaP))).bind fCfg.deM = some fMetaP ∧ fMetaP.status ≠ ready ∧
    fCfg.h ['j'] ≠ fCfg.h fStA.metadata.query :=
  ⟨⟨by decide, by decide⟩, ⟨by decide, by decide⟩, by decide, by decide, by decide, by decide, by decide, by decide, by decide, by decide⟩

example : fA 10 11 =
    [.unlink (.state ['k']), .unlink (.data ['k'] ['t']), .create (.tmp 10), .append (.tmp 10) [4, 5], .close (.tmp 10),
     .rename (.tmp 10) (.data ['k'] ['t']), .create (.tmp 11), .append (.tmp 11) [1], .close (.tmp 11),
     .rename (.tmp 11) (.state ['k'])] := by decide

-- with the writers' OWN temporaries the schedule `fSched` shows the old entry, then misses, then the complete new entry
example : (List.range 21).map (fun n => (FileC.get fCfg (runPrefix n (merge fSched (fA 10 11) (fB 20 21)) fOld) ['k']).map
      (fun st => (st.metadata.rest, st.data))) =
    [some (['b'], some [Char.ofNat 7])] ++ List.replicate 12 none ++ List.replicate 7 (some (['a'], some [Char.ofNat 4, Char.ofNat 5])) ++
      [some (['b'], some [Char.ofNat 4, Char.ofNat 5])] := by
  decide +kernel

-- and the theorem applies to this schedule (every prefix, the other key untouched)
example (n : Nat) : FileC.get fCfg (runPrefix n (merge fSched (fA 10 11) (fB 20 21)) fOld) ['j'] = FileC.get fCfg fOld ['j'] :=
  (file_writers_serializable fCfg fOld fStA fStB ⟨by decide, by decide⟩ ⟨by decide, by decide⟩ (by decide) (by decide) (by decide)
    10 11 20 21 (by decide) _ (merge_interleave fSched _ _) n).2 ['j'] (by decide)

/-- **negative witness** (the seeded change C12-1: the temporary file is named after its target, so two writers of one key share
it): when A and B use the SAME temporary name for the data file, under the schedule `fSched` B's `open(…, "wb")` truncates the file A
has just written; A publishes the empty file and then its ready metadata: after 13 file operations the reader is served a state
with status `ready` whose data is a proper prefix (here: the empty prefix) of the new data — and after all 20 operations the
truncated entry is still there.  `file_writers_serializable` excludes exactly this for distinct names. -/
theorem file_shared_tmp_truncates :
    Interleave (fA 0 11) (fB 0 21) (merge fSched (fA 0 11) (fB 0 21)) ∧
    FileC.get fCfg (runPrefix 13 (merge fSched (fA 0 11) (fB 0 21)) fOld) ['k'] = some { metadata := fMetaA, data := some [] } ∧
    fMetaA.status = ready ∧ ([] : Str) ≠ [Char.ofNat 4, Char.ofNat 5] ∧ ([] : Str) <+: [Char.ofNat 4, Char.ofNat 5] ∧
    FileC.get fCfg (runPrefix 20 (merge fSched (fA 0 11) (fB 0 21)) fOld) ['k'] = some { metadata := fMetaB, data := some [] } ∧
    FileC.get fCfg (runPrefix 13 (merge fSched (fA 10 11) (fB 20 21)) fOld) ['k'] =
      some { metadata := fMetaA, data := some [Char.ofNat 4, Char.ofNat 5] } :=
  ⟨merge_interleave _ _ _, by decide +kernel, rfl, by decide, by decide, by decide +kernel, by decide +kernel⟩

-- a three-way schedule with a progress writer: its record hides the entry (a miss) until a store writer publishes again
example : (List.range 25).map (fun n => (FileC.get fCfg (runPrefix n
      (merge3 [0, 0, 0, 0, 0, 0, 0, 0, 0, 0, 2, 2, 2, 2] (fA 10 11) (fB 20 21) (storeMetaStepsN fCfg (.tmp 30) fMetaP)) fOld) ['k']).map
      (fun st => st.metadata.rest)) =
    [some ['b']] ++ List.replicate 9 none ++ List.replicate 4 (some ['a']) ++ List.replicate 10 none ++ [some ['b']] := by
  decide +kernel

-- the theorem applies to it
example (n : Nat) :
    let l := merge3 [0, 0, 0, 0, 0, 0, 0, 0, 0, 0, 2, 2, 2, 2] (fA 10 11) (fB 20 21) (storeMetaStepsN fCfg (.tmp 30) fMetaP)
    FileC.get fCfg (runPrefix n l fOld) ['j'] = FileC.get fCfg fOld ['j'] :=
  (file_writers_progress_harmless fCfg fOld fStA fStB ⟨by decide, by decide⟩ ⟨by decide, by decide⟩ (by decide) (by decide) (by decide)
    fMetaP (by decide) (by decide) (by decide) 10 11 20 21 30 (by decide) _ (merge3_interleave3 _ _ _ _) n).2 ['j'] (by decide)

end Liquer.C12


/-! ## file-operation granularity, `StoreCache` on a `FileStore` (directory tree)

The same question for the store-backed cache on a directory store.  `StoreCache.store(state)` issues exactly
`FileStore.store(to_path(key), bytes, metadata)`, `StoreCache.store_metadata` issues `FileStore.store_metadata`.  Model:
`LiquerModel/ConcFileT.lean` — `storeStepsTN` / `storeMetaStepsTN` are the file operations of these two calls as STATIC lists with the
writer's OWN temporary names (`.tmp a`, the key `a` is the label of the `tmp_<uuid4>` file): `mkdir` of every directory above the path
(`execT`: a no-op on an existing name, `exist_ok=True`), `unlink` of the old metadata file (a no-op on a missing name), `mkdir` of the
hidden folder, data through a temporary + `rename`, metadata through a temporary + `rename`; `runPrefixT n l t0` is the tree after the
first `n` file operations of the interleaving `l`; `readSC` is what a fresh `StoreCache` on a fresh `FileStore` reads (as in C16).  The
lists are tied to the lists `storeStepsT` / `storeMetaStepsT` of the crash model (which the C16 crash replay validates against the
code) by `tree_steps_link_run`, for every tree.
Unlike `FileCache.store`, `FileStore.store` does not remove the old data file: it stays until the first `rename` replaces it.  Every
writer unlinks the metadata file BEFORE it publishes its data, so when the first data `rename` happens the old metadata is gone: old
metadata never meets new data (`Lemmas/ConcFileT2.lean`, invariant `GT`).  A later `unlink` by the other writer may hide a complete
entry again (a miss), which is allowed.
Proof: `Lemmas/ConcFileT1.lean` (link, names, frame of other paths), `ConcFileT2.lean` (invariant), `ConcFileT3.lean`. -/

namespace Liquer.C12
open Liquer Liquer.Crash

/-- **two concurrent `StoreCache.store` of one path on a `FileStore`**: writers A and B of the same path `p` with the same data bytes
`b` (concurrent evaluations of one key are deterministic) and metadata bytes `mbA`, `mbB` that decode to ready records `mA`, `mB`
under which `b` decodes to the value `v`; four pairwise distinct temporary labels; started on ANY tree `t0` (nothing is assumed: it
may hold an old entry with other bytes, a directory or nothing at `p`, files at the places of the directories above `p`, files
named like the temporaries; `p` is any key — `p ∉ ancestors p` is a theorem).
After EVERY prefix (`n` file operations) of EVERY interleaving `l` of their file operations a reader of `p` obtains what it obtained
from `t0` (the old entry, or a miss), or a miss, or the complete new data with A's or with B's ready metadata — never a truncated
or mixed value (in particular never old metadata with new data); and EVERY other path `p' ≠ p` — also the directories above `p`,
which the writers may create — reads exactly as in `t0`. -/
theorem tree_writers_serializable (deM : Data → Option CMeta) (deD : Str → Data → Option (Option Str)) (t0 : Tree) (p : Key)
    (b mbA mbB : Data) (mA mB : CMeta) (v : Option Str)
    (hMA : deM mbA = some mA) (hAr : mA.status = ready) (hAv : deD mA.typeId b = some v)
    (hMB : deM mbB = some mB) (hBr : mB.status = ready) (hBv : deD mB.typeId b = some v)
    (a1 a2 b1 b2 : Key) (hdist : [a1, a2, b1, b2].Nodup) (l : List (Step SName))
    (hl : Interleave (storeStepsTN (.tmp a1) (.tmp a2) p b mbA) (storeStepsTN (.tmp b1) (.tmp b2) p b mbB) l) (n : Nat) :
    (readSC deM deD (runPrefixT n l t0) p = readSC deM deD t0 p ∨
     readSC deM deD (runPrefixT n l t0) p = none ∨
     readSC deM deD (runPrefixT n l t0) p = some { metadata := mA, data := v } ∨
     readSC deM deD (runPrefixT n l t0) p = some { metadata := mB, data := v }) ∧
    ∀ p', p' ≠ p → readSC deM deD (runPrefixT n l t0) p' = readSC deM deD t0 p' :=
  twriters2 deM deD t0 p b mbA mbB mA mB v hMA hAr hAv hMB hBr hBv a1 a2 b1 b2 hdist l hl n

/-- **progress records are harmless**: the same with a third thread that writes a metadata record for the path
(`store_metadata`) whose bytes `mbP` do not decode to a ready record (`m.status ≠ ready` is what the repaired evaluator guarantees,
repo fix cb22d87; bytes that do not decode at all are covered too), under every three-way interleaving of the file operations -/
theorem tree_writers_progress_harmless (deM : Data → Option CMeta) (deD : Str → Data → Option (Option Str)) (t0 : Tree) (p : Key)
    (b mbA mbB mbP : Data) (mA mB : CMeta) (v : Option Str)
    (hMA : deM mbA = some mA) (hAr : mA.status = ready) (hAv : deD mA.typeId b = some v)
    (hMB : deM mbB = some mB) (hBr : mB.status = ready) (hBv : deD mB.typeId b = some v)
    (hP : ∀ m, deM mbP = some m → m.status ≠ ready)
    (a1 a2 b1 b2 tp : Key) (hdist : [a1, a2, b1, b2, tp].Nodup) (l : List (Step SName))
    (hl : Interleave3 (storeStepsTN (.tmp a1) (.tmp a2) p b mbA) (storeStepsTN (.tmp b1) (.tmp b2) p b mbB)
      (storeMetaStepsTN (.tmp tp) p mbP) l) (n : Nat) :
    (readSC deM deD (runPrefixT n l t0) p = readSC deM deD t0 p ∨
     readSC deM deD (runPrefixT n l t0) p = none ∨
     readSC deM deD (runPrefixT n l t0) p = some { metadata := mA, data := v } ∨
     readSC deM deD (runPrefixT n l t0) p = some { metadata := mB, data := v }) ∧
    ∀ p', p' ≠ p → readSC deM deD (runPrefixT n l t0) p' = readSC deM deD t0 p' :=
  twriters3 deM deD t0 p b mbA mbB mbP mA mB v hMA hAr hAv hMB hBr hBv hP a1 a2 b1 b2 tp hdist l hl n

/-- one store writer and one progress writer: what the reader obtained before, a miss, or the complete new state -/
theorem tree_writer_and_progress (deM : Data → Option CMeta) (deD : Str → Data → Option (Option Str)) (t0 : Tree) (p : Key)
    (b mb mbP : Data) (m : CMeta) (v : Option Str)
    (hM : deM mb = some m) (hr : m.status = ready) (hv : deD m.typeId b = some v)
    (hP : ∀ m, deM mbP = some m → m.status ≠ ready)
    (a1 a2 tp : Key) (hdist : [a1, a2, tp].Nodup) (l : List (Step SName))
    (hl : Interleave (storeStepsTN (.tmp a1) (.tmp a2) p b mb) (storeMetaStepsTN (.tmp tp) p mbP) l) (n : Nat) :
    (readSC deM deD (runPrefixT n l t0) p = readSC deM deD t0 p ∨
     readSC deM deD (runPrefixT n l t0) p = none ∨
     readSC deM deD (runPrefixT n l t0) p = some { metadata := m, data := v }) ∧
    ∀ p', p' ≠ p → readSC deM deD (runPrefixT n l t0) p' = readSC deM deD t0 p' :=
  twriter_and_progress deM deD t0 p b mb mbP m v hM hr hv hP a1 a2 tp hdist l hl n

/-- **link to the crash model (effect)**: with the crash model's temporary name, run from EVERY tree `t`, the static lists and the
lists `storeStepsT t` / `storeMetaStepsT t` — computed from `t`, compared with the file operations of the code by the C16 crash
replay — lead to the same tree (the crash model omits the `mkdir` of existing directories and the `unlink` of a missing metadata
file, which are no-ops of `execT`).  No hypothesis on `t`. -/
theorem tree_steps_link_run (t : Tree) (k : Key) (b mb : Data) :
    (storeStepsTN (.tmp (parentKey k)) (.tmp (parentKey k)) k b mb).foldl execT t = (storeStepsT t k b mb).foldl execT t ∧
    (storeMetaStepsTN (.tmp (parentKey k)) k mb).foldl execT t = (storeMetaStepsT t k mb).foldl execT t :=
  ⟨storeStepsTN_run_eq_storeStepsT t k b mb, storeMetaStepsTN_run_eq_storeMetaStepsT t k mb⟩

/-! ### non-vacuity, a concrete schedule, and the negative witness (shared temporary name) -/

def tP : Key := [['d'], ['k']]
def tJ : Key := [['d'], ['j']]
/-- the label of a temporary file in the hidden folder of `d` -/
def tL (c : Char) : Key := [['d'], ['t', c]]

/-- a complete old entry at `d/k` (other data bytes, B's metadata) and an entry at `d/j` -/
def tOld : Tree :=
  [(.node [['d']], .dir), (.metaDir [['d']], .dir), (.node tP, .file [7]), (.mfile tP, .file [2]),
   (.node tJ, .file [9]), (.mfile tJ, .file [1])]

def tA (c1 c2 : Char) : List (Step SName) := storeStepsTN (.tmp (tL c1)) (.tmp (tL c2)) tP [4, 5] [1]
def tB (c1 c2 : Char) : List (Step SName) := storeStepsTN (.tmp (tL c1)) (.tmp (tL c2)) tP [4, 5] [2]
def tPr (c : Char) : List (Step SName) := storeMetaStepsTN (.tmp (tL c)) tP [3]
/-- A: mkdir, unlink, mkdir, create, write — B: mkdir, unlink, mkdir, create — A: close, rename (data), create, write, close,
rename (metadata) — B: the rest -/
def tSched : List Bool :=
  [true, true, true, true, true, false, false, false, false, true, true, true, true, true, true]

-- the hypotheses of `tree_writers_serializable` / `tree_writers_progress_harmless` are satisfiable (decoders of `fCfg`)
example : fCfg.deM [1] = some fMetaA ∧ fMetaA.status = ready ∧
    fCfg.deD fMetaA.typeId [4, 5] = some (some [Char.ofNat 4, Char.ofNat 5]) ∧
    fCfg.deM [2] = some fMetaB ∧ fMetaB.status = ready ∧
    fCfg.deD fMetaB.typeId [4, 5] = some (some [Char.ofNat 4, Char.ofNat 5]) ∧
    (∀ m, fCfg.deM [3] = some m → m.status ≠ ready) ∧
    [tL 'a', tL 'b', tL 'c', tL 'e', tL 'p'].Nodup ∧ tJ ≠ tP ∧ [['d']] ≠ tP :=
  ⟨by decide, by decide, by decide, by decide, by decide, by decide,
   fun m h => by
    have : fCfg.deM [3] = some fMetaP := by decide
    rw [this] at h; cases h; decide,
   by decide, by decide, by decide⟩

example : tA 'a' 'b' =
    [.mkdir (.node [['d']]), .unlink (.mfile tP), .mkdir (.metaDir [['d']]),
     .create (.tmp (tL 'a')), .append (.tmp (tL 'a')) [4, 5], .close (.tmp (tL 'a')), .rename (.tmp (tL 'a')) (.node tP),
     .create (.tmp (tL 'b')), .append (.tmp (tL 'b')) [1], .close (.tmp (tL 'b')), .rename (.tmp (tL 'b')) (.mfile tP)] := by decide

-- with the writers' OWN temporaries the schedule `tSched` shows the old entry, then misses, then the complete new entry
example : (List.range 23).map (fun n => (readSC fCfg.deM fCfg.deD (runPrefixT n (merge tSched (tA 'a' 'b') (tB 'c' 'e')) tOld) tP).map
      (fun st => (st.metadata.rest, st.data))) =
    List.replicate 2 (some (['b'], some [Char.ofNat 7])) ++ List.replicate 13 none ++
      List.replicate 7 (some (['a'], some [Char.ofNat 4, Char.ofNat 5])) ++ [some (['b'], some [Char.ofNat 4, Char.ofNat 5])] := by
  decide +kernel

-- and the theorem applies to this schedule (every prefix; the other path and the directory above untouched)
example (n : Nat) :
    readSC fCfg.deM fCfg.deD (runPrefixT n (merge tSched (tA 'a' 'b') (tB 'c' 'e')) tOld) tJ = readSC fCfg.deM fCfg.deD tOld tJ ∧
    readSC fCfg.deM fCfg.deD (runPrefixT n (merge tSched (tA 'a' 'b') (tB 'c' 'e')) tOld) [['d']] = readSC fCfg.deM fCfg.deD tOld [['d']] :=
  have h := (tree_writers_serializable fCfg.deM fCfg.deD tOld tP [4, 5] [1] [2] fMetaA fMetaB (some [Char.ofNat 4, Char.ofNat 5])
    (by decide) (by decide) (by decide) (by decide) (by decide) (by decide)
    (tL 'a') (tL 'b') (tL 'c') (tL 'e') (by decide) _ (merge_interleave tSched _ _) n).2
  ⟨h tJ (by decide), h [['d']] (by decide)⟩

-- the writers also work on the empty tree (they create `d` and `d/__metadata__`), and the static list does what the crash model's does
example : readSC fCfg.deM fCfg.deD (runPrefixT 22 (merge tSched (tA 'a' 'b') (tB 'c' 'e')) []) tP =
      some { metadata := fMetaB, data := some [Char.ofNat 4, Char.ofNat 5] } ∧
    AL.get (runPrefixT 22 (merge tSched (tA 'a' 'b') (tB 'c' 'e')) []) (.node [['d']]) = some .dir ∧
    (storeStepsTN (.tmp (parentKey tP)) (.tmp (parentKey tP)) tP [4, 5] [1]).length = 11 ∧ (storeStepsT tOld tP [4, 5] [1]).length = 9 := by
  decide +kernel

/-- **negative witness** (the seeded change "temporary file named after its target", so two writers of one path share it): when
A and B use the SAME temporary name for the data file, under the schedule `tSched` B's `open(…, "wb")` truncates the file A has just
written; A publishes the empty file and then its ready metadata: after 15 file operations the reader is served a state with status
`ready` whose data is a proper prefix (here: the empty prefix) of the new data — and after all 22 operations the truncated entry is
still there.  `tree_writers_serializable` excludes exactly this for distinct names. -/
theorem tree_shared_tmp_truncates :
    Interleave (tA 's' 'b') (tB 's' 'e') (merge tSched (tA 's' 'b') (tB 's' 'e')) ∧
    readSC fCfg.deM fCfg.deD (runPrefixT 15 (merge tSched (tA 's' 'b') (tB 's' 'e')) tOld) tP = some { metadata := fMetaA, data := some [] } ∧
    fMetaA.status = ready ∧ ([] : Str) ≠ [Char.ofNat 4, Char.ofNat 5] ∧ ([] : Str) <+: [Char.ofNat 4, Char.ofNat 5] ∧
    readSC fCfg.deM fCfg.deD (runPrefixT 22 (merge tSched (tA 's' 'b') (tB 's' 'e')) tOld) tP = some { metadata := fMetaB, data := some [] } ∧
    readSC fCfg.deM fCfg.deD (runPrefixT 15 (merge tSched (tA 'a' 'b') (tB 'c' 'e')) tOld) tP =
      some { metadata := fMetaA, data := some [Char.ofNat 4, Char.ofNat 5] } :=
  ⟨merge_interleave _ _ _, by decide +kernel, rfl, by decide, by decide, by decide +kernel, by decide +kernel⟩

-- a three-way schedule with a progress writer: its record hides the entry (a miss) until a store writer publishes again
example : (List.range 29).map (fun n => (readSC fCfg.deM fCfg.deD (runPrefixT n
      (merge3 [0, 0, 0, 0, 0, 0, 0, 0, 0, 0, 0, 2, 2, 2, 2, 2, 2] (tA 'a' 'b') (tB 'c' 'e') (tPr 'p')) tOld) tP).map
      (fun st => st.metadata.rest)) =
    List.replicate 2 (some ['b']) ++ List.replicate 9 none ++ List.replicate 6 (some ['a']) ++ List.replicate 11 none ++ [some ['b']] := by
  decide +kernel

-- the theorem applies to it
example (n : Nat) :
    let l := merge3 [0, 0, 0, 0, 0, 0, 0, 0, 0, 0, 0, 2, 2, 2, 2, 2, 2] (tA 'a' 'b') (tB 'c' 'e') (tPr 'p')
    readSC fCfg.deM fCfg.deD (runPrefixT n l tOld) tJ = readSC fCfg.deM fCfg.deD tOld tJ :=
  (tree_writers_progress_harmless fCfg.deM fCfg.deD tOld tP [4, 5] [1] [2] [3] fMetaA fMetaB (some [Char.ofNat 4, Char.ofNat 5])
    (by decide) (by decide) (by decide) (by decide) (by decide) (by decide)
    (fun m h => by
      have : fCfg.deM [3] = some fMetaP := by decide
      rw [this] at h; cases h; decide)
    (tL 'a') (tL 'b') (tL 'c') (tL 'e') (tL 'p') (by decide) _ (merge3_interleave3 _ _ _ _) n).2 tJ (by decide)

end Liquer.C12


/-! ## file-operation granularity: the reader as TWO file operations

The theorems of the two sections above let the reader look at ONE directory (an atomic `get`).  In the code `FileCache.get(key)`
first reads and decodes the metadata file (a miss unless the status is `ready`) and THEN — a separate file operation, other threads
may run in between — reads and decodes the data file of the type the metadata names; `StoreCache.get` on a `FileStore` likewise reads
the metadata file first, then the node.  Model: `LiquerModel/ConcFileSplit.lean` — `FileC.getSplit c dM dD k` is `FileC.get` with the
metadata file looked up in `dM` and the data file in `dD` (`getSplit c d d k = get c d k` by `rfl`), `readSCSplit deM deD tM tD p`
is `readSC` with the metadata file looked up in `tM` and the node in `tD`.  The reader reads the metadata after `n1` file operations
of the interleaving and the data after `n2 ≥ n1` of them: `dM = runPrefix n1 l d0`, `dD = runPrefix n2 l d0`.  (The existence tests
`os.path.exists` / `contains` before each read are further file operations; a file that vanishes between test and read raises,
which `get` turns into a miss: every placement of the tests yields the answer of the split reader or a miss — a miss is always among
the allowed answers; for the test of `StoreCache._load_metadata` this is `tree_split_guard_only_misses`.)

What the split reader can obtain that the atomic reader cannot: the READY metadata record the initial directory held, read before any
writer unlinked it, together with the NEW data, published later (the fifth answer below; `file_split_reader_mixed_witness`,
`tree_split_reader_mixed_witness`).  Everything else is as for the atomic reader; in particular a ready record of a writer is never
paired with anything but the complete new data (the data file, once published by anybody, is absent or complete, and "published" is
monotone along the interleaving), and the data is never truncated.  Under the soundness hypothesis — the old entry, if any, is
complete and already holds the value the writers store (C16 + C05: one key, one value) — the fifth answer IS the old entry
(`file_split_reader_sound`, `tree_split_reader_sound`).
An old entry of ANOTHER type with another extension: the step list `storeStepsN` unlinks only the data file of the new type, so the
split reader finds the old data file untouched and answers with the old entry (in the code `remove` unlinks every `data_<h>.*`, which
can only turn this answer into a miss).
Proof: `Lemmas/ConcFileSplit.lean` (`prefix_inv3_two`: the invariant after two prefixes, at componentwise ordered positions; `DataOK`:
the data file of the new type is at every moment the initial one, absent, or complete), `Lemmas/ConcFileSplitT.lean` (`NodeOK`). -/

namespace Liquer.C12
open Liquer Liquer.Crash

/-- **split reader, `FileCache`**: under the hypotheses of `file_writers_progress_harmless` (two store writers A, B of one key with
equal encoded data bytes, a progress writer that never says ready, five pairwise distinct temporaries, ANY initial directory, ANY
three-way interleaving `l`), a reader that reads the metadata file after `n1` file operations and the data file after `n2 ≥ n1`
obtains
  a miss, or the complete new entry with A's or with B's ready metadata, or what the atomic reader obtains from `d0`, or
  the ready metadata record `m0` of `d0` (whose type has the extension of the new type) with the NEW bytes decoded under the type
  `m0` names — the new value `stA.data` when `m0` names the writers' type;
and every key with another digest reads exactly as in `d0`. -/
theorem file_split_reader (c : FileCfg) (d0 : CDir) (stA stB : CState) (okA : CodecAt c stA) (okB : CodecAt c stB)
    (hq : stB.metadata.query = stA.metadata.query) (hty : stB.metadata.typeId = stA.metadata.typeId)
    (hdata : c.enc (c.serD stB.metadata.typeId stB.data) = c.enc (c.serD stA.metadata.typeId stA.data))
    (mP : CMeta) (hPq : mP.query = stA.metadata.query) (hPdec : (c.dec (c.enc (c.serM mP))).bind c.deM = some mP)
    (hPs : mP.status ≠ ready)
    (a1 a2 b1 b2 tp : Nat) (hdist : [a1, a2, b1, b2, tp].Nodup) (l : List (Step FName))
    (hl : Interleave3 (storeStepsN c (.tmp a1) (.tmp a2) stA) (storeStepsN c (.tmp b1) (.tmp b2) stB)
      (storeMetaStepsN c (.tmp tp) mP) l) (n1 n2 : Nat) (hn : n1 ≤ n2) :
    (FileC.getSplit c (runPrefix n1 l d0) (runPrefix n2 l d0) stA.metadata.query = none ∨
     FileC.getSplit c (runPrefix n1 l d0) (runPrefix n2 l d0) stA.metadata.query =
       some { metadata := { stA.metadata with status := ready }, data := stA.data } ∨
     FileC.getSplit c (runPrefix n1 l d0) (runPrefix n2 l d0) stA.metadata.query =
       some { metadata := { stB.metadata with status := ready }, data := stA.data } ∨
     FileC.getSplit c (runPrefix n1 l d0) (runPrefix n2 l d0) stA.metadata.query = FileC.get c d0 stA.metadata.query ∨
     ∃ m0 w, FileC.loadMeta c d0 (.state (c.h stA.metadata.query)) = some m0 ∧ m0.status = ready ∧
       c.ext m0.typeId = c.ext stA.metadata.typeId ∧
       (c.dec (c.enc (c.serD stA.metadata.typeId stA.data))).bind (c.deD m0.typeId) = some w ∧
       (m0.typeId = stA.metadata.typeId → w = stA.data) ∧
       FileC.getSplit c (runPrefix n1 l d0) (runPrefix n2 l d0) stA.metadata.query = some { metadata := m0, data := w }) ∧
    ∀ k', c.h k' ≠ c.h stA.metadata.query →
      FileC.getSplit c (runPrefix n1 l d0) (runPrefix n2 l d0) k' = FileC.get c d0 k' := by
  obtain ⟨h, hfr⟩ := split_writers3 c d0 stA stB okA okB hq hty hdata mP hPq hPdec hPs a1 a2 b1 b2 tp hdist l hl n1 n2 hn
  refine ⟨?_, hfr⟩
  rcases h with h | h | h | h | ⟨m0, w, h1, h2, h3, h4, h5⟩
  · exact Or.inl h
  · exact Or.inr (Or.inl h)
  · exact Or.inr (Or.inr (Or.inl h))
  · exact Or.inr (Or.inr (Or.inr (Or.inl h)))
  · refine Or.inr (Or.inr (Or.inr (Or.inr ⟨m0, w, h1, h2, h3, h4, fun e => ?_, h5⟩)))
    have := okA.dataOK
    rw [e] at h4; rw [h4] at this; exact Option.some.inj this

/-- the same for two store writers without a progress writer -/
theorem file_split_reader_two (c : FileCfg) (d0 : CDir) (stA stB : CState) (okA : CodecAt c stA) (okB : CodecAt c stB)
    (hq : stB.metadata.query = stA.metadata.query) (hty : stB.metadata.typeId = stA.metadata.typeId)
    (hdata : c.enc (c.serD stB.metadata.typeId stB.data) = c.enc (c.serD stA.metadata.typeId stA.data))
    (a1 a2 b1 b2 : Nat) (hdist : [a1, a2, b1, b2].Nodup) (l : List (Step FName))
    (hl : Interleave (storeStepsN c (.tmp a1) (.tmp a2) stA) (storeStepsN c (.tmp b1) (.tmp b2) stB) l)
    (n1 n2 : Nat) (hn : n1 ≤ n2) :
    (FileC.getSplit c (runPrefix n1 l d0) (runPrefix n2 l d0) stA.metadata.query = none ∨
     FileC.getSplit c (runPrefix n1 l d0) (runPrefix n2 l d0) stA.metadata.query =
       some { metadata := { stA.metadata with status := ready }, data := stA.data } ∨
     FileC.getSplit c (runPrefix n1 l d0) (runPrefix n2 l d0) stA.metadata.query =
       some { metadata := { stB.metadata with status := ready }, data := stA.data } ∨
     FileC.getSplit c (runPrefix n1 l d0) (runPrefix n2 l d0) stA.metadata.query = FileC.get c d0 stA.metadata.query ∨
     ∃ m0 w, FileC.loadMeta c d0 (.state (c.h stA.metadata.query)) = some m0 ∧ m0.status = ready ∧
       c.ext m0.typeId = c.ext stA.metadata.typeId ∧
       (c.dec (c.enc (c.serD stA.metadata.typeId stA.data))).bind (c.deD m0.typeId) = some w ∧
       FileC.getSplit c (runPrefix n1 l d0) (runPrefix n2 l d0) stA.metadata.query = some { metadata := m0, data := w }) ∧
    ∀ k', c.h k' ≠ c.h stA.metadata.query →
      FileC.getSplit c (runPrefix n1 l d0) (runPrefix n2 l d0) k' = FileC.get c d0 k' :=
  split_writers2 c d0 stA stB okA okB hq hty hdata a1 a2 b1 b2 hdist l hl n1 n2 hn

/-- **corollary (sound initial directory)**: if, in the initial directory, (1) a ready metadata record of the key is backed by a
readable data file (`hcomplete` — what C16 proves of every directory the writers leave, crash or not), (2) the entry of the key, if
any, already holds the value the writers store (`hsound` — C05: one key, one value) and (3) its type is the writers' type whenever
its extension is (`htype`), then the split reader obtains a miss, the old entry, or the complete new entry with A's or B's metadata —
never a truncated value, never the data of another value.  (Each hypothesis is needed: `file_split_reader_mixed_witness` for (2),
`file_split_reader_incomplete_witness` for (1); without (3) the new bytes would be decoded by the codec of another type.) -/
theorem file_split_reader_sound (c : FileCfg) (d0 : CDir) (stA stB : CState) (okA : CodecAt c stA) (okB : CodecAt c stB)
    (hq : stB.metadata.query = stA.metadata.query) (hty : stB.metadata.typeId = stA.metadata.typeId)
    (hdata : c.enc (c.serD stB.metadata.typeId stB.data) = c.enc (c.serD stA.metadata.typeId stA.data))
    (mP : CMeta) (hPq : mP.query = stA.metadata.query) (hPdec : (c.dec (c.enc (c.serM mP))).bind c.deM = some mP)
    (hPs : mP.status ≠ ready)
    (a1 a2 b1 b2 tp : Nat) (hdist : [a1, a2, b1, b2, tp].Nodup) (l : List (Step FName))
    (hl : Interleave3 (storeStepsN c (.tmp a1) (.tmp a2) stA) (storeStepsN c (.tmp b1) (.tmp b2) stB)
      (storeMetaStepsN c (.tmp tp) mP) l)
    (hcomplete : ∀ m0, FileC.loadMeta c d0 (.state (c.h stA.metadata.query)) = some m0 → m0.status = ready →
      ∃ old, FileC.get c d0 stA.metadata.query = some old)
    (hsound : ∀ old, FileC.get c d0 stA.metadata.query = some old → old.data = stA.data)
    (htype : ∀ old, FileC.get c d0 stA.metadata.query = some old → c.ext old.metadata.typeId = c.ext stA.metadata.typeId →
      old.metadata.typeId = stA.metadata.typeId)
    (n1 n2 : Nat) (hn : n1 ≤ n2) :
    FileC.getSplit c (runPrefix n1 l d0) (runPrefix n2 l d0) stA.metadata.query = none ∨
    FileC.getSplit c (runPrefix n1 l d0) (runPrefix n2 l d0) stA.metadata.query = FileC.get c d0 stA.metadata.query ∨
    FileC.getSplit c (runPrefix n1 l d0) (runPrefix n2 l d0) stA.metadata.query =
      some { metadata := { stA.metadata with status := ready }, data := stA.data } ∨
    FileC.getSplit c (runPrefix n1 l d0) (runPrefix n2 l d0) stA.metadata.query =
      some { metadata := { stB.metadata with status := ready }, data := stA.data } :=
  (split_writers3 c d0 stA stB okA okB hq hty hdata mP hPq hPdec hPs a1 a2 b1 b2 tp hdist l hl n1 n2 hn).1.sound
    okA.dataOK hcomplete hsound htype

/-- **split reader, `StoreCache` on a `FileStore`**: under the hypotheses of `tree_writers_progress_harmless`, a reader that reads the
metadata file of `p` after `n1` file operations and the node after `n2 ≥ n1` obtains a miss, or the complete new entry with A's or
with B's ready metadata, or what the atomic reader obtains from `t0`, or the ready metadata record `m0` of `t0` with the NEW bytes
decoded under the type `m0` names (the new value `v` when `m0` names A's type); every other path reads exactly as in `t0`.
(`tree_writers_serializable` says that for the ATOMIC reader old metadata never meets new data; the split reader is exactly how
they can meet.) -/
theorem tree_split_reader (deM : Data → Option CMeta) (deD : Str → Data → Option (Option Str)) (t0 : Tree) (p : Key)
    (b mbA mbB mbP : Data) (mA mB : CMeta) (v : Option Str)
    (hMA : deM mbA = some mA) (hAr : mA.status = ready) (hAv : deD mA.typeId b = some v)
    (hMB : deM mbB = some mB) (hBr : mB.status = ready) (hBv : deD mB.typeId b = some v)
    (hP : ∀ m, deM mbP = some m → m.status ≠ ready)
    (a1 a2 b1 b2 tp : Key) (hdist : [a1, a2, b1, b2, tp].Nodup) (l : List (Step SName))
    (hl : Interleave3 (storeStepsTN (.tmp a1) (.tmp a2) p b mbA) (storeStepsTN (.tmp b1) (.tmp b2) p b mbB)
      (storeMetaStepsTN (.tmp tp) p mbP) l) (n1 n2 : Nat) (hn : n1 ≤ n2) :
    (readSCSplit deM deD (runPrefixT n1 l t0) (runPrefixT n2 l t0) p = none ∨
     readSCSplit deM deD (runPrefixT n1 l t0) (runPrefixT n2 l t0) p = some { metadata := mA, data := v } ∨
     readSCSplit deM deD (runPrefixT n1 l t0) (runPrefixT n2 l t0) p = some { metadata := mB, data := v } ∨
     readSCSplit deM deD (runPrefixT n1 l t0) (runPrefixT n2 l t0) p = readSC deM deD t0 p ∨
     ∃ mb0 m0 w, AL.get t0 (.mfile p) = some (.file mb0) ∧ deM mb0 = some m0 ∧ m0.status = ready ∧
       deD m0.typeId b = some w ∧ (m0.typeId = mA.typeId → w = v) ∧
       readSCSplit deM deD (runPrefixT n1 l t0) (runPrefixT n2 l t0) p = some { metadata := m0, data := w }) ∧
    ∀ p', p' ≠ p → readSCSplit deM deD (runPrefixT n1 l t0) (runPrefixT n2 l t0) p' = readSC deM deD t0 p' := by
  obtain ⟨h, hfr⟩ := tsplit_writers3 deM deD t0 p b mbA mbB mbP mA mB v hMA hAr hAv hMB hBr hBv hP a1 a2 b1 b2 tp hdist l hl n1 n2 hn
  refine ⟨?_, hfr⟩
  rcases h with h | h | h | h | ⟨mb0, m0, w, h1, h2, h3, h4, h5⟩
  · exact Or.inl h
  · exact Or.inr (Or.inl h)
  · exact Or.inr (Or.inr (Or.inl h))
  · exact Or.inr (Or.inr (Or.inr (Or.inl h)))
  · refine Or.inr (Or.inr (Or.inr (Or.inr ⟨mb0, m0, w, h1, h2, h3, h4, fun e => ?_, h5⟩)))
    rw [e, hAv] at h4; exact (Option.some.inj h4).symm

/-- the same for two store writers without a progress writer -/
theorem tree_split_reader_two (deM : Data → Option CMeta) (deD : Str → Data → Option (Option Str)) (t0 : Tree) (p : Key)
    (b mbA mbB : Data) (mA mB : CMeta) (v : Option Str)
    (hMA : deM mbA = some mA) (hAr : mA.status = ready) (hAv : deD mA.typeId b = some v)
    (hMB : deM mbB = some mB) (hBr : mB.status = ready) (hBv : deD mB.typeId b = some v)
    (a1 a2 b1 b2 : Key) (hdist : [a1, a2, b1, b2].Nodup) (l : List (Step SName))
    (hl : Interleave (storeStepsTN (.tmp a1) (.tmp a2) p b mbA) (storeStepsTN (.tmp b1) (.tmp b2) p b mbB) l)
    (n1 n2 : Nat) (hn : n1 ≤ n2) :
    (readSCSplit deM deD (runPrefixT n1 l t0) (runPrefixT n2 l t0) p = none ∨
     readSCSplit deM deD (runPrefixT n1 l t0) (runPrefixT n2 l t0) p = some { metadata := mA, data := v } ∨
     readSCSplit deM deD (runPrefixT n1 l t0) (runPrefixT n2 l t0) p = some { metadata := mB, data := v } ∨
     readSCSplit deM deD (runPrefixT n1 l t0) (runPrefixT n2 l t0) p = readSC deM deD t0 p ∨
     ∃ mb0 m0 w, AL.get t0 (.mfile p) = some (.file mb0) ∧ deM mb0 = some m0 ∧ m0.status = ready ∧
       deD m0.typeId b = some w ∧
       readSCSplit deM deD (runPrefixT n1 l t0) (runPrefixT n2 l t0) p = some { metadata := m0, data := w }) ∧
    ∀ p', p' ≠ p → readSCSplit deM deD (runPrefixT n1 l t0) (runPrefixT n2 l t0) p' = readSC deM deD t0 p' :=
  tsplit_writers2 deM deD t0 p b mbA mbB mA mB v hMA hAr hAv hMB hBr hBv a1 a2 b1 b2 hdist l hl n1 n2 hn

/-- **corollary (sound initial tree)**: if, in the initial tree, (1) a ready metadata record of `p` is backed by a readable data file
(C16), (2) the entry at `p`, if any, already holds the value the writers store (C05) and (3) has A's type, then the split reader
obtains a miss, the old entry, or the complete new entry with A's or B's metadata -/
theorem tree_split_reader_sound (deM : Data → Option CMeta) (deD : Str → Data → Option (Option Str)) (t0 : Tree) (p : Key)
    (b mbA mbB mbP : Data) (mA mB : CMeta) (v : Option Str)
    (hMA : deM mbA = some mA) (hAr : mA.status = ready) (hAv : deD mA.typeId b = some v)
    (hMB : deM mbB = some mB) (hBr : mB.status = ready) (hBv : deD mB.typeId b = some v)
    (hP : ∀ m, deM mbP = some m → m.status ≠ ready)
    (a1 a2 b1 b2 tp : Key) (hdist : [a1, a2, b1, b2, tp].Nodup) (l : List (Step SName))
    (hl : Interleave3 (storeStepsTN (.tmp a1) (.tmp a2) p b mbA) (storeStepsTN (.tmp b1) (.tmp b2) p b mbB)
      (storeMetaStepsTN (.tmp tp) p mbP) l)
    (hcomplete : ∀ mb0 m0, AL.get t0 (.mfile p) = some (.file mb0) → deM mb0 = some m0 → m0.status = ready →
      ∃ old, readSC deM deD t0 p = some old)
    (hsound : ∀ old, readSC deM deD t0 p = some old → old.data = v)
    (htype : ∀ old, readSC deM deD t0 p = some old → old.metadata.typeId = mA.typeId)
    (n1 n2 : Nat) (hn : n1 ≤ n2) :
    readSCSplit deM deD (runPrefixT n1 l t0) (runPrefixT n2 l t0) p = none ∨
    readSCSplit deM deD (runPrefixT n1 l t0) (runPrefixT n2 l t0) p = readSC deM deD t0 p ∨
    readSCSplit deM deD (runPrefixT n1 l t0) (runPrefixT n2 l t0) p = some { metadata := mA, data := v } ∨
    readSCSplit deM deD (runPrefixT n1 l t0) (runPrefixT n2 l t0) p = some { metadata := mB, data := v } :=
  (tsplit_writers3 deM deD t0 p b mbA mbB mbP mA mB v hMA hAr hAv hMB hBr hBv hP a1 a2 b1 b2 tp hdist l hl n1 n2 hn).1.sound
    hAv hcomplete hsound htype

/-- the test "`p` exists and is not a directory" that `StoreCache._load_metadata` performs before it reads the metadata file,
evaluated on ANY tree `tC` (any moment), only adds misses -/
theorem tree_split_guard_only_misses (deM : Data → Option CMeta) (deD : Str → Data → Option (Option Str)) (tC tM tD : Tree) (p : Key) :
    readSCSplit3 deM deD tC tM tD p = none ∨ readSCSplit3 deM deD tC tM tD p = readSCSplit deM deD tM tD p :=
  readSCSplit3_cases deM deD tC tM tD p

/-- with one directory / tree the split readers are the atomic readers -/
theorem split_readers_same (c : FileCfg) (d : CDir) (k : Str) (deM : Data → Option CMeta) (deD : Str → Data → Option (Option Str))
    (t : Tree) (p : Key) :
    FileC.getSplit c d d k = FileC.get c d k ∧ readSCSplit deM deD t t p = readSC deM deD t p ∧
    readSCSplit3 deM deD t t t p = readSC deM deD t p :=
  ⟨rfl, rfl, readSCSplit3_same deM deD t p⟩

/-! ### non-vacuity and the witnesses -/

/-- an OLD ready record of the key `k` (neither A's nor B's) -/
def fMetaO : CMeta := { query := ['k'], status := ready, typeId := ['t'], rest := ['o'] }

/-- `fCfg` with a payload `[6]` for the old record -/
def fCfgO : FileCfg :=
  { fCfg with
    serM := fun m => if m = fMetaO then [6] else fCfg.serM m,
    deM := fun b => if b = [6] then some fMetaO else fCfg.deM b }

def fAO (n1 n2 : Nat) : List (Step FName) := storeStepsN fCfgO (.tmp n1) (.tmp n2) fStA
def fBO (n1 n2 : Nat) : List (Step FName) := storeStepsN fCfgO (.tmp n1) (.tmp n2) fStB

/-- a complete old entry of the key with ANOTHER value (`[7]`), old metadata -/
def fOldO : CDir := [(.state ['k'], [6]), (.data ['k'] ['t'], [7])]
/-- a ready record without a data file -/
def fOldI : CDir := [(.state ['k'], [6])]
/-- a complete old entry of the key that already holds the value the writers store -/
def fOldS : CDir := [(.state ['k'], [6]), (.data ['k'] ['t'], [4, 5]), (.state ['j'], [1]), (.data ['j'] ['t'], [9])]

-- the hypotheses of `file_split_reader` are satisfiable (the writers of the first section, with `fCfgO`)
example : CodecAt fCfgO fStA ∧ CodecAt fCfgO fStB ∧ fStB.metadata.query = fStA.metadata.query ∧
    fStB.metadata.typeId = fStA.metadata.typeId ∧
    fCfgO.enc (fCfgO.serD fStB.metadata.typeId fStB.data) = fCfgO.enc (fCfgO.serD fStA.metadata.typeId fStA.data) ∧
    [10, 11, 20, 21, 30].Nodup ∧ fMetaP.query = fStA.metadata.query ∧
    (fCfgO.dec (fCfgO.enc (fCfgO.serM fMetaP))).bind fCfgO.deM = some fMetaP ∧ fMetaP.status ≠ ready :=
  ⟨⟨by decide, by decide⟩, ⟨by decide, by decide⟩, by decide, by decide, by decide, by decide, by decide, by decide, by decide⟩

/-- **the mixed answer is real** (why `file_split_reader_sound` needs `hsound`): on the complete old entry `fOldO` (value `[7]`),
under the schedule `fSched` (A: unlink, unlink, create, write — B: unlink, unlink, create — A: close, rename …), a reader that reads
the metadata file before the first file operation (`n1 = 0`: the old ready record) and the data file after A has published its
data (`n2 = 9`) is served the OLD metadata with the NEW data — a state that is neither the old entry nor a complete new entry.
The atomic reader at either moment sees the old entry (`n = 0`) or a miss (`n = 9`). -/
theorem file_split_reader_mixed_witness :
    Interleave (fAO 10 11) (fBO 20 21) (merge fSched (fAO 10 11) (fBO 20 21)) ∧
    FileC.getSplit fCfgO (runPrefix 0 (merge fSched (fAO 10 11) (fBO 20 21)) fOldO)
      (runPrefix 9 (merge fSched (fAO 10 11) (fBO 20 21)) fOldO) ['k'] =
      some { metadata := fMetaO, data := some [Char.ofNat 4, Char.ofNat 5] } ∧
    FileC.get fCfgO fOldO ['k'] = some { metadata := fMetaO, data := some [Char.ofNat 7] } ∧
    fMetaO ≠ { fStA.metadata with status := ready } ∧ fMetaO ≠ { fStB.metadata with status := ready } ∧
    FileC.get fCfgO (runPrefix 0 (merge fSched (fAO 10 11) (fBO 20 21)) fOldO) ['k'] = FileC.get fCfgO fOldO ['k'] ∧
    FileC.get fCfgO (runPrefix 9 (merge fSched (fAO 10 11) (fBO 20 21)) fOldO) ['k'] = none :=
  ⟨merge_interleave _ _ _, by decide +kernel, by decide +kernel, by decide, by decide, by decide +kernel, by decide +kernel⟩

/-- **why `hcomplete` is needed**: a ready record WITHOUT a data file in the initial directory (the atomic reader: a miss) is
completed by the writers' data — the split reader is served a state although the initial directory held no entry -/
theorem file_split_reader_incomplete_witness :
    FileC.getSplit fCfgO (runPrefix 0 (merge fSched (fAO 10 11) (fBO 20 21)) fOldI)
      (runPrefix 9 (merge fSched (fAO 10 11) (fBO 20 21)) fOldI) ['k'] =
      some { metadata := fMetaO, data := some [Char.ofNat 4, Char.ofNat 5] } ∧
    FileC.get fCfgO fOldI ['k'] = none :=
  ⟨by decide +kernel, by decide +kernel⟩

-- all answers of the split reader along `fSched` on `fOldO` with the metadata read at `n1 = 0`: the old entry, misses, and the mixed
-- answer from the moment a writer has published its data
example : (List.range 21).map (fun n2 => (FileC.getSplit fCfgO (runPrefix 0 (merge fSched (fAO 10 11) (fBO 20 21)) fOldO)
      (runPrefix n2 (merge fSched (fAO 10 11) (fBO 20 21)) fOldO) ['k']).map (fun st => (st.metadata.rest, st.data))) =
    [some (['o'], some [Char.ofNat 7])] ++ [some (['o'], some [Char.ofNat 7])] ++ List.replicate 7 none ++
      List.replicate 12 (some (['o'], some [Char.ofNat 4, Char.ofNat 5])) := by
  decide +kernel

-- with the metadata read at `n1 = 13` (A's ready record): the complete new entry whenever the data file is read later
example : (List.range 8).map (fun i => (FileC.getSplit fCfgO (runPrefix 13 (merge fSched (fAO 10 11) (fBO 20 21)) fOldO)
      (runPrefix (13 + i) (merge fSched (fAO 10 11) (fBO 20 21)) fOldO) ['k']).map (fun st => (st.metadata.rest, st.data))) =
    List.replicate 8 (some (['a'], some [Char.ofNat 4, Char.ofNat 5])) := by
  decide +kernel

-- the hypotheses of `file_split_reader_sound` hold for `fOldS` (and the theorem applies: every `n1 ≤ n2`)
/-- a three-way schedule: A runs to the end, then the progress writer, then B -/
def fL3 : List (Step FName) :=
  merge3 [0, 0, 0, 0, 0, 0, 0, 0, 0, 0, 2, 2, 2, 2] (fAO 10 11) (fBO 20 21) (storeMetaStepsN fCfgO (.tmp 30) fMetaP)

example (n1 n2 : Nat) (hn : n1 ≤ n2) :
    FileC.getSplit fCfgO (runPrefix n1 fL3 fOldS) (runPrefix n2 fL3 fOldS) ['k'] = none ∨
    FileC.getSplit fCfgO (runPrefix n1 fL3 fOldS) (runPrefix n2 fL3 fOldS) ['k'] =
      some { metadata := fMetaO, data := some [Char.ofNat 4, Char.ofNat 5] } ∨
    FileC.getSplit fCfgO (runPrefix n1 fL3 fOldS) (runPrefix n2 fL3 fOldS) ['k'] =
      some { metadata := fMetaA, data := some [Char.ofNat 4, Char.ofNat 5] } ∨
    FileC.getSplit fCfgO (runPrefix n1 fL3 fOldS) (runPrefix n2 fL3 fOldS) ['k'] =
      some { metadata := fMetaB, data := some [Char.ofNat 4, Char.ofNat 5] } := by
  have hg : FileC.get fCfgO fOldS ['k'] = some { metadata := fMetaO, data := some [Char.ofNat 4, Char.ofNat 5] } := by decide +kernel
  have h := file_split_reader_sound fCfgO fOldS fStA fStB ⟨by decide, by decide⟩ ⟨by decide, by decide⟩ (by decide) (by decide)
    (by decide) fMetaP (by decide) (by decide) (by decide) 10 11 20 21 30 (by decide) fL3 (merge3_interleave3 _ _ _ _)
    (fun m0 _ _ => ⟨_, hg⟩)
    (fun old h => by
      have h' : FileC.get fCfgO fOldS ['k'] = some old := h
      rw [hg] at h'; cases h'; rfl)
    (fun old h _ => by
      have h' : FileC.get fCfgO fOldS ['k'] = some old := h
      rw [hg] at h'; cases h'; rfl)
    n1 n2 hn
  have hg' : FileC.get fCfgO fOldS fStA.metadata.query = some { metadata := fMetaO, data := some [Char.ofNat 4, Char.ofNat 5] } := hg
  rw [hg'] at h
  exact h

/-- the tree: a complete old entry at `d/k` with ANOTHER value (`[7]`) and the old metadata record `[6]` -/
def tOldO : Tree :=
  [(.node [['d']], .dir), (.metaDir [['d']], .dir), (.node tP, .file [7]), (.mfile tP, .file [6])]
/-- a complete old entry at `d/k` that already holds the value the writers store -/
def tOldS : Tree :=
  [(.node [['d']], .dir), (.metaDir [['d']], .dir), (.node tP, .file [4, 5]), (.mfile tP, .file [6]),
   (.node tJ, .file [9]), (.mfile tJ, .file [1])]

/-- **the mixed answer is real, tree** (why `tree_split_reader_sound` needs `hsound`): on `tOldO`, under `tSched` (A: mkdir, unlink,
mkdir, create, write — B: mkdir, unlink, mkdir, create — A: close, rename …), metadata read before the first file operation, node
read after A's `rename` (`n2 = 11`): OLD metadata with NEW data; the atomic reader sees the old entry (`n = 0`) or a miss (`n = 11`) -/
theorem tree_split_reader_mixed_witness :
    Interleave (tA 'a' 'b') (tB 'c' 'e') (merge tSched (tA 'a' 'b') (tB 'c' 'e')) ∧
    readSCSplit fCfgO.deM fCfgO.deD (runPrefixT 0 (merge tSched (tA 'a' 'b') (tB 'c' 'e')) tOldO)
      (runPrefixT 11 (merge tSched (tA 'a' 'b') (tB 'c' 'e')) tOldO) tP =
      some { metadata := fMetaO, data := some [Char.ofNat 4, Char.ofNat 5] } ∧
    readSC fCfgO.deM fCfgO.deD tOldO tP = some { metadata := fMetaO, data := some [Char.ofNat 7] } ∧
    fMetaO ≠ fMetaA ∧ fMetaO ≠ fMetaB ∧
    readSC fCfgO.deM fCfgO.deD (runPrefixT 11 (merge tSched (tA 'a' 'b') (tB 'c' 'e')) tOldO) tP = none :=
  ⟨merge_interleave _ _ _, by decide +kernel, by decide +kernel, by decide, by decide, by decide +kernel⟩

-- the hypotheses of `tree_split_reader_sound` hold for `tOldS` (and the theorem applies: every `n1 ≤ n2`; other paths untouched)
def tL3 : List (Step SName) :=
  merge3 [0, 0, 0, 0, 0, 0, 0, 0, 0, 0, 0, 2, 2, 2, 2, 2, 2] (tA 'a' 'b') (tB 'c' 'e') (tPr 'p')

example (n1 n2 : Nat) (hn : n1 ≤ n2) :
    (readSCSplit fCfgO.deM fCfgO.deD (runPrefixT n1 tL3 tOldS) (runPrefixT n2 tL3 tOldS) tP = none ∨
     readSCSplit fCfgO.deM fCfgO.deD (runPrefixT n1 tL3 tOldS) (runPrefixT n2 tL3 tOldS) tP =
       some { metadata := fMetaO, data := some [Char.ofNat 4, Char.ofNat 5] } ∨
     readSCSplit fCfgO.deM fCfgO.deD (runPrefixT n1 tL3 tOldS) (runPrefixT n2 tL3 tOldS) tP =
       some { metadata := fMetaA, data := some [Char.ofNat 4, Char.ofNat 5] } ∨
     readSCSplit fCfgO.deM fCfgO.deD (runPrefixT n1 tL3 tOldS) (runPrefixT n2 tL3 tOldS) tP =
       some { metadata := fMetaB, data := some [Char.ofNat 4, Char.ofNat 5] }) ∧
    readSCSplit fCfgO.deM fCfgO.deD (runPrefixT n1 tL3 tOldS) (runPrefixT n2 tL3 tOldS) tJ = readSC fCfgO.deM fCfgO.deD tOldS tJ := by
  have hg : readSC fCfgO.deM fCfgO.deD tOldS tP = some { metadata := fMetaO, data := some [Char.ofNat 4, Char.ofNat 5] } := by
    decide +kernel
  have hP : ∀ m, fCfgO.deM [3] = some m → m.status ≠ ready := fun m h => by
    have : fCfgO.deM [3] = some fMetaP := by decide
    rw [this] at h; cases h; decide
  have h := tree_split_reader_sound fCfgO.deM fCfgO.deD tOldS tP [4, 5] [1] [2] [3] fMetaA fMetaB (some [Char.ofNat 4, Char.ofNat 5])
    (by decide) (by decide) (by decide) (by decide) (by decide) (by decide) hP
    (tL 'a') (tL 'b') (tL 'c') (tL 'e') (tL 'p') (by decide) tL3 (merge3_interleave3 _ _ _ _)
    (fun _ _ _ _ _ => ⟨_, hg⟩)
    (fun old h => by rw [hg] at h; cases h; rfl)
    (fun old h => by rw [hg] at h; cases h; rfl)
    n1 n2 hn
  rw [hg] at h
  exact ⟨h, (tree_split_reader fCfgO.deM fCfgO.deD tOldS tP [4, 5] [1] [2] [3] fMetaA fMetaB (some [Char.ofNat 4, Char.ofNat 5])
    (by decide) (by decide) (by decide) (by decide) (by decide) (by decide) hP
    (tL 'a') (tL 'b') (tL 'c') (tL 'e') (tL 'p') (by decide) tL3 (merge3_interleave3 _ _ _ _) n1 n2 hn).2 tJ (by decide)⟩

end Liquer.C12


-- OBLIGATIONS: Liquer.C12.inst_registry Liquer.C12.good_answer Liquer.C12.oracle_refines Liquer.C12.oracle_frame Liquer.C12.answers_extend_trace Liquer.C12.apply_op_sound Liquer.C12.meta_remove_harmless Liquer.C12.recorded_answer_good Liquer.C12.inv_iff Liquer.C12.fresh_inv Liquer.C12.step_preserves_inv Liquer.C12.env_preserves_inv Liquer.C12.reach_preserves_inv Liquer.C12.schedule_preserves_inv Liquer.C12.schedule_reach Liquer.C12.events_preserve_inv Liquer.C12.events_reach Liquer.C12.cache_sound_every_schedule Liquer.C12.cache_values_fresh Liquer.C12.result_is_solo Liquer.C12.result_is_sequential Liquer.C12.same_query_same_result Liquer.C12.answers_are_finished Liquer.C12.never_serves_unfinished Liquer.C12.metadata_only_is_miss Liquer.C12.evalQO_agrees
-- OBLIGATIONS: Liquer.C12.file_writers_serializable Liquer.C12.file_writers_serializable_old Liquer.C12.file_writers_progress_harmless Liquer.C12.file_writer_and_progress Liquer.C12.file_steps_link_exact Liquer.C12.file_steps_link_run Liquer.C12.file_merge_iff_interleave Liquer.C12.file_merge3_interleave3 Liquer.C12.file_nested_interleave Liquer.C12.file_shared_tmp_truncates
-- OBLIGATIONS: Liquer.C12.tree_writers_serializable Liquer.C12.tree_writers_progress_harmless Liquer.C12.tree_writer_and_progress Liquer.C12.tree_steps_link_run Liquer.C12.tree_shared_tmp_truncates
-- OBLIGATIONS: Liquer.C12.file_split_reader Liquer.C12.file_split_reader_two Liquer.C12.file_split_reader_sound Liquer.C12.tree_split_reader Liquer.C12.tree_split_reader_two Liquer.C12.tree_split_reader_sound Liquer.C12.tree_split_guard_only_misses Liquer.C12.split_readers_same Liquer.C12.file_split_reader_mixed_witness Liquer.C12.file_split_reader_incomplete_witness Liquer.C12.tree_split_reader_mixed_witness
