/-
C12 — concurrent evaluations sharing a cache are serializable. Theorems over LiquerModel/EvalO.lean and Conc.lean.
-/
import LiquerModel.Conc
import LiquerProofs.Inst.Vocab

namespace Liquer.C12

/-- the regenerated command signature table satisfies the side conditions the evaluator theorems assume -/
theorem inst_registry : Inst.registryOK Gen.registry = true := Inst.registry_ok

end Liquer.C12

-- OBLIGATIONS: Liquer.C12.inst_registry
