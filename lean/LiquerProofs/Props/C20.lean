/-
C20 — The web service is a faithful transport of the library.

Proved here: the wire (client-side `quote`, one server-side un-quote), the shape of `serve` (a failing
query never yields a 2xx), the registration gate for ALL enable/disable/register histories, the route table
(regenerated from the Flask URL map and the `ast` of the views) against the documented API, the
`RemoteStore` request table against the route table, and the refinement "a history of endpoint calls is the
same history of library calls".  Flask/werkzeug routing, header handling and WSGI are third party: they
enter through the regenerated table and the correspondence streams of harness/props/C20.py.
-/
import LiquerModel.Web
import LiquerProofs.Lemmas.Quote
import LiquerProofs.Inst.Routes

namespace Liquer.C20
open Liquer Liquer.Web

/-! ### the registration gate -/

theorem gateStep_state (e : Bool) (op : GateOp) : (gateStep e op).1 = lastToggle e [op] := by
  cases op <;> rfl

theorem lastToggle_cons (e : Bool) (op : GateOp) (rest : List GateOp) :
    lastToggle e (op :: rest) = lastToggle (gateStep e op).1 rest := by
  cases op <;> rfl

/-- **C20 gate**: for ALL histories of `enable` / `disable` / `register` calls, from either initial flag:
the `i`-th call, if it is a `register`, is accepted iff the most recent toggle before it was `enable`
(the initial flag if there was none). -/
theorem c20_gate (init : Bool) (h : List GateOp) (i : Nat) (hi : h[i]? = some GateOp.register) :
    (gateTrace init h)[i]? = some (some (lastToggle init (h.take i))) := by
  induction h generalizing init i with
  | nil => simp at hi
  | cons op rest ih =>
    cases i with
    | zero =>
      simp only [List.getElem?_cons_zero, Option.some.injEq] at hi
      subst hi
      simp [gateTrace, gateStep, lastToggle]
    | succ i =>
      simp only [List.getElem?_cons_succ] at hi
      simp only [gateTrace, List.getElem?_cons_succ, List.take_succ_cons, lastToggle_cons]
      exact ih _ i hi

/-- toggles are never reported as registrations -/
theorem c20_gate_toggle (init : Bool) (h : List GateOp) (i : Nat) (op : GateOp) (hi : h[i]? = some op)
    (hop : op ≠ GateOp.register) : (gateTrace init h)[i]? = some none := by
  induction h generalizing init i with
  | nil => simp at hi
  | cons o rest ih =>
    cases i with
    | zero =>
      simp only [List.getElem?_cons_zero, Option.some.injEq] at hi
      subst hi
      cases o <;> simp_all [gateTrace, gateStep]
    | succ i =>
      simp only [List.getElem?_cons_succ] at hi
      simp only [gateTrace, List.getElem?_cons_succ]
      exact ih _ i hi

theorem lastToggle_append (a b : List GateOp) (e : Bool) :
    lastToggle e (a ++ b) = lastToggle (lastToggle e a) b := by
  induction a generalizing e with
  | nil => rfl
  | cons o a ih => cases o <;> simp [lastToggle, ih]

theorem lastToggle_registers (m : List GateOp) (e : Bool) (hm : ∀ o ∈ m, o = GateOp.register) :
    lastToggle e m = e := by
  induction m with
  | nil => rfl
  | cons o m ih =>
    have := hm o List.mem_cons_self
    subst this
    exact ih (fun o ho => hm o (List.mem_cons_of_mem _ ho))

/-- in particular (the D12 history): after `disable` nothing is accepted until the next `enable` -/
theorem c20_gate_disabled (init : Bool) (pre mid post : List GateOp)
    (hmid : ∀ o ∈ mid, o = GateOp.register) :
    (gateTrace init (pre ++ GateOp.disable :: mid ++ GateOp.register :: post))[(pre ++ GateOp.disable :: mid).length]? =
      some (some false) := by
  have hidx : (pre ++ GateOp.disable :: mid ++ GateOp.register :: post)[(pre ++ GateOp.disable :: mid).length]? =
      some GateOp.register := by
    rw [List.getElem?_append_right (Nat.le_refl _)]; simp
  rw [c20_gate init _ _ hidx, List.take_left' rfl, lastToggle_append]
  simp only [lastToggle]
  rw [lastToggle_registers mid false hmid]

/-- the mirror image: after `enable` every registration is accepted until the next `disable` -/
theorem c20_gate_enabled (init : Bool) (pre mid post : List GateOp)
    (hmid : ∀ o ∈ mid, o = GateOp.register) :
    (gateTrace init (pre ++ GateOp.enable :: mid ++ GateOp.register :: post))[(pre ++ GateOp.enable :: mid).length]? =
      some (some true) := by
  have hidx : (pre ++ GateOp.enable :: mid ++ GateOp.register :: post)[(pre ++ GateOp.enable :: mid).length]? =
      some GateOp.register := by
    rw [List.getElem?_append_right (Nat.le_refl _)]; simp
  rw [c20_gate init _ _ hidx, List.take_left' rfl, lastToggle_append]
  simp only [lastToggle]
  rw [lastToggle_registers mid true hmid]

/-- every call of a history has exactly one outcome (no call is dropped or answered twice) -/
theorem c20_gate_length (init : Bool) (h : List GateOp) : (gateTrace init h).length = h.length := by
  induction h generalizing init with
  | nil => rfl
  | cons o rest ih => simp [gateTrace, ih]

/-- the flag the gate ends with depends on the toggles only: registrations (accepted or refused) never change it -/
theorem c20_gate_register_neutral (init : Bool) (a b : List GateOp) :
    lastToggle init (a ++ GateOp.register :: b) = lastToggle init (a ++ b) := by
  rw [lastToggle_append, lastToggle_append]; rfl

example : gateTrace false [.disable, .register] = [none, some false] := by decide
example : (gateTrace false ([.disable] ++ GateOp.enable :: [.register] ++ GateOp.register :: [.disable]))[3]? =
    some (some true) := c20_gate_enabled false [.disable] [.register] [.disable] (by decide)
example : ([GateOp.enable] : List GateOp)[0]? = some GateOp.enable ∧ GateOp.enable ≠ GateOp.register := by decide
example : ∀ o ∈ [GateOp.register, GateOp.register], o = GateOp.register := by decide
example : (gateTrace true ([.enable] ++ GateOp.disable :: [.register, .register] ++ GateOp.register :: [.enable]))[4]? =
    some (some false) := c20_gate_disabled true [.enable] [.register, .register] [.enable] (by decide)
example : gateTrace false [.enable, .register, .disable, .register, .register, .enable, .register] =
    [none, some true, none, some false, some false, none, some true] := by decide
example : ([GateOp.enable, .register] : List GateOp)[1]? = some GateOp.register := by decide

/-! ### the wire -/

/-- **C20 wire**: the path a quoting client sends is delivered to the view unchanged, for every query text
(`dec`: any byte decoder inverting UTF-8 encoding; `DecOK decUtf8` is `Liquer.decUtf8_ok`). -/
theorem c20_wire {dec : List UInt8 → List Char} (hd : DecOK dec) (s : List Char) :
    unquote dec (quote s) = s := by
  have := unquote_quote_append hd s [] (by simp)
  simpa using this

example : DecOK decUtf8 := decUtf8_ok

/-! ### serve -/

/-- **C20 serve, failure side**: if evaluation raises, or ends in an error state, or the result cannot be
serialised in the requested format, the response is a 500 — never a 2xx. -/
theorem c20_serve_never_2xx_on_failure {V B} (env : ServeEnv V B) (dec : List UInt8 → List Char) (raw : Str)
    (hfail : env.evaluate (unquote dec raw) = .raises ∨ env.evaluate (unquote dec raw) = .errorState ∨
      ∃ v ext, env.evaluate (unquote dec raw) = .ok v ext ∧ env.serialise v ext = none) :
    serve env dec raw = .error 500 ∧ (serve env dec raw).is2xx = false := by
  have h : serve env dec raw = .error 500 := by
    rcases hfail with h | h | ⟨v, ext, h, hs⟩
    · simp [serve, serveQuery, h]
    · simp [serve, serveQuery, h]
    · simp [serve, serveQuery, h, hs]
  exact ⟨h, by rw [h]; rfl⟩

/-- **C20 serve, success side**: a 2xx response carries exactly the bytes and media type obtained by
evaluating the (un-quoted) query in process and serialising the result in the format of its extension. -/
theorem c20_serve_2xx {V B} (env : ServeEnv V B) (dec : List UInt8 → List Char) (raw : Str)
    (h2 : (serve env dec raw).is2xx = true) :
    ∃ v ext b m, env.evaluate (unquote dec raw) = .ok v ext ∧ env.serialise v ext = some (b, m) ∧
      serve env dec raw = .ok b m := by
  unfold serve serveQuery at h2 ⊢
  cases he : env.evaluate (unquote dec raw) with
  | raises => simp [he, Response.is2xx, Response.status] at h2
  | errorState => simp [he, Response.is2xx, Response.status] at h2
  | ok v ext =>
    cases hs : env.serialise v ext with
    | none => simp [he, hs, Response.is2xx, Response.status] at h2
    | some bm =>
      obtain ⟨b, m⟩ := bm
      exact ⟨v, ext, b, m, rfl, hs, by simp [hs]⟩

/-- **C20 transport**: requesting `quote q` returns what in-process evaluation of `q` followed by
serialisation gives -/
theorem c20_serve_faithful {V B} (env : ServeEnv V B) {dec : List UInt8 → List Char} (hd : DecOK dec)
    (q : Str) (v : V) (ext : Option Str) (b : B) (m : Str)
    (he : env.evaluate q = .ok v ext) (hs : env.serialise v ext = some (b, m)) :
    serve env dec (quote q) = .ok b m := by
  simp [serve, serveQuery, c20_wire hd, he, hs]

/-! non-vacuity: an environment where `[a]` evaluates and serialises, `[b]` is an error state -/
def demoEnv : ServeEnv Nat Nat :=
  { evaluate := fun q => if q = ['a', ' '] then .ok 1 none else if q = ['b'] then .errorState else .raises,
    serialise := fun v _ => some (v + 1, ['t']) }
example : serve demoEnv decUtf8 (quote ['a', ' ']) = .ok 2 ['t'] :=
  c20_serve_faithful demoEnv decUtf8_ok _ 1 none 2 ['t'] (by simp [demoEnv]) rfl
example : (serve demoEnv decUtf8 (quote ['a', ' '])).is2xx = true := by
  rw [c20_serve_faithful demoEnv decUtf8_ok _ 1 none 2 ['t'] (by simp [demoEnv]) rfl]; rfl
example : demoEnv.evaluate (unquote decUtf8 ['b']) = .errorState := by
  have : unquote decUtf8 ['b'] = ['b'] := c20_wire decUtf8_ok ['b']
  rw [this]; simp [demoEnv]

/-! ### routes -/

/-- **C20 routes**, for the tables regenerated from the current tree: (1) every store operation and every
exposed cache operation has an endpoint in the documented API; (2) every documented endpoint is served and
its view performs exactly one call of that library operation on `get_store()` / `get_cache()` with the
path parameter as key (nothing else that could modify the store or cache); (3) every `RemoteStore` method
requests endpoints performing the operation it implements. -/
theorem c20_routes :
    (∀ op ∈ storeOps ++ cacheOps, ∃ s ∈ apiSpec, s.2.2 = op) ∧
    (∀ s ∈ apiSpec, ∃ r, findRoute Gen.routes s.1 s.2.1 = some r ∧ routeDoes r s.2.2 = true) ∧
    remoteOK Gen.routes Gen.remoteStoreRows = true := by
  refine ⟨?_, ?_, Inst.remote_store_ok⟩
  · have := Inst.api_coverage
    simp only [coverageOK, List.all_eq_true, List.any_eq_true, beq_iff_eq] at this
    exact this
  · have := Inst.routes_spec
    simp only [specOK, List.all_eq_true] at this
    intro s hs
    have h := this s hs
    cases hf : findRoute Gen.routes s.1 s.2.1 with
    | none => simp [hf] at h
    | some r => exact ⟨r, rfl, by simpa [hf] using h⟩

/-! ### histories of endpoint calls -/

/-- read-only operations leave the library state alone (law of the library, hypothesis) -/
def ReadOnlyLaw {σ K P R} (lib : Lib σ K P R) : Prop :=
  ∀ op k p s, readOnly op = true → (lib.step op k p s).1 = s

theorem runCalls_readonly {σ K P R} (lib : Lib σ K P R) (law : ReadOnlyLaw lib) (op : LibOp)
    (calls : List (LibOp × KeyArg)) (k : K) (p : P) (s : σ)
    (h : calls.filter (fun c => c.1 == op || !readOnly c.1) = []) : runCalls lib calls k p s = s := by
  induction calls generalizing s with
  | nil => rfl
  | cons c calls ih =>
    simp only [List.filter_cons] at h
    split at h
    · cases h
    · next hc =>
      have hro : readOnly c.1 = true := by
        simp only [Bool.or_eq_true, Bool.not_eq_true', not_or, Bool.not_eq_false] at hc
        simpa using hc.2
      simp only [runCalls, List.foldl_cons, law c.1 k p s hro]
      exact ih s h

/-- a view that `routeDoes op` leaves the library in the state the single call `op` leaves it in -/
theorem runCalls_routeDoes {σ K P R} (lib : Lib σ K P R) (law : ReadOnlyLaw lib) (r : Route) (op : LibOp)
    (h : routeDoes r op = true) (k : K) (p : P) (s : σ) :
    runCalls lib r.calls k p s = (lib.step op k p s).1 := by
  simp only [routeDoes, beq_iff_eq] at h
  generalize r.calls = calls at h
  induction calls generalizing s with
  | nil => simp at h
  | cons c calls ih =>
    simp only [List.filter_cons] at h
    split at h
    · next hc =>
      simp only [List.cons.injEq] at h
      obtain ⟨hc1, hrest⟩ := h
      have : c.1 = op := by rw [hc1]
      simp only [runCalls, List.foldl_cons, this]
      exact runCalls_readonly lib law op calls k p _ hrest
    · next hc =>
      have hro : readOnly c.1 = true := by
        simp only [Bool.or_eq_true, Bool.not_eq_true', not_or, Bool.not_eq_false] at hc
        simpa using hc.2
      simp only [runCalls, List.foldl_cons, law c.1 k p s hro]
      exact ih s h

example : routeDoes ⟨['/', 'x'], [sPOST], ['v'], [(.storeGetMetadata, .path), (.storeStore, .path)]⟩ .storeStore = true ∧
    routeDoes ⟨['/', 'x'], [sGET], ['v'], [(.storeRemove, .path), (.storeStore, .path)]⟩ .storeStore = false := by decide

/-- a history of calls to documented endpoints, executed by the served views … -/
def runEndpoints {σ K P R} (lib : Lib σ K P R) (routes : List Route) :
    List ((Str × Str) × K × P) → σ → Option σ
  | [], s => some s
  | ((rule, verb), k, p) :: rest, s =>
    match specOp rule verb, findRoute routes rule verb with
    | some _, some r => runEndpoints lib routes rest (runCalls lib r.calls k p s)
    | _, _ => none

/-- … and the same history as direct library calls -/
def runLibrary {σ K P R} (lib : Lib σ K P R) : List ((Str × Str) × K × P) → σ → Option σ
  | [], s => some s
  | ((rule, verb), k, p) :: rest, s =>
    match specOp rule verb with
    | some op => runLibrary lib rest (lib.step op k p s).1
    | none => none

theorem specOp_mem {rule verb : Str} {op : LibOp} (h : specOp rule verb = some op) :
    (rule, verb, op) ∈ apiSpec := by
  simp only [specOp, Option.map_eq_some_iff] at h
  obtain ⟨s, hs, rfl⟩ := h
  have hm := List.mem_of_find?_eq_some hs
  have hp := List.find?_some hs
  simp only [Bool.and_eq_true, beq_iff_eq] at hp
  obtain ⟨s1, s2, s3⟩ := s
  simp only at hp
  rw [← hp.1, ← hp.2]
  exact hm

/-- **C20 histories**: for every history (any length) of calls to documented store / cache endpoints, the
served store / cache ends in exactly the state the same library calls produce. -/
theorem c20_histories {σ K P R} (lib : Lib σ K P R) (law : ReadOnlyLaw lib)
    (h : List ((Str × Str) × K × P)) (s : σ) :
    runEndpoints lib Gen.routes h s = runLibrary lib h s := by
  induction h generalizing s with
  | nil => rfl
  | cons c rest ih =>
    obtain ⟨⟨rule, verb⟩, k, p⟩ := c
    simp only [runEndpoints, runLibrary]
    cases hop : specOp rule verb with
    | none => rfl
    | some op =>
      obtain ⟨r, hr, hd⟩ := c20_routes.2.1 (rule, verb, op) (specOp_mem hop)
      simp only at hr hd
      simp only [hr, runCalls_routeDoes lib law r op hd, ih]

/-! non-vacuity: a counter library where only `storeStore` changes the state -/
def demoLib : Lib Nat Unit Unit Nat :=
  { step := fun op _ _ s => if op = .storeStore then (s + 1, s) else (s, s) }
example : ReadOnlyLaw demoLib := by
  intro op k p s h
  cases op <;> simp_all [demoLib, readOnly]
example : specOp ['/', 'a', 'p', 'i', '/', 's', 't', 'o', 'r', 'e', '/', 'k', 'e', 'y', 's'] sGET = some .storeKeys := by
  decide

end Liquer.C20

-- OBLIGATIONS: Liquer.C20.c20_gate Liquer.C20.c20_gate_toggle Liquer.C20.c20_gate_disabled Liquer.C20.c20_wire Liquer.C20.c20_serve_never_2xx_on_failure Liquer.C20.c20_serve_2xx Liquer.C20.c20_serve_faithful Liquer.C20.c20_routes Liquer.C20.c20_histories Liquer.C20.c20_gate_enabled Liquer.C20.c20_gate_length Liquer.C20.c20_gate_register_neutral
