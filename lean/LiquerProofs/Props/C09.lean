/-
C09 — Cache reuse: cached results are never re-executed; after a cacheable evaluation the key is present.
Theorems over LiquerModel/Eval.lean and LiquerModel/Ref.lean; helper lemmas in LiquerProofs/Lemmas/Eval*.lean.
`Sound`, `Closed`, `CanonOK`: see the header of Props/C01.lean.
The text hypothesis `CanonOK` is discharged by C02's round trip for every class of `wfTop` queries: the `_wf`
corollaries (last section).
-/
import LiquerModel.Ref
import LiquerProofs.Inst.Vocab
import LiquerProofs.Lemmas.EvalCache
import LiquerProofs.Lemmas.EvalExact
import LiquerProofs.Lemmas.EvalExample
import LiquerProofs.Lemmas.EvalReuse
import LiquerProofs.Lemmas.EvalSuffix
import LiquerProofs.Lemmas.EvalCanon

namespace Liquer.C09

/-- the regenerated command signature table satisfies the side conditions the evaluator theorems assume -/
theorem inst_registry : Inst.registryOK Gen.registry = true := Inst.registry_ok

/-- A hit: when the cache serves the canonical key (no extra parameters, no input value), the evaluation returns
the served state and leaves the world — cache and call log — exactly as it was, whatever the as-typed text. -/
theorem hit (env : Env) (n : Nat) (w : World) (q : Query) (raw : Str) (extra : Extra) (input : Option Val)
    (st : EState) (h : w.get (q.encode Gen.escapeTable) = some st) (he : extra.isEmpty = true) (hi : input = none) :
    evalQ env (n+1) w q raw extra input true = (w, .st st) :=
  evalQ_hit env n w q raw extra input st h he hi

/-- Present after: a successful, non-volatile, caching-enabled result reached through an action or a file name
(`hasStep`: decidable) is in the cache afterwards, under the canonical text — as returned (it was a hit) or
with status `ready` (it was just stored). -/
theorem present_after (env : Env) (n : Nat) (w w' : World) (q : Query) (raw : Str) (st : EState)
    (hen : w.enabled = true)
    (h : evalQ env (n+1) w q raw .none none true = (w', .st st))
    (hc : st.caching = true) (he : st.isError = false) (hv : st.volatile = false) (hstep : q.hasStep = true) :
    w'.get (q.encode Gen.escapeTable) = some st ∨
      w'.get (q.encode Gen.escapeTable) = some { st with status := statusReady } :=
  Liquer.present_after env n w w' q raw st hen h hc he hv hstep

/-- Second run silent: immediately re-evaluating the query — any spelling, any fuel — returns the cached state
(equal to the first result up to `status`) and leaves the world unchanged; in particular no command is executed. -/
theorem second_run_silent (env : Env) (n : Nat) (w w' : World) (q : Query) (raw : Str) (st : EState)
    (hen : w.enabled = true)
    (h : evalQ env (n+1) w q raw .none none true = (w', .st st))
    (hc : st.caching = true) (he : st.isError = false) (hv : st.volatile = false) (hstep : q.hasStep = true) :
    ∃ s, s.core = st.core ∧ w'.get (q.encode Gen.escapeTable) = some s ∧
      ∀ m raw', evalQ env (m+1) w' q raw' .none none true = (w', .st s) ∧
        (evalQ env (m+1) w' q raw' .none none true).1.calls = w'.calls := by
  obtain ⟨s, h1, h2, h3⟩ := Liquer.second_run_silent env n w w' q raw st hen h hc he hv hstep
  exact ⟨s, h1, h2, fun m raw' => ⟨h3 m raw', by rw [h3 m raw']⟩⟩

/-- Reuse in general: in a sound world the executed calls are a subsequence of the reference calls (cached
prefixes, link arguments and sub-queries are skipped, nothing else is ever executed), and the outcome is the
reference outcome. -/
theorem reuse_subsequence {env : Env} {C : Query → Prop} {T : Str → Prop} (hC : Closed env C T)
    (hcanon : ∀ q, C q → CanonOK env q) (n : Nat) (w : World) (q : Query) (raw : Str) (hS : Sound env w) (hCq : C q)
    (hne : (evalQ env n w q raw .none none true).2 ≠ .unmodelled) :
    ∃ m c', (evalQ env n w q raw .none none true).1.calls = w.calls ++ c' ∧
      c'.Sublist (refQ env m q raw .none none).2 ∧
      Outcome.sim (evalQ env n w q raw .none none true).2 (refQ env m q raw .none none).1 :=
  (evalQ_refines hC hcanon n w q raw .none none true hS hCq (fun _ => rfl)).2 hne

/-- every level of the recursion files its result: the cache flags never change, so a cache that accepts
results keeps accepting them during the whole evaluation -/
theorem enabled_invariant (env : Env) (n : Nat) (w : World) (q : Query) (raw : Str) (extra : Extra)
    (input : Option Val) (uc : Bool) : (evalQ env n w q raw extra input uc).1.enabled = w.enabled :=
  ((frame env n).q w q raw extra input uc).1

/-- Extension of a cached prefix: after a cacheable evaluation of `p`, evaluating a one-step extension `q` of `p`
(last action link-free and `sub`-free, `q` itself not cached, typed as anything but the canonical text of `p`)
hits `p` and executes exactly the reference calls of the last action; the outcome is the reference outcome of
that action on the cached state. -/
theorem extension_runs_last_step (env : Env) (n m : Nat) (w w' : World) (p q : Query) (h : Option Header) (a : Action)
    (raw : Str) (st : EState) (hen : w.enabled = true)
    (h1 : evalQ env (n+1) w p (p.encode Gen.escapeTable) .none none true = (w', .st st))
    (hc : st.caching = true) (he : st.isError = false) (hv : st.volatile = false) (hstep : p.hasStep = true)
    (hq : q.predecessor = some (p, some (.transform h [a] none))) (hpe : p.segments.isEmpty = false)
    (ha : a.plain = true) (hraw : raw ≠ p.encode Gen.escapeTable)
    (hmiss : w'.get (q.encode Gen.escapeTable) = none) :
    (evalQ env (m+2) w' q raw .none none true).1.calls =
      w'.calls ++ (refAction env (m+1) st a raw (p.encode Gen.escapeTable) .none).2 ∧
    Outcome.sim (evalQ env (m+2) w' q raw .none none true).2
      (match (refAction env (m+1) st a raw (p.encode Gen.escapeTable) .none).1 with
       | .st st2 => .st { st2 with query := q.encode Gen.escapeTable }
       | other => other) :=
  Liquer.extension_runs_last_step env n m w w' p q h a raw st hen h1 hc he hv hstep hq hpe ha hraw hmiss

/-- The same with link arguments (or `sub`) in the new action, in a sound world: what is executed is a
subsequence of the reference calls of the last action (cached link and sub-queries are skipped too). -/
theorem extension_runs_last_step_links {env : Env} {C : Query → Prop} {T : Str → Prop} (hC : Closed env C T)
    (hcanon : ∀ q, C q → CanonOK env q) (n m : Nat) (w w' : World) (p q : Query) (h : Option Header) (a : Action)
    (raw : Str) (st : EState) (hen : w.enabled = true) (hS' : Sound env w') (hCq : C q)
    (h1 : evalQ env (n+1) w p (p.encode Gen.escapeTable) .none none true = (w', .st st))
    (hc : st.caching = true) (he : st.isError = false) (hv : st.volatile = false) (hstep : p.hasStep = true)
    (hq : q.predecessor = some (p, some (.transform h [a] none))) (hpe : p.segments.isEmpty = false)
    (hraw : raw ≠ p.encode Gen.escapeTable)
    (hmiss : w'.get (q.encode Gen.escapeTable) = none)
    (hne : (evalQ env (m+2) w' q raw .none none true).2 ≠ .unmodelled) :
    ∃ m' c', (evalQ env (m+2) w' q raw .none none true).1.calls = w'.calls ++ c' ∧
      c'.Sublist (refAction env m' st a raw (p.encode Gen.escapeTable) .none).2 :=
  Liquer.extension_runs_last_step_links hC hcanon n m w w' p q h a raw st hen hS' hCq h1 hc he hv hstep hq hpe hraw
    hmiss hne

/-- full statement for extensions by any number `k` of steps: the executed calls are a subsequence of the
reference calls to the right of the cached prefix.  (The canonical texts of the intermediate queries must differ
from that of `p`, otherwise progress metadata would hide the entry of `p`.)  Proved: `extension_runs_suffix`. -/
def extension_runs_suffix_statement (env : Env) : Prop :=
  (∀ q, CanonOK env q) →
  ∀ (n m k : Nat) (w w' : World) (p q : Query) (st : EState) (c0 c : List Str) (o : Outcome),
    w.enabled = true → Sound env w →
    evalQ env (n+1) w p (p.encode Gen.escapeTable) .none none true = (w', .st st) →
    st.caching = true → st.isError = false → st.volatile = false → p.hasStep = true →
    Chain p q k → (∀ q' j, Chain p q' j → q'.encode Gen.escapeTable ≠ p.encode Gen.escapeTable) →
    w'.get (q.encode Gen.escapeTable) = none →
    refQ env m p (p.encode Gen.escapeTable) .none none = (.st st, c0) →
    refQ env (m+k) q (q.encode Gen.escapeTable) .none none = (o, c) → o ≠ .unmodelled →
    ∃ c', (evalQ env (m+k+1) w' q (q.encode Gen.escapeTable) .none none true).1.calls = w'.calls ++ c' ∧
      c'.Sublist (c.drop c0.length)

/-- Extension by any number of steps, for a closed class of queries (`CanonOK` is needed for the class only; only the
members of the chain — `ChainOff`: the intermediate queries and `q` — have to be spelled differently from `p`;
whether `q` or an intermediate query is itself cached does not matter: then even less is executed).  In a sound
world, after a cacheable evaluation of `p`, the evaluation of the `k`-step extension `q` executes a subsequence of
the reference calls of `q` to the right of the reference calls of `p`.  Ingredients: fuel adequacy (`adq`: the
evaluator never needs more fuel than the reference interpretation, so R-eval holds at the *given* reference
fuel, `tight`) and the induction along the chain (`chain_suffix`). -/
theorem extension_runs_suffix_closed {env : Env} {C : Query → Prop} {T : Str → Prop} (hC : Closed env C T)
    (hcanon : ∀ q, C q → CanonOK env q) (n m k : Nat) (w w' : World) (p q : Query) (st : EState)
    (c0 c : List Str) (o : Outcome) (hen : w.enabled = true) (hS : Sound env w) (hCq : C q)
    (h1 : evalQ env (n+1) w p (p.encode Gen.escapeTable) .none none true = (w', .st st))
    (hc : st.caching = true) (he : st.isError = false) (hv : st.volatile = false) (hstep : p.hasStep = true)
    (hch : ChainOff p q k)
    (hp : refQ env m p (p.encode Gen.escapeTable) .none none = (.st st, c0))
    (hq : refQ env (m+k) q (q.encode Gen.escapeTable) .none none = (o, c)) (ho : o ≠ .unmodelled) :
    ∃ c', (evalQ env (m+k+1) w' q (q.encode Gen.escapeTable) .none none true).1.calls = w'.calls ++ c' ∧
      c'.Sublist (c.drop c0.length) :=
  Liquer.extension_runs_suffix hC hcanon n m k w w' p q st c0 c o hen hS hCq h1 hc he hv hstep hch hp hq ho

/-- the full statement (all queries canonical, every extension of `p` spelled differently from `p`) -/
theorem extension_runs_suffix (env : Env) : extension_runs_suffix_statement env := by
  intro hcanon n m k w w' p q st c0 c o hen hS h1 hc he hv hstep hch hne _ hp hq ho
  exact Liquer.extension_runs_suffix (Closed.univ env) (fun q _ => hcanon q) n m k w w' p q st c0 c o hen hS trivial
    h1 hc he hv hstep (ChainOff.of_chain hch hne) hp hq ho

-- non-vacuity: `one/add-2` from the empty cache is cacheable and has a step; after it the key is present;
-- the second run (typed differently) executes nothing; the extension of the cached `one` runs `add` only.
open Ex in
example :
    let r := evalQ env0 9 {} qOneAdd (s "one/add-2") .none none true
    (({} : World).enabled = true) ∧ qOneAdd.hasStep = true ∧
    r.2.obs.map (fun o => (o.value, o.volatile)) = some (some (.int 3), false) ∧
    r.1.calls = [s "root.one(N;)", s "root.add(I1;I2)"] ∧
    r.1.get (s "one/add-2") ≠ none ∧ r.1.get (s "one") ≠ none ∧
    (evalQ env0 3 r.1 qOneAdd (s "one/add-2/") .none none true).1.calls = r.1.calls := by
  decide +kernel
-- the hypotheses of `extension_runs_last_step`: `one` is cached from the empty world, `one/add-2` extends it
open Ex in
example :
    let r := evalQ env0 9 {} qOne (s "one") .none none true
    qOne.hasStep = true ∧ r.2.obs.map (fun o => (o.value, o.volatile)) = some (some (.int 1), false) ∧
    aAdd2.plain = true ∧ s "one/add-2" ≠ qOne.encode Gen.escapeTable ∧ r.1.get (qOneAdd.encode Gen.escapeTable) = none ∧
    (evalQ env0 9 { r.1 with calls := [] } qOneAdd (s "one/add-2") .none none true).1.calls = [s "root.add(I1;I2)"] := by
  decide +kernel
open Ex in
example : qOneAdd.predecessor = some (qOne, some (.transform none [aAdd2] none)) := by
  simp [qOneAdd, qOne, Query.predecessor]
open Ex in
example : Closed env0 C0 T0 ∧ (∀ q, C0 q → CanonOK env0 q) ∧ Sound env0 {} ∧ C0 qOneAdd :=
  ⟨closed0, canon0, Sound.empty _, Or.inr (Or.inl rfl)⟩

-- the hypotheses of `extension_runs_suffix_closed` for a two-step extension: `one` is cached from the empty world
-- (sound, enabled), `one/add-2/add-1` extends it by two steps (`chainOff2`, class `C1` closed and canonical);
-- the reference runs at fuel 8 and 8+2; the evaluation at fuel 8+2+1 executes the two `add`s and not `one`
open Ex in
example : Closed env0 C1 T0 ∧ (∀ q, C1 q → CanonOK env0 q) ∧ Sound env0 {} ∧ C1 qOneAddAdd ∧
    ChainOff qOne qOneAddAdd 2 :=
  ⟨closed1, canon1, Sound.empty _, Or.inl rfl, chainOff2⟩
open Ex in
example :
    let r := evalQ env0 9 {} qOne (qOne.encode Gen.escapeTable) .none none true
    let rp := refQ env0 8 qOne (qOne.encode Gen.escapeTable) .none none
    let rq := refQ env0 (8+2) qOneAddAdd (qOneAddAdd.encode Gen.escapeTable) .none none
    (({} : World).enabled = true) ∧ qOne.hasStep = true ∧
    (match r.2, rp.1 with
     | .st a, .st b => decide (a = b) && a.caching && !a.isError && !a.volatile
     | _, _ => false) = true ∧
    rp.2 = [s "root.one(N;)"] ∧
    rq.1.obs.map (·.value) = some (some (.int 4)) ∧
    rq.2 = [s "root.one(N;)", s "root.add(I1;I2)", s "root.add(I3;I1)"] ∧
    (evalQ env0 (8+2+1) r.1 qOneAddAdd (qOneAddAdd.encode Gen.escapeTable) .none none true).1.calls =
      r.1.calls ++ [s "root.add(I1;I2)", s "root.add(I3;I1)"] := by
  decide +kernel

/-! ### the canonical-text hypothesis discharged: closed classes of well-formed queries (C02's round trip) -/

/-- every well-formed query of the class means what its canonical text means (Lemmas/EvalCanon.lean) -/
theorem canon_of_wf {env : Env} (hd : DecOK env.dec) {C : Query → Prop}
    (hwf : ∀ q, C q → wfTop Gen.escapeTable q = true) : ∀ q, C q → CanonOK env q :=
  fun q hq => CanonOK.of_same (Canon.canonSame_of_wf env hd q (hwf q hq))

/-- `reuse_subsequence` for a closed class of well-formed queries -/
theorem reuse_subsequence_wf {env : Env} (hd : DecOK env.dec) {C : Query → Prop} {T : Str → Prop}
    (hC : Closed env C T) (hwf : ∀ q, C q → wfTop Gen.escapeTable q = true) (n : Nat) (w : World) (q : Query)
    (raw : Str) (hS : Sound env w) (hCq : C q)
    (hne : (evalQ env n w q raw .none none true).2 ≠ .unmodelled) :
    ∃ m c', (evalQ env n w q raw .none none true).1.calls = w.calls ++ c' ∧
      c'.Sublist (refQ env m q raw .none none).2 ∧
      Outcome.sim (evalQ env n w q raw .none none true).2 (refQ env m q raw .none none).1 :=
  reuse_subsequence hC (canon_of_wf hd hwf) n w q raw hS hCq hne

/-- `extension_runs_last_step_links` for a closed class of well-formed queries -/
theorem extension_runs_last_step_links_wf {env : Env} (hd : DecOK env.dec) {C : Query → Prop} {T : Str → Prop}
    (hC : Closed env C T) (hwf : ∀ q, C q → wfTop Gen.escapeTable q = true) (n m : Nat) (w w' : World) (p q : Query)
    (h : Option Header) (a : Action) (raw : Str) (st : EState) (hen : w.enabled = true) (hS' : Sound env w')
    (hCq : C q)
    (h1 : evalQ env (n+1) w p (p.encode Gen.escapeTable) .none none true = (w', .st st))
    (hc : st.caching = true) (he : st.isError = false) (hv : st.volatile = false) (hstep : p.hasStep = true)
    (hq : q.predecessor = some (p, some (.transform h [a] none))) (hpe : p.segments.isEmpty = false)
    (hraw : raw ≠ p.encode Gen.escapeTable)
    (hmiss : w'.get (q.encode Gen.escapeTable) = none)
    (hne : (evalQ env (m+2) w' q raw .none none true).2 ≠ .unmodelled) :
    ∃ m' c', (evalQ env (m+2) w' q raw .none none true).1.calls = w'.calls ++ c' ∧
      c'.Sublist (refAction env m' st a raw (p.encode Gen.escapeTable) .none).2 :=
  extension_runs_last_step_links hC (canon_of_wf hd hwf) n m w w' p q h a raw st hen hS' hCq h1 hc he hv hstep hq hpe
    hraw hmiss hne

/-- `extension_runs_suffix_closed` for a closed class of well-formed queries -/
theorem extension_runs_suffix_closed_wf {env : Env} (hd : DecOK env.dec) {C : Query → Prop} {T : Str → Prop}
    (hC : Closed env C T) (hwf : ∀ q, C q → wfTop Gen.escapeTable q = true) (n m k : Nat) (w w' : World)
    (p q : Query) (st : EState) (c0 c : List Str) (o : Outcome) (hen : w.enabled = true) (hS : Sound env w)
    (hCq : C q)
    (h1 : evalQ env (n+1) w p (p.encode Gen.escapeTable) .none none true = (w', .st st))
    (hc : st.caching = true) (he : st.isError = false) (hv : st.volatile = false) (hstep : p.hasStep = true)
    (hch : ChainOff p q k)
    (hp : refQ env m p (p.encode Gen.escapeTable) .none none = (.st st, c0))
    (hq : refQ env (m+k) q (q.encode Gen.escapeTable) .none none = (o, c)) (ho : o ≠ .unmodelled) :
    ∃ c', (evalQ env (m+k+1) w' q (q.encode Gen.escapeTable) .none none true).1.calls = w'.calls ++ c' ∧
      c'.Sublist (c.drop c0.length) :=
  extension_runs_suffix_closed hC (canon_of_wf hd hwf) n m k w w' p q st c0 c o hen hS hCq h1 hc he hv hstep hch hp hq
    ho

-- non-vacuity of the `_wf` hypotheses: the decoder of the example environment is a decoder; the example families
-- `C0` (contains a link argument) and `C1` (the two-step chain over `one`) are closed and consist of well-formed queries
open Ex in
example : DecOK env0.dec ∧ Closed env0 C0 T0 ∧ (∀ q, C0 q → wfTop Gen.escapeTable q = true) ∧ C0 qOneAdd :=
  ⟨decUtf8_ok, closed0, by intro q hq; rcases hq with rfl | rfl | rfl | rfl <;> decide +kernel, Or.inr (Or.inl rfl)⟩
open Ex in
example : DecOK env0.dec ∧ Closed env0 C1 T0 ∧ (∀ q, C1 q → wfTop Gen.escapeTable q = true) ∧ Sound env0 {} ∧
    C1 qOneAddAdd ∧ ChainOff qOne qOneAddAdd 2 :=
  ⟨decUtf8_ok, closed1, by intro q hq; rcases hq with rfl | rfl | rfl <;> decide +kernel, Sound.empty _, Or.inl rfl,
    chainOff2⟩

end Liquer.C09

-- OBLIGATIONS: Liquer.C09.inst_registry Liquer.C09.hit Liquer.C09.present_after Liquer.C09.second_run_silent Liquer.C09.reuse_subsequence Liquer.C09.enabled_invariant Liquer.C09.extension_runs_last_step Liquer.C09.extension_runs_last_step_links Liquer.C09.extension_runs_suffix_closed Liquer.C09.extension_runs_suffix Liquer.C09.canon_of_wf Liquer.C09.reuse_subsequence_wf Liquer.C09.extension_runs_last_step_links_wf Liquer.C09.extension_runs_suffix_closed_wf
