/-
C10 — state variables and mutable values are isolated between evaluations. Theorems over LiquerModel/Iso.lean.

"State variables set inside a query are visible only to the steps to their right in that query, and every evaluation starts
from the configured defaults, so one evaluation can never observe variables set by another.  A command that mutates its
input in place, or a caller that mutates a returned value or its metadata, cannot change what the cache subsequently serves,
what previously returned states contain, or the configured variable defaults."

Model: values are objects in a heap (`Heap`), a `State` is a pair of references (data, metadata dictionary holding the
variable dictionary); `evalChain` mirrors where the implementation copies (`vars_clone`, `State.clone` before a command
unless volatile, clone on `cache.store` and on `cache.get`) and where it does not (commands get live objects, link arguments
are live data, the caller gets the live state).  Histories (`Op`, `step`, `run`) interleave evaluations with mutations by the
caller of the states it was given.

Vocabulary (Lemmas/Iso1 … Iso7):
  `cellsState h st`, `cellsVars vs` — the cells an object owns;      `absState h st`, `absVars h vs` — what it means now;
  `Inv w`      — all references of cache entries and defaults allocated; cache entries own pairwise disjoint cells, disjoint
                 from the defaults;
  `Sep s`      — `Inv` and: returned states, cache entries, defaults own pairwise disjoint cells;
  `Good w w' L` — the evaluation that went from `w` to `w'` wrote no cell of `w`, its new cache entries and the cells `L` it
                 hands out are new and mutually disjoint;
  `Op.target`  — the index of the returned state a caller operation addresses.
-/
import LiquerProofs.Lemmas.Iso7

namespace Liquer.C10

open Liquer.Iso

/-! ### 1. frame of one evaluation (any fuel, any chain, any well-formed world) -/

/-- An evaluation never writes a cell that existed when it started: every in-place mutation by a command hits a clone or an
object this evaluation created.  The state it returns and the cache entries it adds are made of new cells, and the returned
state shares no cell with any cache entry; the defaults are the same list of references; well-formedness is preserved. -/
theorem eval_frame (n : Nat) (w : World) (absolute : Bool) (acts : List Act) (i : Inv w) :
    Inv (evalChain n w absolute acts).1 ∧
    (∀ a, a < w.heap.next → (evalChain n w absolute acts).1.heap.cells a = w.heap.cells a) ∧
    w.heap.next ≤ (evalChain n w absolute acts).1.heap.next ∧
    (evalChain n w absolute acts).1.defaults = w.defaults ∧
    (∀ e ∈ (evalChain n w absolute acts).1.cache,
      e ∈ w.cache ∨ ∀ a ∈ cellsState (evalChain n w absolute acts).1.heap e.2, w.heap.next ≤ a) ∧
    (∀ st, (evalChain n w absolute acts).2 = .st st →
      (∀ a ∈ cellsState (evalChain n w absolute acts).1.heap st,
        w.heap.next ≤ a ∧ a < (evalChain n w absolute acts).1.heap.next) ∧
      ∀ e ∈ (evalChain n w absolute acts).1.cache,
        Disj (cellsState (evalChain n w absolute acts).1.heap e.2) (cellsState (evalChain n w absolute acts).1.heap st)) := by
  have g := (Iso.eval_frame n).1 w absolute acts i (evalChain n w absolute acts).1 (evalChain n w absolute acts).2 rfl
  refine ⟨g.inv, g.post.frame, g.post.mono, g.post.dflt, fun e he => ?_, fun st hst => ?_⟩
  · rcases g.post.cache e he with ⟨h, -⟩ | h
    · exact Or.inl h
    · exact Or.inr h
  · have o := g.own
    rw [hst] at o
    exact ⟨o.rng, o.cache⟩

example : Inv { heap := { next := 3 }, defaults := [("x".toList, .ref 1)] } :=
  ⟨fun _ _ => rfl, fun _ h => (nomatch h), fun a h => (by simp [cellsVars, cellsHV] at h; subst h; decide), List.Pairwise.nil,
   fun _ h => (nomatch h)⟩

/-- the same for the argument list of an action: the argument values are new objects no cache entry owns -/
theorem args_frame (n : Nat) (w : World) (args : List Arg) (i : Inv w) :
    Inv (evalArgs n w args).1 ∧
    (∀ a, a < w.heap.next → (evalArgs n w args).1.heap.cells a = w.heap.cells a) ∧
    (∀ vs, (evalArgs n w args).2 = some vs →
      (∀ a ∈ vs.flatMap cellsHV, w.heap.next ≤ a ∧ a < (evalArgs n w args).1.heap.next) ∧
      ∀ e ∈ (evalArgs n w args).1.cache, Disj (cellsState (evalArgs n w args).1.heap e.2) (vs.flatMap cellsHV)) := by
  have g := (Iso.eval_frame n).2 w args i (evalArgs n w args).1 (evalArgs n w args).2 rfl
  refine ⟨g.inv, g.post.frame, fun vs hvs => ?_⟩
  have o := g.own
  rw [hvs] at o
  exact ⟨o.rng, o.cache⟩

/-! ### 2. the separation invariant of histories -/

/-- the initial history is separated -/
theorem sep_init {h0 : Heap} {d : List (Str × HV)} (b : Bool) (wf : h0.WF) (hd : ∀ a ∈ cellsVars d, a < h0.next) :
    Sep { w := { heap := h0, defaults := d, cacheOn := b } } := Sep.init b wf hd

/-- every operation — an evaluation of any chain, any mutation by the caller — preserves separation -/
theorem sep_step {s : Hist} (sp : Sep s) (op : Op) : Sep (step s op) := sp.step op

/-- hence every history from a separated start is separated -/
theorem sep_run {s : Hist} (sp : Sep s) (ops : List Op) : Sep (run s ops) := sp.run ops

/-! ### 3. isolation -/

/-- a caller mutating the returned state `i` (its data, a variable's value, the variable dictionary, the metadata) changes
no other returned state, no cache entry and not the defaults -/
theorem caller_isolation {s : Hist} (sp : Sep s) (op : Op) (i : Nat) (ht : op.target = some i) :
    (step s op).returned = s.returned ∧ (step s op).w.cache = s.w.cache ∧ (step s op).w.defaults = s.w.defaults ∧
    (∀ j st, j ≠ i → s.nth j = some st → absState (step s op).w.heap st = absState s.w.heap st) ∧
    (∀ e ∈ s.w.cache, absState (step s op).w.heap e.2 = absState s.w.heap e.2) ∧
    absVars (step s op).w.heap s.w.defaults = absVars s.w.heap s.w.defaults :=
  ⟨(caller_keeps op i ht).1, (caller_keeps op i ht).2.1, (caller_keeps op i ht).2.2.1, Iso.caller_isolation sp op i ht⟩

/-- an evaluation — whatever its commands mutate in place — changes no previously returned state, no entry the cache had and
not the defaults; it writes no old cell at all -/
theorem eval_isolation {s : Hist} (sp : Sep s) (q : List Act) :
    (∀ a, a < s.w.heap.next → (step s (.eval q)).w.heap.cells a = s.w.heap.cells a) ∧
    (∀ j st, s.nth j = some st →
      (step s (.eval q)).nth j = some st ∧ absState (step s (.eval q)).w.heap st = absState s.w.heap st) ∧
    (∀ e ∈ s.w.cache, absState (step s (.eval q)).w.heap e.2 = absState s.w.heap e.2) ∧
    (∀ e ∈ (step s (.eval q)).w.cache,
      e ∈ s.w.cache ∨ ∀ a ∈ cellsState (step s (.eval q)).w.heap e.2, s.w.heap.next ≤ a) ∧
    (step s (.eval q)).w.defaults = s.w.defaults ∧
    absVars (step s (.eval q)).w.heap s.w.defaults = absVars s.w.heap s.w.defaults := by
  obtain ⟨h1, h2, h3, h4⟩ := Iso.eval_isolation sp q
  exact ⟨eval_frame_cells sp q, fun j st hn => ⟨eval_nth q hn, h1 j st hn⟩, h2, h3, (eval_keeps sp q).1, h4⟩

/-- the configured variable defaults never change -/
theorem defaults_never_change {s : Hist} (sp : Sep s) (ops : List Op) :
    (run s ops).w.defaults = s.w.defaults ∧
      absVars (run s ops).w.heap (run s ops).w.defaults = absVars s.w.heap s.w.defaults := run_dflt sp ops

/-- what a returned state contains changes only by the caller's own operations on that state -/
theorem returned_never_changes {s : Hist} (sp : Sep s) (ops : List Op) {j : Nat} {st : HState} (hn : s.nth j = some st)
    (ht : ∀ op ∈ ops, op.target ≠ some j) :
    (run s ops).nth j = some st ∧ absState (run s ops).w.heap st = absState s.w.heap st := run_returned sp ops hn ht

end Liquer.C10

-- OBLIGATIONS: Liquer.C10.eval_frame Liquer.C10.args_frame Liquer.C10.sep_init Liquer.C10.sep_step Liquer.C10.sep_run Liquer.C10.caller_isolation Liquer.C10.eval_isolation Liquer.C10.defaults_never_change Liquer.C10.returned_never_changes
