/-
C10 — state variables and mutable values are isolated between evaluations. Theorems over LiquerModel/Iso.lean.

"State variables set inside a query are visible only to the steps to their right in that query, and every evaluation starts
from the configured defaults, so one evaluation can never observe variables set by another.  A command that mutates its
input in place, or a caller that mutates a returned value or its metadata, cannot change what the cache subsequently serves,
what previously returned states contain, or the configured variable defaults."

Model: values are objects in a heap (`Heap`), a `State` is a pair of references (data, metadata dictionary holding the
variable dictionary); `evalChain` mirrors where the implementation copies (`vars_clone`, `State.clone` before a command
unless volatile, clone on `cache.store` and on `cache.get`) and where it does not (commands get live objects, link arguments
are live data, the caller gets the live state).  Histories (`Op`, `step`, `run`) interleave evaluations with mutations by the
caller of the states it was given.

Vocabulary (Lemmas/Iso1 … Iso7):
  `cellsState h st`, `cellsVars vs` — the cells an object owns;      `absState h st`, `absVars h vs` — what it means now;
  `Inv w`      — all references of cache entries and defaults allocated; cache entries own pairwise disjoint cells, disjoint
                 from the defaults;
  `Sep s`      — `Inv` and: returned states, cache entries, defaults own pairwise disjoint cells;
  `Good w w' L` — the evaluation that went from `w` to `w'` wrote no cell of `w`, its new cache entries and the cells `L` it
                 hands out are new and mutually disjoint;
  `Op.target`  — the index of the returned state a caller operation addresses;
  `refChain d n acts` — the value-level meaning of a chain under the defaults `d` (no heap, no cache);
  `Agrees h st r`, `EntryOK d P h e`, `SoundW d P w`, `HSound d P s` — a heap state / a cache entry / the cache / a history
                 agree with that meaning (Lemmas/Iso9 … Iso12);
  `Closed P`, `KeyOK d P`, `Safe d P` — the class of chains an evaluation stays in, "cache keys determine the meaning"
                 (what C02/C03 establish for the canonical text), "`getvar` and `cvapp` are not applied to a volatile state".

Commands see two sets of variables: those of the state they are handed (`state.vars`: `let`, `getvar`, `vapp`) and those of
the context (`context.vars`: `cvapp`) — the latter are the very objects of the PREDECESSOR state, taken before it was cloned
(`cmdH … ctx …`, `evalChain` passes the predecessor's variable list).  The predecessor is the initial state (deep copies of
the defaults) or the result of the recursive evaluation, so its cells were allocated by this evaluation: the footprint of a
command (`cmdFoot`) is the state in hand, the argument values and the context's variables, all owned by the running
evaluation, and the frame (section 1) holds unchanged.  The caller operations include `mutInner` (`R[i].data[0][:] = l`, an
in-place write to a list nested in returned data; one cell per value, so it is a write to the data cell of state `i`).

Finding recorded by the last examples of section 6: a volatile state is not cloned before a command.  `getvar` hands out the
variable's own object as data, so in `vol/getvar-lst/app-x` the in-place `append` also changes the variable `lst` of the
returned state; `cvapp` appends to the context's variable, which for a volatile predecessor IS the variable of the state the
command returns, so in `vol/cvapp-lst-x` the variable `lst` of the returned state changes too (the value-level meaning keeps
`lst` at its default in both cases: after a clone the context's object is not the state's).  Nothing leaks to another
evaluation (the theorems of sections 1-3 hold for all chains), but the "result = meaning" theorems need the hypothesis `Safe`.
-/
import LiquerProofs.Lemmas.Iso13
import LiquerProofs.Lemmas.IsoExample

namespace Liquer.C10

open Liquer.Iso

/-! ### 1. frame of one evaluation (any fuel, any chain, any well-formed world) -/

/-- An evaluation never writes a cell that existed when it started: every in-place mutation by a command hits a clone or an
object this evaluation created.  The state it returns and the cache entries it adds are made of new cells, and the returned
state shares no cell with any cache entry; the defaults are the same list of references; well-formedness is preserved. -/
theorem eval_frame (n : Nat) (w : World) (absolute : Bool) (acts : List Act) (i : Inv w) :
    Inv (evalChain n w absolute acts).1 ∧
    (∀ a, a < w.heap.next → (evalChain n w absolute acts).1.heap.cells a = w.heap.cells a) ∧
    w.heap.next ≤ (evalChain n w absolute acts).1.heap.next ∧
    (evalChain n w absolute acts).1.defaults = w.defaults ∧
    (∀ e ∈ (evalChain n w absolute acts).1.cache,
      e ∈ w.cache ∨ ∀ a ∈ cellsState (evalChain n w absolute acts).1.heap e.2, w.heap.next ≤ a) ∧
    (∀ st, (evalChain n w absolute acts).2 = .st st →
      (∀ a ∈ cellsState (evalChain n w absolute acts).1.heap st,
        w.heap.next ≤ a ∧ a < (evalChain n w absolute acts).1.heap.next) ∧
      ∀ e ∈ (evalChain n w absolute acts).1.cache,
        Disj (cellsState (evalChain n w absolute acts).1.heap e.2) (cellsState (evalChain n w absolute acts).1.heap st)) := by
  have g := (Iso.eval_frame n).1 w absolute acts i (evalChain n w absolute acts).1 (evalChain n w absolute acts).2 rfl
  refine ⟨g.inv, g.post.frame, g.post.mono, g.post.dflt, fun e he => ?_, fun st hst => ?_⟩
  · rcases g.post.cache e he with ⟨h, -⟩ | h
    · exact Or.inl h
    · exact Or.inr h
  · have o := g.own
    rw [hst] at o
    exact ⟨o.rng, o.cache⟩

example : Inv { heap := { next := 3 }, defaults := [("x".toList, .ref 1)] } :=
  ⟨fun _ _ => rfl, fun _ h => (nomatch h), fun a h => (by simp [cellsVars, cellsHV] at h; subst h; decide), List.Pairwise.nil,
   fun _ h => (nomatch h)⟩

/-- the same for the argument list of an action: the argument values are new objects no cache entry owns -/
theorem args_frame (n : Nat) (w : World) (args : List Arg) (i : Inv w) :
    Inv (evalArgs n w args).1 ∧
    (∀ a, a < w.heap.next → (evalArgs n w args).1.heap.cells a = w.heap.cells a) ∧
    (∀ vs, (evalArgs n w args).2 = some vs →
      (∀ a ∈ vs.flatMap cellsHV, w.heap.next ≤ a ∧ a < (evalArgs n w args).1.heap.next) ∧
      ∀ e ∈ (evalArgs n w args).1.cache, Disj (cellsState (evalArgs n w args).1.heap e.2) (vs.flatMap cellsHV)) := by
  have g := (Iso.eval_frame n).2 w args i (evalArgs n w args).1 (evalArgs n w args).2 rfl
  refine ⟨g.inv, g.post.frame, fun vs hvs => ?_⟩
  have o := g.own
  rw [hvs] at o
  exact ⟨o.rng, o.cache⟩

/-! ### 2. the separation invariant of histories -/

/-- the initial history is separated -/
theorem sep_init {h0 : Heap} {d : List (Str × HV)} (b : Bool) (wf : h0.WF) (hd : ∀ a ∈ cellsVars d, a < h0.next) :
    Sep { w := { heap := h0, defaults := d, cacheOn := b } } := Sep.init b wf hd

/-- every operation — an evaluation of any chain, any mutation by the caller — preserves separation -/
theorem sep_step {s : Hist} (sp : Sep s) (op : Op) : Sep (step s op) := sp.step op

/-- hence every history from a separated start is separated -/
theorem sep_run {s : Hist} (sp : Sep s) (ops : List Op) : Sep (run s ops) := sp.run ops

/-! ### 3. isolation -/

/-- a caller mutating the returned state `i` (its data, a list nested in its data, a variable's value, the variable
dictionary, the metadata) changes no other returned state, no cache entry and not the defaults -/
theorem caller_isolation {s : Hist} (sp : Sep s) (op : Op) (i : Nat) (ht : op.target = some i) :
    (step s op).returned = s.returned ∧ (step s op).w.cache = s.w.cache ∧ (step s op).w.defaults = s.w.defaults ∧
    (∀ j st, j ≠ i → s.nth j = some st → absState (step s op).w.heap st = absState s.w.heap st) ∧
    (∀ e ∈ s.w.cache, absState (step s op).w.heap e.2 = absState s.w.heap e.2) ∧
    absVars (step s op).w.heap s.w.defaults = absVars s.w.heap s.w.defaults :=
  ⟨(caller_keeps op i ht).1, (caller_keeps op i ht).2.1, (caller_keeps op i ht).2.2.1, Iso.caller_isolation sp op i ht⟩

/-- an evaluation — whatever its commands mutate in place — changes no previously returned state, no entry the cache had and
not the defaults; it writes no old cell at all -/
theorem eval_isolation {s : Hist} (sp : Sep s) (q : List Act) :
    (∀ a, a < s.w.heap.next → (step s (.eval q)).w.heap.cells a = s.w.heap.cells a) ∧
    (∀ j st, s.nth j = some st →
      (step s (.eval q)).nth j = some st ∧ absState (step s (.eval q)).w.heap st = absState s.w.heap st) ∧
    (∀ e ∈ s.w.cache, absState (step s (.eval q)).w.heap e.2 = absState s.w.heap e.2) ∧
    (∀ e ∈ (step s (.eval q)).w.cache,
      e ∈ s.w.cache ∨ ∀ a ∈ cellsState (step s (.eval q)).w.heap e.2, s.w.heap.next ≤ a) ∧
    (step s (.eval q)).w.defaults = s.w.defaults ∧
    absVars (step s (.eval q)).w.heap s.w.defaults = absVars s.w.heap s.w.defaults := by
  obtain ⟨h1, h2, h3, h4⟩ := Iso.eval_isolation sp q
  exact ⟨eval_frame_cells sp q, fun j st hn => ⟨eval_nth q hn, h1 j st hn⟩, h2, h3, (eval_keeps sp q).1, h4⟩

/-- the configured variable defaults never change -/
theorem defaults_never_change {s : Hist} (sp : Sep s) (ops : List Op) :
    (run s ops).w.defaults = s.w.defaults ∧
      absVars (run s ops).w.heap (run s ops).w.defaults = absVars s.w.heap s.w.defaults := run_dflt sp ops

/-- what a returned state contains changes only by the caller's own operations on that state -/
theorem returned_never_changes {s : Hist} (sp : Sep s) (ops : List Op) {j : Nat} {st : HState} (hn : s.nth j = some st)
    (ht : ∀ op ∈ ops, op.target ≠ some j) :
    (run s ops).nth j = some st ∧ absState (run s ops).w.heap st = absState s.w.heap st := run_returned sp ops hn ht

/-! ### 4. every result is the value-level meaning of its chain, whatever happened before -/

/-- `Safe` follows from a syntactic condition: no `vol` to the left of a `getvar` or a `cvapp` in the chains of the class -/
theorem safe_of_no_vol_before_getvar {d : List (Str × Val)} {P : List Act → Prop}
    (hsyn : ∀ acts act, P acts → acts.getLast? = some act →
      (String.ofList act.name = "getvar" ∨ String.ofList act.name = "cvapp") →
      ∀ b ∈ acts.dropLast, String.ofList b.name ≠ "vol") : Safe d P := safe_of_syntactic hsyn

/-- `KeyOK` follows from injectivity of the key text on the class -/
theorem keyOK_of_injective_keys {d : List (Str × Val)} {P : List Act → Prop}
    (hinj : ∀ a b acts acts', P acts → P acts' → keyOf a acts = keyOf b acts' → acts = acts') : KeyOK d P :=
  keyOK_of_injective hinj

example : Closed Ex.P0 ∧ KeyOK Ex.d0 Ex.P0 ∧ Safe Ex.d0 Ex.P0 := ⟨Ex.closed0, Ex.keyOK0, Ex.safe0⟩

/-- one evaluation in any well-formed world with a sound cache: the cache stays sound and the returned state agrees with
the meaning of the chain — data, variables, volatility, caching — for every fuel -/
theorem eval_is_meaning {d : List (Str × Val)} {P : List Act → Prop} (hC : Closed P) (hK : KeyOK d P) (hS : Safe d P)
    (n : Nat) (w : World) (absolute : Bool) (acts : List Act) (i : Inv w) (sw : SoundW d P w) (hP : P acts) :
    SoundW d P (evalChain n w absolute acts).1 ∧
    ∀ st, (evalChain n w absolute acts).2 = .st st → ∃ m r, refChain d m acts = some r ∧
      (absState (evalChain n w absolute acts).1.heap st).data = r.data ∧
      (absState (evalChain n w absolute acts).1.heap st).vars = r.vars ∧
      (absState (evalChain n w absolute acts).1.heap st).volatile = r.volatile ∧
      (absState (evalChain n w absolute acts).1.heap st).caching = r.caching := by
  have h := (eval_sound hC hK hS n).1 w absolute acts i sw hP _ _ rfl
  refine ⟨h.1, fun st hst => ?_⟩
  have h2 := h.2
  rw [hst] at h2
  obtain ⟨m, r, h3, h4, -⟩ := h2
  exact ⟨m, r, h3, h4.abs⟩

/-- separation and soundness of the cache survive every history: evaluations of chains of the class (with commands that
mutate in place) and arbitrary mutations by the caller -/
theorem history_sound {d : List (Str × Val)} {P : List Act → Prop} (hC : Closed P) (hK : KeyOK d P) (hS : Safe d P)
    {s : Hist} (hs : HSound d P s) (ops : List Op) (hP : ∀ q, Op.eval q ∈ ops → P q) : HSound d P (run s ops) :=
  hs.run hC hK hS ops hP

/-- what the cache serves: at any point of any history every entry is ready, non-volatile, cacheable and agrees with the
meaning of every chain of the class that has its key -/
theorem cache_entry_is_meaning {d : List (Str × Val)} {P : List Act → Prop} (hK : KeyOK d P) {s : Hist}
    (hs : HSound d P s) {e : Str × HState} (he : e ∈ s.w.cache) {absolute : Bool} {acts : List Act} (hP : P acts)
    (hk : keyOf absolute acts = e.1) :
    ∃ m r, refChain d m acts = some r ∧ (absState s.w.heap e.2).data = r.data ∧ (absState s.w.heap e.2).vars = r.vars ∧
      (absState s.w.heap e.2).volatile = false ∧ (absState s.w.heap e.2).caching = true ∧
      (absState s.w.heap e.2).status = statusReady := by
  obtain ⟨abs', acts', m, r, h1, h2, h3, h4, h5, h6, h7⟩ := hs.sound.entries e he
  refine ⟨m, r, ?_, h4.abs.1, h4.abs.2.1, h4.abs.2.2.1.trans h5, h4.abs.2.2.2.trans h6, h7⟩
  rw [hK absolute abs' acts acts' hP h1 (hk.trans h2.symm) m]
  exact h3

/-- THE isolation statement: start from an empty cache with configured defaults `dd` (allocated, distinct names).  After ANY
history — evaluations of chains of the class, in-place mutating commands, the caller mutating every state it was given —
the state returned by a final evaluation of `q` has the data, variables, volatility and caching of the value-level meaning of
`q` under the defaults as they were configured at the start.  Nothing an earlier evaluation or the caller did is visible. -/
theorem result_is_meaning {P : List Act → Prop} (hC : Closed P) {h0 : Heap} {dd : List (Str × HV)} (b : Bool) (wf : h0.WF)
    (hd : ∀ a ∈ cellsVars dd, a < h0.next) (hkeys : (dd.map Prod.fst).Nodup) (hK : KeyOK (absVars h0 dd) P)
    (hS : Safe (absVars h0 dd) P) (ops : List Op) (q : List Act) (hP : ∀ q', Op.eval q' ∈ ops ++ [.eval q] → P q')
    (st : HState)
    (hst : (run { w := { heap := h0, defaults := dd, cacheOn := b } } (ops ++ [.eval q])).returned.getLast? = some (some st)) :
    ∃ m r, refChain (absVars h0 dd) m q = some r ∧
      (absState (run { w := { heap := h0, defaults := dd, cacheOn := b } } (ops ++ [.eval q])).w.heap st).data = r.data ∧
      (absState (run { w := { heap := h0, defaults := dd, cacheOn := b } } (ops ++ [.eval q])).w.heap st).vars = r.vars ∧
      (absState (run { w := { heap := h0, defaults := dd, cacheOn := b } } (ops ++ [.eval q])).w.heap st).volatile = r.volatile ∧
      (absState (run { w := { heap := h0, defaults := dd, cacheOn := b } } (ops ++ [.eval q])).w.heap st).caching = r.caching := by
  have hs0 : HSound (absVars h0 dd) P { w := { heap := h0, defaults := dd, cacheOn := b } } := HSound.init b wf hd hkeys
  have hs := hs0.run hC hK hS ops (fun q' hq' => hP q' (List.mem_append_left _ hq'))
  rw [run_append] at hst ⊢
  have he := (hs.eval hC hK hS (hP q (by simp))).2
  rw [last_returned] at hst
  generalize (evalChain (evalFuel q) { (run _ ops).w with calls := [] } false q).2 = r at hst he
  cases r with
  | fail => simp [resOpt] at hst
  | st st' =>
    obtain rfl : st' = st := by simpa [resOpt] using hst
    obtain ⟨m, r, h1, h2⟩ := he st' rfl
    exact ⟨m, r, h1, h2.abs⟩

/-- the meaning does not depend on the fuel -/
theorem meaning_unique {d : List (Str × Val)} {m m' : Nat} {q : List Act} {r r' : RState}
    (h : refChain d m q = some r) (h' : refChain d m' q = some r') : r = r' := by
  have h1 := refChain_mono h (Nat.le_max_left m m')
  have h2 := refChain_mono h' (Nat.le_max_right m m')
  rw [h1] at h2
  exact Option.some.inj h2

/-- one evaluation can never observe what another evaluation or the caller did: two histories from the same configuration —
however different — that end with an evaluation of the same chain return states with the same data, variables, volatility
and caching -/
theorem result_independent_of_history {P : List Act → Prop} (hC : Closed P) {h0 : Heap} {dd : List (Str × HV)}
    (b b' : Bool) (wf : h0.WF) (hd : ∀ a ∈ cellsVars dd, a < h0.next) (hkeys : (dd.map Prod.fst).Nodup)
    (hK : KeyOK (absVars h0 dd) P) (hS : Safe (absVars h0 dd) P) (ops ops' : List Op) (q : List Act)
    (hP : ∀ q', Op.eval q' ∈ ops ++ [.eval q] → P q') (hP' : ∀ q', Op.eval q' ∈ ops' ++ [.eval q] → P q')
    (st st' : HState)
    (hst : (run { w := { heap := h0, defaults := dd, cacheOn := b } } (ops ++ [.eval q])).returned.getLast? = some (some st))
    (hst' : (run { w := { heap := h0, defaults := dd, cacheOn := b' } } (ops' ++ [.eval q])).returned.getLast? =
      some (some st')) :
    let H := (run { w := { heap := h0, defaults := dd, cacheOn := b } } (ops ++ [.eval q])).w.heap
    let H' := (run { w := { heap := h0, defaults := dd, cacheOn := b' } } (ops' ++ [.eval q])).w.heap
    (absState H st).data = (absState H' st').data ∧ (absState H st).vars = (absState H' st').vars ∧
      (absState H st).volatile = (absState H' st').volatile ∧ (absState H st).caching = (absState H' st').caching := by
  obtain ⟨m, r, h1, h2, h3, h4, h5⟩ := result_is_meaning hC b wf hd hkeys hK hS ops q hP st hst
  obtain ⟨m', r', h1', h2', h3', h4', h5'⟩ := result_is_meaning hC b' wf hd hkeys hK hS ops' q hP' st' hst'
  obtain rfl := meaning_unique h1 h1'
  exact ⟨h2.trans h2'.symm, h3.trans h3'.symm, h4.trans h4'.symm, h5.trans h5'.symm⟩

/-! ### 5. variable scope on the value-level meaning -/

/-- a `let-k-v` step makes `getvar-k` to its right return `v` -/
theorem let_visible_to_the_right {d : List (Str × Val)} {n : Nat} {acts : List Act} {r : RState} (k v : Str)
    (hne : acts ≠ []) (h : refChain d n acts = some r) :
    ∃ m, refChain d m (acts ++ [.mk "let".toList [.text k, .text v], .mk "getvar".toList [.text k]]) =
      some { r with data := .str v, vars := setVarV r.vars k (.str v) } := let_visible_right k v hne h

/-- every chain starts from the configured defaults … -/
theorem chain_starts_from_defaults (d : List (Str × Val)) (n : Nat) (act : Act) :
    refChain d (n + 1) [act] =
      (refArgs d n act.args).bind (fun args => cmdV { vars := d } (String.ofList act.name) args) :=
  first_step_from_defaults n act

/-- … and so does every link argument: its value is the meaning of the linked chain under the defaults, whatever variables
the steps to the left of the action have set -/
theorem link_argument_from_defaults (d : List (Str × Val)) (n : Nat) (q : List Act) (rest : List Arg) :
    refArgs d (n + 1) (.link q :: rest) = (refChain d n q).bind (fun v => (refArgs d n rest).map (fun vs => v.data :: vs)) :=
  refArgs_link d n q rest

/-- a chain that never assigns `k` reads the configured default of `k` -/
theorem unassigned_variable_is_default {d : List (Str × Val)} (k : Str) {m : Nat} {acts : List Act} {r : RState}
    (h : refChain d m acts = some r) (hn : NoSet k acts) : getVarV r.vars k = getVarV d k :=
  unset_var_is_default k m acts r h hn

example : NoSet (Ex.S "lst") Ex.qAGX ∧ (refChain Ex.d0 9 Ex.qAGX).isSome = true := by
  refine ⟨fun b hb hn => ?_, rfl⟩
  simp only [Ex.qAGX, List.mem_cons, List.not_mem_nil, or_false] at hb
  rcases hb with rfl | rfl | rfl <;> exact absurd hn (by decide)

/-! ### 6. a concrete history -/

section example_history
open Ex

/-- data / variables of the `i`-th returned state as they are now -/
def dataOf (s : Hist) (i : Nat) : Option Val := (s.nth i).map (fun st => (absState s.w.heap st).data)
def varsOf (s : Hist) (i : Nat) : Option (List (Str × Val)) := (s.nth i).map (fun st => (absState s.w.heap st).vars)

def zz : List Val := [.str (S "zz")]

/-- evaluate `mk-a/app-b`; the caller overwrites the returned list; evaluate it again, then `mk-a/app-b/app-c` (whose
predecessor comes from the cache and is appended to in place), then `mk-a/getvar-lst/app-x` (appends to the variable's
object), overwrite the variable `lst` of that result, evaluate it again -/
def ops1 : List Op :=
  [.eval qAB, .mutData 0 zz, .eval qAB, .eval qABC, .eval qAGX, .mutVar 3 (S "lst") zz, .eval qAGX]

example : Sep (run s0 ops1) ∧ HSound d0 P0 (run s0 ops1) := by
  refine ⟨sep_run sep0 _, history_sound closed0 keyOK0 safe0 (HSound.init true h0_wf dd_lt dd_keys) _ (fun q hq => ?_)⟩
  simp only [ops1, List.mem_cons, Op.eval.injEq, List.not_mem_nil, or_false, reduceCtorEq, false_or] at hq
  rcases hq with rfl | rfl | rfl | rfl | rfl <;> simp [P0, chains]

example :
    dataOf (run s0 ops1) 0 = some (.list zz) ∧
    dataOf (run s0 ops1) 1 = some (.list [.str (S "a"), .str (S "b")]) ∧
    dataOf (run s0 ops1) 2 = some (.list [.str (S "a"), .str (S "b"), .str (S "c")]) ∧
    dataOf (run s0 ops1) 3 = some (.list [.str (S "d1"), .str (S "x")]) ∧
    varsOf (run s0 ops1) 3 = some [(S "lst", .list zz)] ∧
    dataOf (run s0 ops1) 4 = some (.list [.str (S "d1"), .str (S "x")]) ∧
    varsOf (run s0 ops1) 4 = some d0 ∧
    absVars (run s0 ops1).w.heap (run s0 ops1).w.defaults = d0 :=
  ⟨rfl, rfl, rfl, rfl, rfl, rfl, rfl, rfl⟩

/-- `ext` mutates its link argument in place (`o.append("m")`): the cached value of the link `/mk-z` is not affected -/
example :
    dataOf (run s0 [.eval qAE, .eval [.mk (S "mk") [.text (S "b")], extZ]]) 0 = some (.list [.str (S "a"), .str (S "z")]) ∧
    dataOf (run s0 [.eval qAE, .eval [.mk (S "mk") [.text (S "b")], extZ]]) 1 = some (.list [.str (S "b"), .str (S "z")]) :=
  ⟨rfl, rfl⟩

/-- `cvapp` as the FIRST action of a chain: the context's variables are the initial state's own copies of the configured
defaults (cell 1 is the copy of `lst`, cell 0 the configured object).  The append hits the copy; the state handed to the
command is a clone of the initial state, so the result still has the default; the configured defaults abstract to `d0` -/
example :
    (run s0 [.eval qCG]).w.heap.valAt 1 = .list [.str (S "d1"), .str (S "x")] ∧
    (run s0 [.eval qCG]).w.heap.valAt 0 = .list [.str (S "d1")] ∧
    dataOf (run s0 [.eval qCG]) 0 = some (.list [.str (S "d1")]) ∧
    varsOf (run s0 [.eval qCG]) 0 = some d0 ∧
    (refChain d0 9 qCG).map (fun r => (r.data, r.vars)) = some (.list [.str (S "d1")], d0) ∧
    absVars (run s0 [.eval qCG]).w.heap (run s0 [.eval qCG]).w.defaults = d0 :=
  ⟨rfl, rfl, rfl, rfl, rfl, rfl⟩

/-- that chain (and its one-step prefix, served from the cache the second time) satisfies the hypotheses of the theorems of
section 4: `cvapp` follows no `vol` -/
example : HSound d0 P0 (run s0 [.eval [cvX], .eval qCG, .eval qCG]) := by
  refine history_sound closed0 keyOK0 safe0 (HSound.init true h0_wf dd_lt dd_keys) _ (fun q hq => ?_)
  simp only [List.mem_cons, Op.eval.injEq, List.not_mem_nil, or_false] at hq
  rcases hq with rfl | rfl | rfl <;> simp [P0, chains]

/-- data of the cache entry under a key, as it is now -/
def cacheData (s : Hist) (k : Str) : Option Val := (s.w.entry k).map (fun e => (absState s.w.heap e).data)

/-- evaluate `mk-a/pair-~X~/mk-z~E` (data `[[a],[z]]`: a list nested in the data) and `mk-a/app-b`; the caller overwrites the
inner list of the first result in place (`mutInner`); evaluate the first chain again -/
def ops2 : List Op := [.eval qAP, .eval qAB, .mutInner 0 zz, .eval qAP]

example : (Op.mutInner 0 zz).target = some 0 ∧ Sep (run s0 ops2) ∧ HSound d0 P0 (run s0 ops2) := by
  refine ⟨rfl, sep_run sep0 _,
    history_sound closed0 keyOK0 safe0 (HSound.init true h0_wf dd_lt dd_keys) _ (fun q hq => ?_)⟩
  simp only [ops2, List.mem_cons, Op.eval.injEq, List.not_mem_nil, or_false, reduceCtorEq, false_or] at hq
  rcases hq with rfl | rfl | rfl <;> simp [P0, chains]

/-- the write shows in the state it was made on and nowhere else: not in the cache entry, not in the other returned state,
not in what the next evaluation returns -/
example :
    dataOf (run s0 ops2) 0 = some (.list [.list zz, .list [.str (S "z")]]) ∧
    dataOf (run s0 ops2) 1 = some (.list [.str (S "a"), .str (S "b")]) ∧
    cacheData (run s0 ops2) (keyOf false qAP) = some (.list [.list [.str (S "a")], .list [.str (S "z")]]) ∧
    dataOf (run s0 ops2) 2 = some (.list [.list [.str (S "a")], .list [.str (S "z")]]) ∧
    absVars (run s0 ops2).w.heap (run s0 ops2).w.defaults = d0 :=
  ⟨rfl, rfl, rfl, rfl, rfl⟩

/-- why `Safe` is needed (finding): in the volatile chain `vol/getvar-lst/app-x` the state is not cloned between steps, the
data IS the variable's object, and the `append` changes the variable `lst` of the returned state; the value-level meaning
keeps the default.  (The defaults themselves and every other state are untouched — `defaults_never_change`.) -/
example :
    varsOf (run s0 [.eval [vol, getL, appX]]) 0 = some [(S "lst", .list [.str (S "d1"), .str (S "x")])] ∧
    (refChain d0 9 [vol, getL, appX]).map (·.vars) = some d0 ∧
    absVars (run s0 [.eval [vol, getL, appX]]).w.heap (run s0 [.eval [vol, getL, appX]]).w.defaults = d0 :=
  ⟨rfl, rfl, rfl⟩

/-- the same for `cvapp` (finding): after `vol` the state is not cloned, the context's variable `lst` IS the variable of the
state the command returns, and the append shows in the result's variables; the value-level meaning keeps the default.  (The
configured defaults are untouched: the volatile state still holds the initial state's copies.) -/
example :
    varsOf (run s0 [.eval [vol, cvX]]) 0 = some [(S "lst", .list [.str (S "d1"), .str (S "x")])] ∧
    (refChain d0 9 [vol, cvX]).map (·.vars) = some d0 ∧
    absVars (run s0 [.eval [vol, cvX]]).w.heap (run s0 [.eval [vol, cvX]]).w.defaults = d0 :=
  ⟨rfl, rfl, rfl⟩

end example_history

end Liquer.C10

-- OBLIGATIONS: Liquer.C10.eval_frame Liquer.C10.args_frame Liquer.C10.sep_init Liquer.C10.sep_step Liquer.C10.sep_run Liquer.C10.caller_isolation Liquer.C10.eval_isolation Liquer.C10.defaults_never_change Liquer.C10.returned_never_changes Liquer.C10.safe_of_no_vol_before_getvar Liquer.C10.keyOK_of_injective_keys Liquer.C10.eval_is_meaning Liquer.C10.history_sound Liquer.C10.cache_entry_is_meaning Liquer.C10.result_is_meaning Liquer.C10.meaning_unique Liquer.C10.result_independent_of_history Liquer.C10.let_visible_to_the_right Liquer.C10.chain_starts_from_defaults Liquer.C10.link_argument_from_defaults Liquer.C10.unassigned_variable_is_default
