/-
C05 — Cache admission: only finished, successful, non-volatile results are served; what is served is fresh.
Theorems over LiquerModel/Eval.lean and LiquerModel/Ref.lean; helper lemmas in LiquerProofs/Lemmas/Eval*.lean.
`Sound`, `Closed`, `CanonOK`: see the header of Props/C01.lean.
The text hypothesis `CanonOK` is discharged by C02's round trip for every class of `wfTop` queries: the `_wf`
corollaries (last section).
-/
import LiquerModel.Ref
import LiquerProofs.Inst.Vocab
import LiquerProofs.Lemmas.EvalCache
import LiquerProofs.Lemmas.EvalExact
import LiquerProofs.Lemmas.EvalExample
import LiquerProofs.Lemmas.EvalCanon

namespace Liquer.C05

/-- the regenerated command signature table satisfies the side conditions the evaluator theorems assume -/
theorem inst_registry : Inst.registryOK Gen.registry = true := Inst.registry_ok

/-! ### served = fresh -/

/-- After any history starting from the empty cache, the data the cache returns for a key is (up to the
`status` the cache rewrites) what the reference interpretation of that key text produces — and that fresh
result is successful, non-volatile and has caching enabled. -/
theorem served_is_fresh {env : Env} {C : Query → Prop} {T : Str → Prop} (hC : Closed env C T)
    (hcanon : ∀ q, C q → CanonOK env q) (fuel : Nat) (h : List HistOp) (hok : ∀ op ∈ h, op.ok C T)
    (k : Str) (st : EState) (hg : (runHist env fuel {} h).get k = some st) :
    ∃ fuel' st' c, refText env fuel' k = (.st st', c) ∧ st'.isError = false ∧ st'.volatile = false ∧
      st'.caching = true ∧ st.core = st'.core :=
  (runHist_sound hC hcanon fuel h {} (Sound.empty env) hok).get hg

/-- the same from any sound starting cache, for data hidden behind a progress status as well -/
theorem served_is_fresh_from {env : Env} {C : Query → Prop} {T : Str → Prop} (hC : Closed env C T)
    (hcanon : ∀ q, C q → CanonOK env q) (fuel : Nat) (h : List HistOp) (w : World) (hS : Sound env w)
    (hok : ∀ op ∈ h, op.ok C T) : Sound env (runHist env fuel w h) :=
  runHist_sound hC hcanon fuel h w hS hok

/-! ### never retrievable -/

/-- A key whose fresh evaluation fails, is volatile (produced by or downstream of a volatile command) or is at
or downstream of a command that switched caching off is never retrievable as data, after any history. -/
theorem never_data {env : Env} {C : Query → Prop} {T : Str → Prop} (hC : Closed env C T)
    (hcanon : ∀ q, C q → CanonOK env q) (fuel : Nat) (h : List HistOp) (hok : ∀ op ∈ h, op.ok C T)
    (k : Str) (m : Nat) (s : EState) (c : List Str) (href : refText env m k = (.st s, c))
    (hbad : s.isError = true ∨ s.volatile = true ∨ s.caching = false) :
    (runHist env fuel {} h).get k = none :=
  World.get_none_of_dataAt
    ((runHist_sound hC hcanon fuel h {} (Sound.empty env) hok).no_data_of_bad href hbad)

/-- … nor a key whose text does not parse or whose evaluation raises (a failing link argument) -/
theorem never_data_raised {env : Env} {C : Query → Prop} {T : Str → Prop} (hC : Closed env C T)
    (hcanon : ∀ q, C q → CanonOK env q) (fuel : Nat) (h : List HistOp) (hok : ∀ op ∈ h, op.ok C T)
    (k : Str) (m : Nat) (hne : (refText env m k).1 ≠ .unmodelled) (hns : ∀ s, (refText env m k).1 ≠ .st s) :
    (runHist env fuel {} h).get k = none :=
  World.get_none_of_dataAt
    ((runHist_sound hC hcanon fuel h {} (Sound.empty env) hok).no_data_of_not_st hne hns)

/-- One level, no hypothesis on the world: when the last step (action or file name) of a non-hit evaluation
ends failed, volatile — in particular with extra parameters — or with caching switched off, no data is
retrievable under the canonical key afterwards: the entry is removed or marked as error.  For an error state
the as-typed text must be the canonical one (a failure inherited from the predecessor only rewrites the
metadata filed under the as-typed text). -/
theorem not_admitted (env : Env) (n : Nat) (w w' : World) (q : Query) (raw : Str) (extra : Extra) (input : Option Val)
    (st : EState) (hen : w.enabled = true)
    (hmiss : extra.isEmpty = false ∨ input.isNone = false ∨ w.get (q.encode Gen.escapeTable) = none)
    (h : evalQ env (n+1) w q raw extra input true = (w', .st st))
    (hstep : q.hasStep = true)
    (hraw : st.isError = true → raw = q.encode Gen.escapeTable)
    (hbad : st.isError = true ∨ st.volatile = true ∨ st.caching = false) :
    w'.get (q.encode Gen.escapeTable) = none :=
  Liquer.not_admitted env n w w' q raw extra input st hen hmiss h hstep hraw hbad

/-- extra parameters make a successful result volatile (reference level) -/
theorem extra_is_volatile (env : Env) (n : Nat) (st : EState) (a : Action) (raw parent : Str) (extra : Extra)
    (s : EState) (h : (refAction env n st a raw parent extra).1 = .st s) (hs : s.isError = false)
    (hx : extra.isEmpty = false) : s.volatile = true :=
  refAction_extra_volatile env n st a raw parent extra s h hs hx

/-! ### never stored: evaluations on `NoCache` -/

/-- `evaluate_on` / an injected input value (`useCache = false`): the evaluation of a link-free, `sub`-free query
adds no data to the global cache — no entry gains a state, visible or hidden — whatever the input value, the
extra parameters, the spelling. (Links and `sub` go through the global cache like plain evaluations; what they
add is sound by `served_is_fresh_from`.) -/
theorem never_stored (env : Env) (n : Nat) (w : World) (q : Query) (raw : Str) (extra : Extra) (input : Option Val)
    (hq : q.plain = true) (k : Str) (s : EState)
    (h : (evalQ env n w q raw extra input false).1.dataAt k = some s) : w.dataAt k = some s :=
  evalQ_plain_keeps env n w q raw extra input hq k s h

theorem never_stored_get (env : Env) (n : Nat) (w : World) (q : Query) (raw : Str) (extra : Extra) (input : Option Val)
    (hq : q.plain = true) (k : Str) (s : EState)
    (h : (evalQ env n w q raw extra input false).1.get k = some s) : w.dataAt k = some s :=
  (evalQ_plain_keeps env n w q raw extra input hq).get h

/-- `nocache_chain_frame`: with `useCache = false` the evaluation of a link-free, `sub`-free query leaves the
global cache literally unchanged — no data, no progress metadata, no removal; only the call log grows, by
exactly the reference calls — and returns exactly the reference outcome (same fuel). -/
theorem nocache_chain_frame (env : Env) (n : Nat) (w : World) (q : Query) (raw : Str) (extra : Extra)
    (input : Option Val) (hq : q.plain = true) :
    (evalQ env n w q raw extra input false).1 = { w with calls := w.calls ++ (refQ env n q raw extra input).2 } ∧
    (evalQ env n w q raw extra input false).1.cache = w.cache ∧
    (evalQ env n w q raw extra input false).2 = (refQ env n q raw extra input).1 := by
  rw [evalQ_plain_nocache env n w q raw extra input hq]
  exact ⟨rfl, rfl, rfl⟩

/-- `store_metadata` never creates data -/
theorem metadata_only (w : World) (k status k' : Str) (s : EState)
    (h : (w.storeMeta k status).dataAt k' = some s) : w.dataAt k' = some s :=
  World.dataAt_storeMeta h

/-- a disabled cache (`NoCache()`) never holds data, whatever is evaluated -/
theorem nocache_stays (env : Env) (n : Nat) (w : World) (q : Query) (raw : Str) (extra : Extra) (input : Option Val)
    (uc : Bool) (hN : w.NoCache) (k : Str) : (evalQ env n w q raw extra input uc).1.get k = none :=
  ((exact env n).q w q raw extra input uc hN).1.get k

-- non-vacuity.  (1) hypotheses of `served_is_fresh` / `never_data`: the example family and a history over it;
-- `one/add-2` evaluated with extra parameters is volatile and leaves no data under its key, while the plain
-- evaluation does.  (2) `not_admitted`: `one/boom` fails at its last step.  (3) `never_stored`: `one/add-2` is plain.
open Ex in
example : Closed env0 C0 T0 ∧ (∀ q, C0 q → CanonOK env0 q) ∧
    (∀ op ∈ [HistOp.eval qLink (s "one/add-~X~/one~E"), .evalExtra qOneAdd (s "one/add-2") (.list [])], op.ok C0 T0) := by
  refine ⟨closed0, canon0, ?_⟩
  intro op hm
  simp only [List.mem_cons, List.not_mem_nil, or_false] at hm
  rcases hm with rfl | rfl <;> simp [HistOp.ok, C0]
open Ex in
example :
    ((evalQ env0 9 {} qOneAdd (s "one/add-2") (.dict [(s "y", .int 5)]) none true).1.get (s "one/add-2") = none) ∧
    ((evalQ env0 9 {} qOneAdd (s "one/add-2") (.dict [(s "y", .int 5)]) none true).2.obs.map (·.volatile) = some true) ∧
    ((evalQ env0 9 {} qOneAdd (s "one/add-2") .none none true).1.get (s "one/add-2") ≠ none) ∧
    ((evalQ env0 9 {} qOneAdd (s "one/add-2") .none (some (.int 5)) false).1.cache = []) ∧
    qOneAdd.plain = true ∧ qOneAdd.hasStep = true ∧
    -- `one/boom`: fails at its last step; nothing retrievable under its key; the successful prefix is cached
    (evalQ env0 9 {} qOneBoom (s "one/boom") .none none true).2.obs.map (·.value) = some none ∧
    (evalQ env0 9 {} qOneBoom (s "one/boom") .none none true).1.get (s "one/boom") = none ∧
    (evalQ env0 9 {} qOneBoom (s "one/boom") .none none true).1.get (s "one") ≠ none ∧
    qOneBoom.hasStep = true ∧ qOneBoom.encode Gen.escapeTable = s "one/boom" := by
  decide +kernel

/-! ### the canonical-text hypothesis discharged: closed classes of well-formed queries (C02's round trip) -/

/-- every well-formed query of the class means what its canonical text means (Lemmas/EvalCanon.lean) -/
theorem canon_of_wf {env : Env} (hd : DecOK env.dec) {C : Query → Prop}
    (hwf : ∀ q, C q → wfTop Gen.escapeTable q = true) : ∀ q, C q → CanonOK env q :=
  fun q hq => CanonOK.of_same (Canon.canonSame_of_wf env hd q (hwf q hq))

/-- `served_is_fresh` for a closed class of well-formed queries -/
theorem served_is_fresh_wf {env : Env} (hd : DecOK env.dec) {C : Query → Prop} {T : Str → Prop}
    (hC : Closed env C T) (hwf : ∀ q, C q → wfTop Gen.escapeTable q = true) (fuel : Nat) (h : List HistOp)
    (hok : ∀ op ∈ h, op.ok C T) (k : Str) (st : EState) (hg : (runHist env fuel {} h).get k = some st) :
    ∃ fuel' st' c, refText env fuel' k = (.st st', c) ∧ st'.isError = false ∧ st'.volatile = false ∧
      st'.caching = true ∧ st.core = st'.core :=
  served_is_fresh hC (canon_of_wf hd hwf) fuel h hok k st hg

/-- `served_is_fresh_from` for a closed class of well-formed queries -/
theorem served_is_fresh_from_wf {env : Env} (hd : DecOK env.dec) {C : Query → Prop} {T : Str → Prop}
    (hC : Closed env C T) (hwf : ∀ q, C q → wfTop Gen.escapeTable q = true) (fuel : Nat) (h : List HistOp)
    (w : World) (hS : Sound env w) (hok : ∀ op ∈ h, op.ok C T) : Sound env (runHist env fuel w h) :=
  served_is_fresh_from hC (canon_of_wf hd hwf) fuel h w hS hok

/-- `never_data` for a closed class of well-formed queries -/
theorem never_data_wf {env : Env} (hd : DecOK env.dec) {C : Query → Prop} {T : Str → Prop} (hC : Closed env C T)
    (hwf : ∀ q, C q → wfTop Gen.escapeTable q = true) (fuel : Nat) (h : List HistOp) (hok : ∀ op ∈ h, op.ok C T)
    (k : Str) (m : Nat) (s : EState) (c : List Str) (href : refText env m k = (.st s, c))
    (hbad : s.isError = true ∨ s.volatile = true ∨ s.caching = false) :
    (runHist env fuel {} h).get k = none :=
  never_data hC (canon_of_wf hd hwf) fuel h hok k m s c href hbad

/-- `never_data_raised` for a closed class of well-formed queries -/
theorem never_data_raised_wf {env : Env} (hd : DecOK env.dec) {C : Query → Prop} {T : Str → Prop}
    (hC : Closed env C T) (hwf : ∀ q, C q → wfTop Gen.escapeTable q = true) (fuel : Nat) (h : List HistOp)
    (hok : ∀ op ∈ h, op.ok C T) (k : Str) (m : Nat) (hne : (refText env m k).1 ≠ .unmodelled)
    (hns : ∀ s, (refText env m k).1 ≠ .st s) : (runHist env fuel {} h).get k = none :=
  never_data_raised hC (canon_of_wf hd hwf) fuel h hok k m hne hns

-- non-vacuity of the `_wf` hypotheses: the decoder of the example environment is a decoder, the example family
-- (closed, contains a link argument) consists of well-formed queries, and a history over it satisfies `ok`
open Ex in
example : DecOK env0.dec ∧ Closed env0 C0 T0 ∧ (∀ q, C0 q → wfTop Gen.escapeTable q = true) ∧
    (∀ op ∈ [HistOp.eval qLink (s "one/add-~X~/one~E"), .evalExtra qOneAdd (s "one/add-2") (.list [])], op.ok C0 T0) := by
  refine ⟨decUtf8_ok, closed0, ?_, ?_⟩
  · intro q hq; rcases hq with rfl | rfl | rfl | rfl <;> decide +kernel
  · intro op hm
    simp only [List.mem_cons, List.not_mem_nil, or_false] at hm
    rcases hm with rfl | rfl <;> simp [HistOp.ok, C0]

end Liquer.C05

-- OBLIGATIONS: Liquer.C05.inst_registry Liquer.C05.served_is_fresh Liquer.C05.served_is_fresh_from Liquer.C05.never_data Liquer.C05.never_data_raised Liquer.C05.not_admitted Liquer.C05.extra_is_volatile Liquer.C05.never_stored Liquer.C05.never_stored_get Liquer.C05.nocache_chain_frame Liquer.C05.metadata_only Liquer.C05.nocache_stays Liquer.C05.canon_of_wf Liquer.C05.served_is_fresh_wf Liquer.C05.served_is_fresh_from_wf Liquer.C05.never_data_wf Liquer.C05.never_data_raised_wf
