/-
C05 — evaluator property; theorems over LiquerModel/Eval.lean and LiquerModel/Ref.lean.
-/
import LiquerModel.Ref
import LiquerProofs.Inst.Vocab

namespace Liquer.C05

/-- the regenerated command signature table satisfies the side conditions the evaluator theorems assume -/
theorem inst_registry : Inst.registryOK Gen.registry = true := Inst.registry_ok

end Liquer.C05

-- OBLIGATIONS: Liquer.C05.inst_registry
