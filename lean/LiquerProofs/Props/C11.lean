/-
C11 — State types serialize and deserialize losslessly.

What is LiQuer's own logic here is DISPATCH (registry look-up, default extension, media type) and FRAMING
(the line-oriented `djson` dictionary format with JSON-escaped keys and base64 triples) — and the two codecs that
are LiQuer's own code: `TextStateType` (UTF-8, strict decoding) and `BytesStateType` (identity).  For these two the
codec law is PROVED (`c11_text_codec_law`, `c11_bytes_codec_law`: every string of Unicode scalar values, every byte
string) and the round trip through the regenerated registry holds with no codec hypothesis (`c11_own_roundtrip`,
`c11_own_copy`).  The remaining codecs (json, pickle, pandas/pyarrow/polars, base64) are third party: they enter as
parameters whose round-trip law is an explicit hypothesis (`CodecLaw`, `ElemEnvLaw`), validated differentially by
harness/props/C11.py, NOT proved.
-/
import LiquerProofs.Lemmas.Djson
import LiquerProofs.Lemmas.StateTypesCodec
import LiquerProofs.Inst.StateTypes

namespace Liquer.C11
open Liquer Liquer.StateTypes

/-! ### dispatch -/

theorem lookup_mem {k v : Str} {l : List (Str × Str)} (h : lookup k l = some v) : (k, v) ∈ l := by
  induction l with
  | nil => simp [lookup] at h
  | cons a l ih =>
    obtain ⟨a1, a2⟩ := a
    simp only [lookup] at h
    split at h
    · next he => cases h; subst he; exact List.mem_cons_self
    · exact List.mem_cons_of_mem _ (ih h)

/-- what `regOK` gives for *every* name handed to `StateTypesRegistry.get` (registered or not) -/
theorem dispatch_of_regOK (reg : Registry) (hreg : regOK reg = true) (k : Str) :
    reg.get (reg.get k) = reg.get k ∧
    ∃ r, reg.row (reg.get k) = some r ∧ r.ident = reg.get k ∧
      r.writesExt r.defaultExt = true ∧ r.readsExt r.defaultExt = true ∧
      (∀ e, r.readsExt e = true → r.writesExt e = true) ∧
      reg.row (reg.get r.ident) = some r := by
  simp only [regOK, Bool.and_eq_true, List.all_eq_true, beq_iff_eq] at hreg
  obtain ⟨⟨⟨hrows, hdict⟩, hdrow⟩, hdget⟩ := hreg
  have key : (reg.row (reg.get k)).isSome = true ∧ reg.get (reg.get k) = reg.get k := by
    unfold Registry.get
    cases hl : lookup k reg.dict with
    | none => exact ⟨hdrow, hdget⟩
    | some v =>
      have := hdict (k, v) (lookup_mem hl)
      exact this
  refine ⟨key.2, ?_⟩
  obtain ⟨r, hr⟩ := Option.isSome_iff_exists.mp key.1
  have hmem : r ∈ reg.rows := List.mem_of_find?_eq_some hr
  have hid : r.ident = reg.get k := by
    have := List.find?_some hr
    simpa using this
  have := hrows r hmem
  refine ⟨r, hr, hid, this.1.1.2, this.1.2, ?_, this.1.1.1⟩
  intro e he
  have h2 := this.2
  simp only [Row.readsExt, List.contains_iff_mem] at he
  exact h2 e (by simpa using he)

/-- **C11 dispatch**, for the registry regenerated from the current tree and *every* qualified type name or
identifier `k` (unregistered names fall back to the default/pickle type): the state type selected through
the identifier recorded at encoding time is the one selected through the name (`get (get k) = get k`);
its default extension — on which caches, recipe stores and saved results rely — is both written and read;
and for every extension `e` it both writes and reads, the decoder selected by the recorded identifier
reads `e`. -/
theorem c11_dispatch (k : Str) :
    Gen.stateTypeRegistry.get (Gen.stateTypeRegistry.get k) = Gen.stateTypeRegistry.get k ∧
    ∃ r, Gen.stateTypeRegistry.row (Gen.stateTypeRegistry.get k) = some r ∧
      r.ident = Gen.stateTypeRegistry.get k ∧
      r.writesExt r.defaultExt = true ∧ r.readsExt r.defaultExt = true ∧
      ∀ e, r.writesExt e = true → r.readsExt e = true →
        ∃ r', Gen.stateTypeRegistry.row (Gen.stateTypeRegistry.get r.ident) = some r' ∧ r'.readsExt e = true := by
  obtain ⟨h1, r, hr, hid, hw, hrd, _, hsame⟩ := dispatch_of_regOK _ Inst.stateTypes_ok k
  exact ⟨h1, r, hr, hid, hw, hrd, fun e _ he => ⟨r, hsame, he⟩⟩

/-- the media types the live core state types report are the ones computed from the regenerated `MIMETYPES` -/
theorem c11_mime : mimeAgree Gen.mimetypes Gen.stateTypeRegistry = true := Inst.stateTypes_mime

/-! non-vacuity: a two-type registry in the shape of the real one -/
def demoReg : Registry :=
  { rows := [⟨['d'], ['D'], ['j'], [(['j'], ['m']), (['x'], ['m'])], [['j']]⟩,
             ⟨['p'], ['P'], ['k'], [(['k'], ['o'])], [['k']]⟩],
    dict := [(['b', '.', 'd', 'i', 'c', 't'], ['d']), (['d'], ['d'])],
    default := ['p'] }
example : regOK demoReg = true := by decide
example : demoReg.get ['b', '.', 'd', 'i', 'c', 't'] = ['d'] ∧ demoReg.get ['s', 'e', 't'] = ['p'] := by decide

/-! ### generic round trip under the third-party codec law -/

/-- third-party round trip for one (state type, extension): whatever `as_bytes` produced, `from_bytes`
turns back into the original value. **Hypothesis** — validated differentially, not proved. -/
def CodecLaw {V B} (c : Codec V B) (T e : Str) : Prop :=
  ∀ x b, c.enc T e x = some b → c.dec T e b = some x

/-- **C11 generic round trip**: for any registry satisfying the side condition, if `encode_state_data`
succeeds with `(bytes, mimetype, type identifier)` then the identifier is the value's state type, the media
type is the one that state type reports for the extension used, and — under the codec law for that
(type, extension) — `decode_state_data` on the bytes with the recorded identifier returns the value. -/
theorem c11_roundtrip_generic {V B} (reg : Registry) (hreg : regOK reg = true) (c : Codec V B)
    (x : V) (ext : Option Str) (b : B) (m tid : Str)
    (henc : encodeStateData reg c x ext = some (b, m, tid)) :
    tid = reg.get (c.typeOf x) ∧
    ∃ r e, reg.row tid = some r ∧ extOr reg tid ext = some e ∧ r.mimeOf e = some m ∧
      (CodecLaw c tid e → decodeStateData reg c b tid ext = some x) := by
  obtain ⟨hfix, r, hr, _, _, _, _, _⟩ := dispatch_of_regOK reg hreg (c.typeOf x)
  simp only [encodeStateData, hr] at henc
  cases he : extOr reg (reg.get (c.typeOf x)) ext with
  | none => simp [he] at henc
  | some e =>
    simp only [he] at henc
    cases hm : r.mimeOf e with
    | none => simp [hm] at henc
    | some m' =>
      cases hb : c.enc (reg.get (c.typeOf x)) e x with
      | none => simp [hm, hb] at henc
      | some b' =>
        simp only [hm, hb, Option.some.injEq, Prod.mk.injEq] at henc
        obtain ⟨rfl, rfl, rfl⟩ := henc
        refine ⟨rfl, r, e, hr, he, hm, ?_⟩
        intro law
        simp only [decodeStateData, hfix, he]
        exact law x b' hb

/-- the same for the regenerated registry -/
theorem c11_roundtrip {V B} (c : Codec V B) (x : V) (ext : Option Str) (b : B) (m tid e : Str)
    (henc : encodeStateData Gen.stateTypeRegistry c x ext = some (b, m, tid))
    (he : extOr Gen.stateTypeRegistry tid ext = some e) (law : CodecLaw c tid e) :
    decodeStateData Gen.stateTypeRegistry c b tid ext = some x := by
  obtain ⟨_, r, e', _, he', _, h⟩ := c11_roundtrip_generic _ Inst.stateTypes_ok c x ext b m tid henc
  rw [he] at he'
  cases he'
  exact h law

/-- `copy_state_data` is the `copy` of the state type registered for the value's type -/
theorem c11_copy_dispatch {V B} (reg : Registry) (c : Codec V B) (x : V)
    (law : ∀ T y, c.copy T y = some y) : copyStateData reg c x = some x := by
  simp [copyStateData, law]

/-! non-vacuity: a codec satisfying the law (identity on `Nat`), encoded through the demo registry -/
def demoCodec : Codec Nat Nat :=
  { typeOf := fun _ => ['b', '.', 'd', 'i', 'c', 't'], enc := fun _ _ x => some (x + 1),
    dec := fun _ _ b => some (b - 1), copy := fun _ x => some x }
example : CodecLaw demoCodec ['d'] ['j'] := by
  intro x b h; simp [demoCodec] at h ⊢; omega
example : encodeStateData demoReg demoCodec 5 none = some (6, ['m'], ['d']) := by decide
example : decodeStateData demoReg demoCodec 6 ['d'] none = some 5 := by decide
example : ∀ T y, demoCodec.copy T y = some y := fun _ _ => rfl
example : copyStateData demoReg demoCodec 7 = some 7 := c11_copy_dispatch demoReg demoCodec 7 (fun _ _ => rfl)

/-! ### the codecs that are LiQuer's own code: `TextStateType` and `BytesStateType` — proved, not assumed -/

/-- **text codec law**: `TextStateType().from_bytes(TextStateType().as_bytes(s, e)[0], e) == s` for EVERY string of
Unicode scalar values and every extension — strict UTF-8 decoding inverts UTF-8 encoding. -/
theorem c11_text_codec_law (e : Str) : CodecLaw ownCodec ['t', 'e', 'x', 't'] e := by
  intro x b h
  cases x with
  | text s =>
    simp only [ownCodec, identText, ↓reduceIte, Option.some.injEq] at h
    subst h
    simp [ownCodec, identText, utf8Strict_utf8Bytes]
  | bytes b' => simp [ownCodec, identText, identBytes] at h

/-- **bytes codec law**: `BytesStateType` hands every byte string through unchanged, both ways. -/
theorem c11_bytes_codec_law (e : Str) : CodecLaw ownCodec ['b', 'y', 't', 'e', 's'] e := by
  intro x b h
  cases x with
  | text s => simp [ownCodec, identText, identBytes] at h
  | bytes b' =>
    simp only [ownCodec, identBytes, ↓reduceIte, Option.some.injEq] at h
    subst h
    simp [ownCodec, identText, identBytes]

/-- the text decoder is injective where it succeeds: it accepts nothing but the UTF-8 encoding of what it returns
(no two stored byte strings are read back as the same text) -/
theorem c11_text_decode_exact (e : Str) (b : List UInt8) (s : Str)
    (h : ownCodec.dec ['t', 'e', 'x', 't'] e b = some (.text s)) :
    ownCodec.enc ['t', 'e', 'x', 't'] e (.text s) = some b := by
  simp only [ownCodec, identText, ↓reduceIte, Option.map_eq_some_iff, OwnVal.text.injEq] at h ⊢
  obtain ⟨s', hs, rfl⟩ := h
  rw [utf8Bytes_of_utf8Strict b s' hs]

/-- identifier of the state type that serves the value -/
def ownIdent : OwnVal → Str
  | .text _ => ['t', 'e', 'x', 't']
  | .bytes _ => ['b', 'y', 't', 'e', 's']

/-- the stored bytes: UTF-8 of a text, a byte string itself -/
def ownBytes : OwnVal → List UInt8
  | .text s => utf8Bytes s
  | .bytes b => b

/-- the regenerated registry lists extension `e` as both written and read by the state type with identifier `tid` -/
def listedRW (tid e : Str) : Bool :=
  match Gen.stateTypeRegistry.row tid with
  | some r => r.writesExt e && r.readsExt e
  | none => false

theorem own_codec_law (x : OwnVal) (e : Str) : CodecLaw ownCodec (ownIdent x) e := by
  cases x with
  | text s => exact c11_text_codec_law e
  | bytes b => exact c11_bytes_codec_law e

/-- side fact about the regenerated registry: `str` is served by the `text`, `bytes` by the `bytes` state type -/
theorem own_get (x : OwnVal) : Gen.stateTypeRegistry.get (ownCodec.typeOf x) = ownIdent x := by
  cases x with
  | text s =>
    show Gen.stateTypeRegistry.get qualStr = ['t', 'e', 'x', 't']
    decide +kernel
  | bytes b =>
    show Gen.stateTypeRegistry.get qualBytes = ['b', 'y', 't', 'e', 's']
    decide +kernel

/-- **C11 round trip of the own state types, no hypothesis about any codec**: for EVERY text (string of Unicode scalar
values) and EVERY byte string `x`, and every extension — omitted (the type's default, `txt` / `b`) or any one the
regenerated registry lists as written and read by the value's state type — `encode_state_data` succeeds with the
UTF-8 bytes (the bytes themselves) and the identifier `text` (`bytes`), and `decode_state_data` on exactly these bytes
with the recorded identifier returns `x`. -/
theorem c11_own_roundtrip (x : OwnVal) (ext : Option Str)
    (hext : ∀ e, ext = some e → listedRW (ownIdent x) e = true) :
    ∃ m, encodeStateData Gen.stateTypeRegistry ownCodec x ext = some (ownBytes x, m, ownIdent x) ∧
      decodeStateData Gen.stateTypeRegistry ownCodec (ownBytes x) (ownIdent x) ext = some x := by
  have hget := own_get x
  obtain ⟨_, r, hr, _, hwd, _, _, _⟩ := dispatch_of_regOK _ Inst.stateTypes_ok (ownCodec.typeOf x)
  rw [hget] at hr
  obtain ⟨e, he, hw⟩ : ∃ e, extOr Gen.stateTypeRegistry (ownIdent x) ext = some e ∧ r.writesExt e = true := by
    cases ext with
    | none => exact ⟨r.defaultExt, by simp [extOr, hr], hwd⟩
    | some e =>
      refine ⟨e, rfl, ?_⟩
      have := hext e rfl
      simp only [listedRW, hr, Bool.and_eq_true] at this
      exact this.1
  obtain ⟨m, hm⟩ := mimeOf_of_writesExt r e hw
  have hencb : ownCodec.enc (ownIdent x) e x = some (ownBytes x) := by
    cases x <;> simp [ownCodec, ownIdent, ownBytes, identText, identBytes]
  have henc : encodeStateData Gen.stateTypeRegistry ownCodec x ext = some (ownBytes x, m, ownIdent x) := by
    simp only [encodeStateData, hget, hr, he, hm, hencb]
  exact ⟨m, henc, c11_roundtrip ownCodec x ext _ m _ e henc he (own_codec_law x e)⟩

/-- **C11 copy of the own state types**: `copy_state_data` returns an equal value for every text and byte string -/
theorem c11_own_copy (x : OwnVal) : copyStateData Gen.stateTypeRegistry ownCodec x = some x := by
  unfold copyStateData
  rw [own_get x]
  cases x <;> simp [ownCodec, ownIdent, identText, identBytes]

/-! non-vacuity: `"hé𝄞"` (ASCII, two-byte, astral) through the regenerated registry, default extension and `html`;
the extensions the hypothesis of `c11_own_roundtrip` admits; strictness of the decoder (Python raises
`UnicodeDecodeError`): truncated sequence, overlong NUL, encoded surrogate, beyond U+10FFFF, lone continuation byte -/
example : encodeStateData Gen.stateTypeRegistry ownCodec (.text ['h', Char.ofNat 233, Char.ofNat 0x1D11E]) none =
    some ([0x68, 0xc3, 0xa9, 0xf0, 0x9d, 0x84, 0x9e], ['t', 'e', 'x', 't', '/', 'p', 'l', 'a', 'i', 'n'], ['t', 'e', 'x', 't']) := by
  decide +kernel
example : decodeStateData Gen.stateTypeRegistry ownCodec [0x68, 0xc3, 0xa9, 0xf0, 0x9d, 0x84, 0x9e] ['t', 'e', 'x', 't'] none =
    some (.text ['h', Char.ofNat 233, Char.ofNat 0x1D11E]) := by decide +kernel
example : decodeStateData Gen.stateTypeRegistry ownCodec [0x68, 0xc3, 0xa9, 0xf0, 0x9d, 0x84, 0x9e] ['t', 'e', 'x', 't']
    (some ['h', 't', 'm', 'l']) = some (.text ['h', Char.ofNat 233, Char.ofNat 0x1D11E]) := by decide +kernel
example : listedRW ['t', 'e', 'x', 't'] ['t', 'x', 't'] = true ∧ listedRW ['t', 'e', 'x', 't'] ['h', 't', 'm', 'l'] = true ∧
    listedRW ['b', 'y', 't', 'e', 's'] ['b'] = true ∧ listedRW ['b', 'y', 't', 'e', 's'] ['p', 'n', 'g'] = true := by decide +kernel
example : ∃ m, encodeStateData Gen.stateTypeRegistry ownCodec (.bytes [0, 255, 0xc3]) (some ['p', 'n', 'g']) = some ([0, 255, 0xc3], m, ['b', 'y', 't', 'e', 's']) ∧
    decodeStateData Gen.stateTypeRegistry ownCodec [0, 255, 0xc3] ['b', 'y', 't', 'e', 's'] (some ['p', 'n', 'g']) = some (.bytes [0, 255, 0xc3]) :=
  c11_own_roundtrip (.bytes [0, 255, 0xc3]) (some ['p', 'n', 'g']) (by intro e h; cases h; decide +kernel)
example : ownCodec.dec ['t', 'e', 'x', 't'] ['t', 'x', 't'] [0x68, 0xc3] = none ∧
    ownCodec.dec ['t', 'e', 'x', 't'] ['t', 'x', 't'] [0xc0, 0x80] = none ∧
    ownCodec.dec ['t', 'e', 'x', 't'] ['t', 'x', 't'] [0xed, 0xa0, 0x80] = none ∧
    ownCodec.dec ['t', 'e', 'x', 't'] ['t', 'x', 't'] [0xf4, 0x90, 0x80, 0x80] = none ∧
    ownCodec.dec ['t', 'e', 'x', 't'] ['t', 'x', 't'] [0x80] = none := by decide +kernel
example : copyStateData Gen.stateTypeRegistry ownCodec (.text [Char.ofNat 233]) = some (.text [Char.ofNat 233]) := c11_own_copy _

/-! ### keys: JSON string escaping -/

/-- **key round trip**: for *every* string of Unicode scalar values (Lean `Char`: U+0000–U+10FFFF without
the surrogate range) the scanner of `json.loads` inverts `json.dumps` escaping. Covered explicitly:
`"` and `\`, the short escapes `\n \r \t \b \f`, all other control characters and DEL and everything
non-ASCII as `\uXXXX`, characters above U+FFFF as UTF-16 surrogate pairs; printable ASCII verbatim. -/
theorem c11_key_roundtrip (s : Str) (rest : List Char) :
    parseJStr (jsonEscape s ++ '"' :: rest) = some (s, rest) :=
  parseJStr_jsonEscape s rest

/-- two different dictionary keys never share an escaped form (no two entries of a `djson` object collide or merge) -/
theorem c11_key_injective (s t : Str) (h : jsonEscape s = jsonEscape t) : s = t := by
  have hs := c11_key_roundtrip s []
  have ht := c11_key_roundtrip t []
  rw [h, ht] at hs
  simpa using hs.symm

example : jsonEscape ['a', '"', 'b', '\\', '\n', Char.ofNat 233, Char.ofNat 0x1D11E] =
    "a\\\"b\\\\\\n\\u00e9\\ud834\\udd1e".toList := by decide

/-! ### the `djson` format -/

/-- **C11 djson framing**: for every dictionary — any number of entries, arbitrary string keys (distinct, as
in a Python `dict`) — and every element codec satisfying `ElemLaw`, decoding the `djson` text gives back
the dictionary, entries in order. -/
theorem c11_djson {E} (encE : E → List Char) (parseE : List Char → Option (E × List Char))
    (law : ElemLaw encE parseE) (d : List (Str × E)) (hd : keysNodup d = true) :
    fromDjson parseE (toDjson encE d) = some d := by
  simp [fromDjson, parseObject_toDjson law d, dictOfPairs_nodup d hd]

/-- laws of the outside world used by `encode_element` / `decode_element` (hypotheses, validated
differentially): the JSON scalar printer/scanner round trips and never starts with `[` or white space;
type identifiers, extensions and base64 text need no JSON escaping; base64 and the element's state type
codec (at its default extension) round trip. -/
structure ElemEnvLaw {V B} (env : ElemEnv V B) : Prop where
  scalarHead : ∀ v, env.isScalar v = true → ∃ c cs, env.jsonDumps v = c :: cs ∧ isWs c = false ∧ c ≠ '['
  scalarParse : ∀ v rest, env.isScalar v = true → Delim rest →
    env.parseScalar (env.jsonDumps v ++ rest) = some (v, rest)
  tidPlain : ∀ v, plainStr (env.typeId v) = true
  extPlain : ∀ v, plainStr (env.ext v) = true
  b64Plain : ∀ b, plainStr (env.b64 b) = true
  b64Inv : ∀ b, env.unb64 (env.b64 b) = some b
  codec : ∀ v, env.isScalar v = false → env.decode (env.asBytes v) (env.typeId v) (env.ext v) = some v

/-- a quoted plain string padded to a column width, as the scanner sees it -/
theorem quotedField (n : Nat) (s : Str) (h : plainStr s = true) (t : List Char) :
    ∃ k t0, padRight n ('"' :: s ++ ['"']) ++ t = '"' :: t0 ∧ parseJStr t0 = some (s, List.replicate k ' ' ++ t) := by
  refine ⟨n - ('"' :: s ++ ['"']).length, s ++ '"' :: (List.replicate (n - ('"' :: s ++ ['"']).length) ' ' ++ t), ?_, ?_⟩
  · simp [padRight]
  · exact parseJStr_plain s h _

theorem skipWs_comma (t : List Char) : skipWs (',' :: t) = ',' :: t := skipWs_cons_of_not_ws (by decide) t
theorem skipWs_quote (t : List Char) : skipWs ('"' :: t) = '"' :: t := skipWs_cons_of_not_ws (by decide) t
theorem skipWs_rbracket (t : List Char) : skipWs (']' :: t) = ']' :: t := skipWs_cons_of_not_ws (by decide) t
theorem skipWs_space (t : List Char) : skipWs (' ' :: t) = skipWs t := by simp [skipWs, isWs]

/-- a base64 triple as written by `encode_element` is read back as three strings -/
theorem parseTriple_tripleText (tid ext txt : Str) (h1 : plainStr tid = true) (h2 : plainStr ext = true)
    (h3 : plainStr txt = true) (rest : List Char) :
    ∃ t1, tripleText tid ext txt ++ rest = '[' :: t1 ∧ parseTriple t1 = some ((tid, ext, txt), rest) := by
  obtain ⟨k2, u2, e2, p2⟩ := quotedField 4 ext h2 (',' :: ' ' :: '"' :: (txt ++ '"' :: ']' :: rest))
  obtain ⟨k1, u1, e1, p1⟩ := quotedField 10 tid h1
    (',' :: ' ' :: (padRight 4 ('"' :: ext ++ ['"']) ++ (',' :: ' ' :: '"' :: (txt ++ '"' :: ']' :: rest))))
  simp only [List.cons_append] at e1 e2 p1 p2
  refine ⟨'"' :: u1, ?_, ?_⟩
  · simp only [tripleText, List.cons_append, List.nil_append, List.append_assoc]
    rw [e1]
  · simp only [parseTriple, skipWs_quote, p1, skipWs_replicate, skipWs_comma, skipWs_space, e2, p2,
      parseJStr_plain txt h3, skipWs_rbracket]

example : plainStr ['d', 'i', 'c', 't', 'i', 'o', 'n', 'a', 'r', 'y'] = true ∧ plainStr ['a', '"'] = false := by decide
example : ∃ t1, tripleText ['t'] ['e'] ['A', '='] ++ [','] = '[' :: t1 ∧ parseTriple t1 = some ((['t'], ['e'], ['A', '=']), [',']) :=
  parseTriple_tripleText _ _ _ (by decide) (by decide) (by decide) _

/-- **C11 djson elements**: `encode_element` / `decode_element` (scalars as JSON, everything else as a
`[type identifier, extension, base64]` triple handed to `decode_state_data`) satisfy the element law. -/
theorem c11_djson_elements {V B} (env : ElemEnv V B) (law : ElemEnvLaw env) :
    ElemLaw (encodeElement env) (parseElement env) := by
  constructor
  · intro v
    unfold encodeElement
    split
    · next hs =>
      obtain ⟨c, cs, h, hw, _⟩ := law.scalarHead v hs
      exact ⟨c, cs, h, hw⟩
    · exact ⟨'[', _, rfl, by decide⟩
  · intro v rest hrest
    unfold encodeElement
    split
    · next hs =>
      obtain ⟨c, cs, h, _, hne⟩ := law.scalarHead v hs
      have hp := law.scalarParse v rest hs hrest
      rw [h] at hp ⊢
      rw [List.cons_append] at hp ⊢
      unfold parseElement
      split
      · next t1 heq => exact absurd (List.cons.inj heq).1 hne
      · exact hp
    · next hs =>
      have hs' : env.isScalar v = false := by simpa using hs
      obtain ⟨t1, e1, hp⟩ := parseTriple_tripleText _ _ _ (law.tidPlain v) (law.extPlain v)
        (law.b64Plain (env.asBytes v)) rest
      rw [e1]
      simp [parseElement, hp, law.b64Inv, law.codec v hs']

/-- **C11 djson**, end to end: with the fixed key escaping, a dictionary with arbitrary string keys whose
members are scalars or arbitrary objects of registered state types survives `djson`. -/
theorem c11_djson_full {V B} (env : ElemEnv V B) (law : ElemEnvLaw env) (d : List (Str × V))
    (hd : keysNodup d = true) :
    fromDjson (parseElement env) (toDjson (encodeElement env) d) = some d :=
  c11_djson _ _ (c11_djson_elements env law) d hd

/-! non-vacuity: an environment with one scalar (`true` ↦ `1`) and one non-scalar value (`false`, stored as
a triple), satisfying every law -/
def demoEnv : ElemEnv Bool Unit :=
  { isScalar := fun v => v, jsonDumps := fun _ => ['1'],
    parseScalar := fun t => match t with | '1' :: r => some (true, r) | _ => none,
    typeId := fun _ => ['t'], ext := fun _ => ['e'], asBytes := fun _ => (),
    b64 := fun _ => ['A', 'A', '=', '='], unb64 := fun _ => some (), decode := fun _ _ _ => some false }

theorem demoEnv_law : ElemEnvLaw demoEnv where
  scalarHead := fun _ _ => ⟨'1', [], rfl, by decide, by decide⟩
  scalarParse := fun v rest hs _ => by
    have : v = true := hs
    subst this; rfl
  tidPlain := fun _ => by simp only [demoEnv]; decide
  extPlain := fun _ => by simp only [demoEnv]; decide
  b64Plain := fun _ => by simp only [demoEnv]; decide
  b64Inv := fun _ => rfl
  codec := fun v hs => by
    have : v = false := hs
    subst this; rfl

example : fromDjson (parseElement demoEnv)
    (toDjson (encodeElement demoEnv) [(['a', '"', 'b'], true), ([], false)]) =
    some [(['a', '"', 'b'], true), ([], false)] :=
  c11_djson_full demoEnv demoEnv_law _ (by decide)

/-- the text the model produces for the D10 witness `{'a"b': 1}` (fixed code: the quote is escaped) -/
example : toDjson Scalar.dumps [(['a', '"', 'b'], Scalar.int false ['1'])] =
    "{\n\"a\\\"b\":             1\n}".toList := by decide

example : fromDjson Scalar.parse (toDjson Scalar.dumps [(['a', '"', 'b'], Scalar.int false ['1'])]) =
    some [(['a', '"', 'b'], Scalar.int false ['1'])] := by decide

/-! ### registration histories -/

theorem lookupO_setKey_self (d : List (Str × Obj)) (k : Str) (o : Obj) : lookupO k (setKey d k o) = some o := by
  simp [setKey, lookupO]

theorem lookupO_filter_ne (d : List (Str × Obj)) (k k' : Str) (h : k' ≠ k) :
    lookupO k' (d.filter (fun e => e.1 ≠ k)) = lookupO k' d := by
  induction d with
  | nil => rfl
  | cons e rest ih =>
    obtain ⟨a, b⟩ := e
    rw [List.filter_cons]
    by_cases hak : a = k
    · subst hak
      have hne : ¬ a = k' := fun h' => h h'.symm
      simp only [ne_eq, not_true_eq_false, decide_false, Bool.false_eq_true, ↓reduceIte, lookupO, hne]
      exact ih
    · simp only [ne_eq, hak, not_false_eq_true, decide_true, ↓reduceIte, lookupO]
      by_cases hak' : a = k'
      · simp [hak']
      · simp only [hak', ↓reduceIte]; exact ih

theorem lookupO_setKey_other (d : List (Str × Obj)) (k k' : Str) (o : Obj) (h : k' ≠ k) :
    lookupO k' (setKey d k o) = lookupO k' d := by
  have hne : ¬ k = k' := fun h' => h h'.symm
  unfold setKey
  simp only [lookupO, hne, ↓reduceIte]
  exact lookupO_filter_ne d k k' h

/-- **the most recent registration is consistent**: right after `register(T, o)` the qualified type name selects `o` (what
`encode_state_data` uses and whose identifier it records) and that identifier selects `o` again (what `decode_state_data`
uses) — also when `T`, or the identifier, was registered before with another object -/
theorem c11_register_selects (d : List (Str × Obj)) (qual : Str) (o : Obj) :
    lookupO o.ident (register d qual o) = some o ∧
    (qual ≠ o.ident → lookupO qual (register d qual o) = some o) := by
  refine ⟨lookupO_setKey_self _ _ _, fun h => ?_⟩
  unfold register
  rw [lookupO_setKey_other _ _ _ _ h, lookupO_setKey_self]

/-- a registration changes nothing but its own two keys -/
theorem c11_register_frame (d : List (Str × Obj)) (qual : Str) (o : Obj) (k : Str) (h1 : k ≠ qual) (h2 : k ≠ o.ident) :
    lookupO k (register d qual o) = lookupO k d := by
  unfold register
  rw [lookupO_setKey_other _ _ _ _ h2, lookupO_setKey_other _ _ _ _ h1]

/-- … hence after ANY history of registrations the last call is consistent -/
theorem c11_register_history (d : List (Str × Obj)) (calls : List (Str × Obj)) (qual : Str) (o : Obj) (h : qual ≠ o.ident) :
    lookupO qual (registerAll d (calls ++ [(qual, o)])) = some o ∧
    lookupO o.ident (registerAll d (calls ++ [(qual, o)])) = some o := by
  unfold registerAll
  rw [List.foldl_append]
  simp only [List.foldl_cons, List.foldl_nil]
  exact ⟨(c11_register_selects _ qual o).2 h, (c11_register_selects _ qual o).1⟩

-- non-vacuity: `Grid` registered with a JSON state type, then re-registered with a pickle one carrying the same identifier
example :
    let a : Obj := { name := "GridJson".toList, ident := "grid".toList }
    let b : Obj := { name := "GridPickle".toList, ident := "grid".toList }
    let d := registerAll [] [("m.Grid".toList, a), ("m.Grid".toList, b)]
    lookupO "m.Grid".toList d = some b ∧ lookupO "grid".toList d = some b := by decide

end Liquer.C11

-- OBLIGATIONS: Liquer.C11.c11_dispatch Liquer.C11.c11_mime Liquer.C11.c11_roundtrip_generic Liquer.C11.c11_roundtrip Liquer.C11.c11_copy_dispatch Liquer.C11.c11_text_codec_law Liquer.C11.c11_bytes_codec_law Liquer.C11.c11_text_decode_exact Liquer.C11.c11_own_roundtrip Liquer.C11.c11_own_copy Liquer.C11.c11_key_roundtrip Liquer.C11.c11_djson Liquer.C11.c11_djson_elements Liquer.C11.c11_djson_full Liquer.C11.c11_register_selects Liquer.C11.c11_register_frame Liquer.C11.c11_register_history Liquer.C11.c11_key_injective
