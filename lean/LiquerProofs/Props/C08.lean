/-
C08 — Recipes materialise on demand, once, as the serialised query result.

Model: `LiquerModel/Recipes.lean` (`Liquer.Rcp`): `RecipeSpecStore` as a layer over a sub-store model `S`, mounted at
`cfg.root`; the evaluator is the parameter `E.evalQ text ext` (serialised result of evaluating the resolved query text
directly, `none` = fails); `st.log` lists the keys whose query was evaluated, most recent first (the evaluation counter
is its length).  Modelled code = `/repo` + the proposed fixes `C08-store-key-extension`, `C08-failed-recipe-status`.

* `c08_declared_visible`, `c08_declared_fields`        — ANY sub-store model.
* `c08_no_reevaluation*`                                 — ANY sub-store model, EVERY history (induction over the history).
* `c08_first_read*`, `c08_remove_resets`, `c08_failure*` — the `MemoryStore` model `memOps` (C07 ties it to the store
  specification).
* `c08_first_read*_file`, `c08_remove_resets_file`, `c08_failure*_file` — the same over the `FileStore` model
  `fileOps root`, for every sub-store state in which the key can be written (`fileWritable`, decidable, re-established by
  every one of these operations) and is not a directory.  The `FileStore` differs in one respect, proved in
  `c08_failure_file`: a failed recipe leaves no data *file*, so `substore.contains` stays false and the next read
  evaluates it again.
* `c08_relative*`                                        — resolution is C19's `toAbs` against the recipe's directory.
-/
import LiquerProofs.Lemmas.RecipesMem
import LiquerProofs.Lemmas.RecipesFile
import LiquerProofs.Props.C19
import LiquerModel.StoreFile

namespace Liquer.C08
open Liquer Liquer.Rcp

deriving instance DecidableEq for Except

/-! ### (1) a declared key is visible before it exists -/

theorem lookup_mem {cfg : Cfg} {k : Key} {r : Recipe} (h : cfg.lookup k = some r) : (k, r) ∈ cfg.recipes := by
  unfold Cfg.lookup at h
  cases hf : cfg.recipes.find? (fun kv => kv.1 == k) with
  | none => simp [hf] at h
  | some kv =>
    simp only [hf, Option.map_some, Option.some.injEq] at h
    have h1 := List.mem_of_find?_eq_some hf
    have h2 := List.find?_some hf
    simp only [beq_iff_eq] at h2
    obtain ⟨a, b⟩ := kv
    simp only at h h2
    subst h h2
    exact h1

/-- **Declared keys are listed and reported present, with status `recipe`, `has_recipe` and the declared title and
description, before they exist** (the sub-store has nothing under the key; `hnd`: the key is not also a directory of
other recipes). -/
theorem c08_declared_visible {σ : Type} (S : StoreOps σ) (cfg : Cfg) (st : RState σ) (k : Key) (r : Recipe)
    (hl : cfg.lookup k = some r) (hnd : recipeDir cfg.recipes k = false)
    (hc : S.contains st.sub k = .ok false) (hd : S.isDir st.sub k = .ok false)
    (hm : S.getMeta st.sub k = .error .keyNotFound) :
    contains S cfg st k = .ok true ∧ isDir S cfg st k = .ok false ∧
    getMeta S cfg st k = .ok { isDir := false, rm := { status := .recipe, title := r.title, descr := r.descr, hasRecipe := true } } ∧
    (∀ ks, S.keys st.sub = .ok ks → ∃ l, keys S cfg st = .ok l ∧ k ∈ l) ∧
    (k ≠ [] → ∀ l0, S.listdir st.sub (parentKey k) = .ok l0 →
      ∃ l, listdir S cfg st (parentKey k) = .ok l ∧ keyName k ∈ l) := by
  have hmem := lookup_mem hl
  have hdir : isDir S cfg st k = .ok false := by simp [isDir, hd, hnd]
  refine ⟨?_, hdir, ?_, ?_, ?_⟩
  · simp only [contains, hc]
    exact congrArg _ (by
      rw [List.any_eq_true]
      exact ⟨(k, r), hmem, by simp⟩)
  · simp [getMeta, hm, hdir, hl, recipeMeta]
  · intro ks hk
    refine ⟨(ks ++ cfg.recipes.map (·.1)).eraseDups, by simp [keys, hk], ?_⟩
    rw [List.mem_eraseDups, List.mem_append]
    exact Or.inr (List.mem_map.mpr ⟨(k, r), hmem, rfl⟩)
  · intro hk l0 hl0
    refine ⟨((l0.getD []) ++ cfg.recipes.filterMap (fun kv => if properPrefix (parentKey k) kv.1 then kv.1[(parentKey k).length]? else none)).eraseDups,
      by simp [listdir, hl0], ?_⟩
    rw [List.mem_eraseDups, List.mem_append]
    refine Or.inr (List.mem_filterMap.mpr ⟨(k, r), hmem, ?_⟩)
    have hkp := key_eq_parent_name hk
    have hpp : properPrefix (parentKey k) k = true := by
      simp only [properPrefix, Bool.and_eq_true, List.isPrefixOf_iff_prefix, bne_iff_ne, ne_eq]
      exact ⟨⟨[keyName k], hkp.symm⟩, fun e => (not_mem_ancestors_parent k hk).2 e.symm⟩
    simp only [hpp, ↓reduceIte]
    calc k[(parentKey k).length]? = (parentKey k ++ [keyName k])[(parentKey k).length]? := by rw [← hkp]
      _ = some (keyName k) := by simp

/-- where the declared title and description come from: the dictionary form declares them (file name and
`Generated from query: …` by default), the plain form declares none -/
theorem c08_declared_fields (E : Env) (dir rk : Key) (sec : Str) (i : Nat) (it : Item) (r : Recipe)
    (h : resolve E dir rk sec i it = some r) :
    (it.isDict = true → r.title = some (it.title.getD r.filename) ∧ r.descr = some (it.descr.getD (generatedFrom ++ it.query))) ∧
    (it.isDict = false → r.title = none ∧ r.descr = none) ∧ r.version = it.version ∧ r.cwd = dir := by
  unfold resolve at h
  cases hq : resolveQuery E dir it.query with
  | none => simp [hq] at h
  | some q =>
    simp only [hq] at h
    generalize (if it.isDict = true then (match it.filename with | some f => some f | none => queryFilename q) else queryFilename q) = fn at h
    cases fn with
    | none => cases h
    | some f =>
      simp only [Option.some.injEq] at h
      subst h
      cases it.isDict <;> simp

/-! ### (2) the first read evaluates once and stores the result -/

/-- the first read, in terms of how the evaluation phase ended: if `Context.evaluate` produced the bytes `d`, the read
returns them, the log is what the evaluation phase left, the metadata is `ready` with `has_recipe`, the declared title
and description and the recipe's name and version, and every later read is served from the store with no further change -/
theorem first_read_core (cfg : Cfg) (E : Env) (n : Nat) (st : RState MemState) (k : Key) (r : Recipe) (d : Data)
    (hl : cfg.lookup k = some r) (hsf : keyName k ≠ statusFile) (habs : Mem.contains st.sub k = false)
    (hout : (evalPhase memOps cfg E (getBytesF memOps cfg E n) st r k).2 = .ok d) :
    (getBytesF memOps cfg E (n + 1) st k).2 = .ok d ∧
    (getBytesF memOps cfg E (n + 1) st k).1.log = (evalPhase memOps cfg E (getBytesF memOps cfg E n) st r k).1.log ∧
    (∃ o, getMeta memOps cfg (getBytesF memOps cfg E (n + 1) st k).1 k = .ok o ∧ o.rm = readyMeta r) ∧
    (∀ m, getBytesF memOps cfg E (m + 1) (getBytesF memOps cfg E (n + 1) st k).1 k = ((getBytesF memOps cfg E (n + 1) st k).1, .ok d)) := by
  rw [getBytesF_mem_absent cfg E n st k r hl habs, hout]
  generalize (evalPhase memOps cfg E (getBytesF memOps cfg E n) st r k).1 = p1
  obtain ⟨f1, f2, f3⟩ := finish_ok_mem cfg p1 k r d hsf
  have hlog := finish_log memOps cfg p1 k r (.ok d)
  generalize finish memOps cfg p1 k r (.ok d) = fin at f1 f2 f3 hlog
  obtain ⟨s', e⟩ := fin
  simp only at f1 f2 f3 hlog
  subst f1
  simp only [afterMake]
  refine ⟨?_, hlog, ?_, ?_⟩
  · show Mem.getBytes s'.sub k = _
    simp [Mem.getBytes, f2]
  · exact ⟨_, getMeta_mem_entry cfg s' k _ f3, by simp [decRM_encRM]⟩
  · intro m
    exact getBytesF_mem_data cfg E m s' k d f2

/-- the evaluation phase of a recipe whose query has no leading resource segment: `evalQ` on the resolved text, one log entry -/
theorem evalPhase_plain {σ : Type} (S : StoreOps σ) (cfg : Cfg) (E : Env) (rd : RState σ → Key → RState σ × Except StoreErr Data)
    (st : RState σ) (r : Recipe) (k : Key) (q : Query) (hp : E.prs r.query = some q)
    (hq : ∀ h names rest, q.segments ≠ .resource h names :: rest) :
    evalPhase S cfg E rd st r k = ({ st with log := k :: st.log }, EvalOut.ofOpt (E.evalQ r.query (storeExt k q))) := by
  unfold evalPhase
  rw [hp]
  -- the equation of the catch-all alternative needs exactly `hq`, which `simp` finds among the hypotheses
  simp only

/-- … of a recipe that transforms another key `names` (root key) whose metadata is available: the key is read through
the global store first (this may evaluate another recipe), then `evalQ` on the resolved text, one log entry on top -/
theorem evalPhase_dep {σ : Type} (S : StoreOps σ) (cfg : Cfg) (E : Env) (rd : RState σ → Key → RState σ × Except StoreErr Data)
    (st : RState σ) (r : Recipe) (k : Key) (q : Query) (h : Option Header) (names : List Str) (t : Seg) (rest : List Seg)
    (hp : E.prs r.query = some q) (hq : q.segments = .resource h names :: t :: rest)
    (o : RObs) (hm : metaRoot S cfg st names = .ok o) :
    evalPhase S cfg E rd st r k =
      ({ (bytesRoot cfg rd st names).1 with log := k :: (bytesRoot cfg rd st names).1.log },
       EvalOut.ofOpt (E.evalQ r.query (storeExt k q))) := by
  unfold evalPhase
  rw [hp]
  simp only [hq, hm]
  rfl

/-- **First read** of a declared key that is not in the store, query without a resource reference: `evalQ` is applied to
the resolved query text (extension = that of the key), the evaluation counter grows by exactly one, the bytes read are
that result, they are what the store holds afterwards, the status is `ready` and the recipe's name and version are recorded. -/
theorem c08_first_read (cfg : Cfg) (E : Env) (st : RState MemState) (k : Key) (r : Recipe) (q : Query) (d : Data)
    (hl : cfg.lookup k = some r) (hsf : keyName k ≠ statusFile) (habs : Mem.contains st.sub k = false)
    (hp : E.prs r.query = some q) (hq : ∀ h names rest, q.segments ≠ .resource h names :: rest)
    (hev : E.evalQ r.query (storeExt k q) = some d) :
    (getBytes memOps cfg E st k).2 = .ok d ∧
    (getBytes memOps cfg E st k).1.log = k :: st.log ∧
    (∃ o, getMeta memOps cfg (getBytes memOps cfg E st k).1 k = .ok o ∧ o.rm.status = .ready ∧ o.rm.hasRecipe = true ∧
      o.rm.depName = some r.name ∧ o.rm.depVersion = some r.version ∧
      o.rm.title = r.title.or (some []) ∧ o.rm.descr = r.descr.or (some [])) ∧
    getBytes memOps cfg E (getBytes memOps cfg E st k).1 k = ((getBytes memOps cfg E st k).1, .ok d) := by
  unfold getBytes fuelOf
  have he := evalPhase_plain memOps cfg E (getBytesF memOps cfg E (cfg.recipes.length + 1)) st r k q hp hq
  obtain ⟨a, b, ⟨o, c1, c2⟩, e⟩ := first_read_core cfg E (cfg.recipes.length + 1) st k r d hl hsf habs (by rw [he, hev]; rfl)
  refine ⟨a, by rw [b, he], ⟨o, c1, ?_⟩, e _⟩
  rw [c2]
  simp [readyMeta]

/-- **First read**, query that transforms another key: the same, after the referenced key has been read (which may
evaluate that recipe first): exactly one evaluation of this recipe's own query on top of what that read logged. -/
theorem c08_first_read_dep (cfg : Cfg) (E : Env) (st : RState MemState) (k : Key) (r : Recipe) (q : Query) (d : Data)
    (h : Option Header) (names : List Str) (t : Seg) (rest : List Seg)
    (hl : cfg.lookup k = some r) (hsf : keyName k ≠ statusFile) (habs : Mem.contains st.sub k = false)
    (hp : E.prs r.query = some q) (hq : q.segments = .resource h names :: t :: rest)
    (o : RObs) (hm : metaRoot memOps cfg st names = .ok o)
    (hev : E.evalQ r.query (storeExt k q) = some d) :
    (getBytes memOps cfg E st k).2 = .ok d ∧
    (getBytes memOps cfg E st k).1.log =
      k :: (bytesRoot cfg (getBytesF memOps cfg E (cfg.recipes.length + 1)) st names).1.log ∧
    (∃ o, getMeta memOps cfg (getBytes memOps cfg E st k).1 k = .ok o ∧ o.rm = readyMeta r) ∧
    getBytes memOps cfg E (getBytes memOps cfg E st k).1 k = ((getBytes memOps cfg E st k).1, .ok d) := by
  unfold getBytes fuelOf
  have he := evalPhase_dep memOps cfg E (getBytesF memOps cfg E (cfg.recipes.length + 1)) st r k q h names t rest hp hq o hm
  obtain ⟨a, b, c, e⟩ := first_read_core cfg E (cfg.recipes.length + 1) st k r d hl hsf habs (by rw [he, hev]; rfl)
  exact ⟨a, by rw [b, he], c, e _⟩

/-! ### (3) no re-evaluation: every history -/

/-- one step: the log changes only at a `get_bytes` of a declared key that the sub-store does not contain at that moment -/
theorem c08_no_reevaluation_step {σ : Type} (S : StoreOps σ) (cfg : Cfg) (E : Env) (st : RState σ) (op : ROp)
    (h : (step S cfg E st op).log ≠ st.log) :
    ∃ k r, op = .getBytes k ∧ S.contains st.sub k = .ok false ∧ cfg.lookup k = some r := by
  have ht : triggers S cfg st op = true := by
    cases hh : triggers S cfg st op with
    | true => rfl
    | false => exact absurd (step_quiet S cfg E st op hh) h
  cases op with
  | getBytes k =>
    simp only [triggers] at ht
    cases hc : S.contains st.sub k with
    | error e => simp [hc] at ht
    | ok b =>
      cases b with
      | true => simp [hc] at ht
      | false =>
        rw [hc] at ht
        cases hk : cfg.lookup k with
        | none => simp [hk] at ht
        | some r => exact ⟨k, r, rfl, hc, hk⟩
  | remove k => simp [triggers] at ht
  | clean d r => simp [triggers] at ht
  | getMeta k => simp [triggers] at ht
  | contains k => simp [triggers] at ht
  | isDir k => simp [triggers] at ht
  | keys => simp [triggers] at ht
  | listdir k => simp [triggers] at ht

/-- **No re-evaluation, all histories** (read / metadata / contains / is_dir / keys / listdir / remove / clean / re-read,
any length, any sub-store): the evaluation log never shrinks, and if it grew over the history then some step of the
history was a `get_bytes` of a declared key which the sub-store did not contain at that moment. -/
theorem c08_no_reevaluation {σ : Type} (S : StoreOps σ) (cfg : Cfg) (E : Env) (st : RState σ) (h : List ROp) :
    st.log <:+ (run S cfg E st h).log ∧
    ((run S cfg E st h).log ≠ st.log →
      ∃ pre k post r, h = pre ++ ROp.getBytes k :: post ∧ S.contains (run S cfg E st pre).sub k = .ok false ∧ cfg.lookup k = some r) := by
  refine ⟨run_log_suffix S cfg E h st, fun hg => ?_⟩
  obtain ⟨pre, op, post, e, t⟩ := run_grew S cfg E h st hg
  cases op with
  | getBytes k =>
    simp only [triggers] at t
    cases hc : S.contains (run S cfg E st pre).sub k with
    | error e => simp [hc] at t
    | ok b =>
      cases b with
      | true => simp [hc] at t
      | false =>
        rw [hc] at t
        cases hk : cfg.lookup k with
        | none => simp [hk] at t
        | some r => exact ⟨pre, k, post, r, e, hc, hk⟩
  | remove k => simp [triggers] at t
  | clean d r => simp [triggers] at t
  | getMeta k => simp [triggers] at t
  | contains k => simp [triggers] at t
  | isDir k => simp [triggers] at t
  | keys => simp [triggers] at t
  | listdir k => simp [triggers] at t

/-- the contrapositive, as a counter: a history none of whose steps is such a read leaves the evaluation counter unchanged -/
theorem c08_no_reevaluation_quiet {σ : Type} (S : StoreOps σ) (cfg : Cfg) (E : Env) (st : RState σ) (h : List ROp)
    (hq : quiet S cfg E st h) : (run S cfg E st h).log.length = st.log.length := by
  rw [run_quiet S cfg E h st hq]

/-! ### (4) removing the key returns it to the `recipe` state -/

/-- **Remove resets**: after `remove k` of a declared key (in whatever state it was: ready, error, never made) the
sub-store does not contain it, it is still reported present, its metadata is the recipe's again (status `recipe`,
declared title / description, no recorded evaluation), nothing was evaluated, and the next read evaluates it again. -/
theorem c08_remove_resets (cfg : Cfg) (st : RState MemState) (k : Key) (r : Recipe)
    (hl : cfg.lookup k = some r) (hk : k ≠ []) (hsf : keyName k ≠ statusFile) (hnd : recipeDir cfg.recipes k = false) :
    ∃ st', remove memOps cfg st k = .ok st' ∧ st'.log = st.log ∧
      Mem.contains st'.sub k = false ∧ contains memOps cfg st' k = .ok true ∧
      getMeta memOps cfg st' k = .ok { isDir := false, rm := { status := .recipe, title := r.title, descr := r.descr, hasRecipe := true } } ∧
      triggers memOps cfg st' (.getBytes k) = true := by
  refine ⟨_, remove_mem cfg st k, remove_log memOps cfg (remove_mem cfg st k), ?_⟩
  have habs := remove_mem_absent cfg st k hk hsf hnd
  generalize createStatus memOps cfg { st with sub := Mem.remove st.sub k } k = st' at habs
  obtain ⟨_, a2, a3, a4⟩ := mem_absent habs
  have hc : memOps.contains st'.sub k = .ok false := by show Except.ok (Mem.contains st'.sub k) = _; rw [habs]
  have hd : memOps.isDir st'.sub k = .ok false := by
    show Except.ok (Mem.isDir st'.sub k) = _
    have : Mem.isDir st'.sub k = false := by
      simp only [Mem.isDir, Bool.or_eq_false_iff]
      refine ⟨?_, by simpa using a2⟩
      cases k with
      | nil => exact absurd rfl hk
      | cons a b => rfl
    rw [this]
  have hm : memOps.getMeta st'.sub k = .error .keyNotFound := by
    show Mem.getMeta st'.sub k = _
    have : Mem.isDir st'.sub k = false := by
      have := hd
      injection this
    simp [Mem.getMeta, a4, this]
  obtain ⟨v1, _, v3, _, _⟩ := c08_declared_visible memOps cfg st' k r hl hnd hc hd hm
  exact ⟨habs, v1, v3, by simp [triggers, hc, hl]⟩

/-! ### (5) a failing recipe leaves error metadata and no data -/

/-- how a failed evaluation phase ends, provided the evaluation phase left no data under the key -/
theorem failure_core (cfg : Cfg) (E : Env) (n : Nat) (st : RState MemState) (k : Key) (r : Recipe) (bare : Bool)
    (hl : cfg.lookup k = some r) (hsf : keyName k ≠ statusFile) (habs : Mem.contains st.sub k = false)
    (hout : (evalPhase memOps cfg E (getBytesF memOps cfg E n) st r k).2 = .failed bare)
    (hnone : alGet (evalPhase memOps cfg E (getBytesF memOps cfg E n) st r k).1.sub.data k = none) :
    (getBytesF memOps cfg E (n + 1) st k).2 = .error .keyNotFound ∧
    (getBytesF memOps cfg E (n + 1) st k).1.log = (evalPhase memOps cfg E (getBytesF memOps cfg E n) st r k).1.log ∧
    alGet (getBytesF memOps cfg E (n + 1) st k).1.sub.data k = none ∧
    (∃ o, getMeta memOps cfg (getBytesF memOps cfg E (n + 1) st k).1 k = .ok o ∧ o.rm = failedMeta r bare) ∧
    (∀ m, getBytesF memOps cfg E (m + 1) (getBytesF memOps cfg E (n + 1) st k).1 k =
      ((getBytesF memOps cfg E (n + 1) st k).1, .error .keyNotFound)) := by
  rw [getBytesF_mem_absent cfg E n st k r hl habs, hout]
  generalize (evalPhase memOps cfg E (getBytesF memOps cfg E n) st r k).1 = p1 at hnone
  obtain ⟨f1, f2, f3⟩ := finish_failed_mem cfg p1 k r bare hl hsf
  have hlog := finish_log memOps cfg p1 k r (.failed bare)
  generalize finish memOps cfg p1 k r (.failed bare) = fin at f1 f2 f3 hlog
  obtain ⟨s', e⟩ := fin
  simp only at f1 f2 f3 hlog
  subst f1
  rw [hnone] at f2
  simp only [afterMake]
  refine ⟨?_, hlog, f2, ?_, ?_⟩
  · show Mem.getBytes s'.sub k = _
    simp [Mem.getBytes, f2]
  · exact ⟨_, getMeta_mem_entry cfg s' k _ f3, by simp [decRM_encRM]⟩
  · intro m
    exact getBytesF_mem_metaonly cfg E m s' k _ f3 f2

/-- **Failure**: a declared key whose query fails when evaluated (`evalQ = none`: a command raises, is unknown, or the
result cannot be serialised for the key's extension): the read raises `KeyNotFound`, there is no data under the key, the
metadata has status `error` (with `has_recipe`, the recipe's name and version, the declared title/description), the
query was evaluated exactly once — and over a `MemoryStore` a later read does NOT try again (the metadata-only entry
makes `substore.contains` true): it fails the same way and evaluates nothing. -/
theorem c08_failure (cfg : Cfg) (E : Env) (st : RState MemState) (k : Key) (r : Recipe) (q : Query)
    (hl : cfg.lookup k = some r) (hsf : keyName k ≠ statusFile) (habs : Mem.contains st.sub k = false)
    (hp : E.prs r.query = some q) (hq : ∀ h names rest, q.segments ≠ .resource h names :: rest)
    (hev : E.evalQ r.query (storeExt k q) = none) :
    (getBytes memOps cfg E st k).2 = .error .keyNotFound ∧
    (getBytes memOps cfg E st k).1.log = k :: st.log ∧
    alGet (getBytes memOps cfg E st k).1.sub.data k = none ∧
    (∃ o, getMeta memOps cfg (getBytes memOps cfg E st k).1 k = .ok o ∧ o.rm.status = .error ∧ o.rm.hasRecipe = true ∧
      o.rm.depName = some r.name ∧ o.rm.depVersion = some r.version ∧ o.rm.title = r.title.or (some [])) ∧
    getBytes memOps cfg E (getBytes memOps cfg E st k).1 k = ((getBytes memOps cfg E st k).1, .error .keyNotFound) := by
  unfold getBytes fuelOf
  have he := evalPhase_plain memOps cfg E (getBytesF memOps cfg E (cfg.recipes.length + 1)) st r k q hp hq
  obtain ⟨a, b, c, ⟨o, d1, d2⟩, e⟩ := failure_core cfg E (cfg.recipes.length + 1) st k r false hl hsf habs
    (by rw [he, hev]; rfl) (by rw [he]; exact (mem_absent habs).2.2.1)
  refine ⟨a, by rw [b, he], c, ⟨o, d1, ?_⟩, e _⟩
  rw [d2]
  simp [failedMeta]

/-- **Failure** of a recipe that refers to a key without metadata (nobody declares it, nothing is stored there): nothing
is evaluated at all, and the outcome is the same error state. -/
theorem c08_failure_missing_dependency (cfg : Cfg) (E : Env) (st : RState MemState) (k : Key) (r : Recipe) (q : Query)
    (h : Option Header) (names : List Str) (rest : List Seg)
    (hl : cfg.lookup k = some r) (hsf : keyName k ≠ statusFile) (habs : Mem.contains st.sub k = false)
    (hp : E.prs r.query = some q) (hq : q.segments = .resource h names :: rest)
    (e : StoreErr) (hm : metaRoot memOps cfg st names = .error e) :
    (getBytes memOps cfg E st k).2 = .error .keyNotFound ∧
    (getBytes memOps cfg E st k).1.log = st.log ∧
    alGet (getBytes memOps cfg E st k).1.sub.data k = none ∧
    (∃ o, getMeta memOps cfg (getBytes memOps cfg E st k).1 k = .ok o ∧ o.rm.status = .error ∧ o.rm.hasRecipe = true ∧
      o.rm.depName = some r.name ∧ o.rm.depVersion = some r.version) := by
  unfold getBytes fuelOf
  have he : evalPhase memOps cfg E (getBytesF memOps cfg E (cfg.recipes.length + 1)) st r k = (st, .failed true) := by
    unfold evalPhase
    rw [hp]
    simp only [hq, hm]
  obtain ⟨a, b, c, ⟨o, d1, d2⟩, _⟩ := failure_core cfg E (cfg.recipes.length + 1) st k r true hl hsf habs
    (by rw [he]) (by rw [he]; exact (mem_absent habs).2.2.1)
  refine ⟨a, by rw [b, he], c, ⟨o, d1, ?_⟩⟩
  rw [d2]
  simp [failedMeta]

/-! ### (6) relative references resolve against the recipe's directory -/

/-- the resolved query of a recipe is the parsed text made absolute against the root key of the recipe's directory -/
theorem c08_relative (E : Env) (dir rk : Key) (sec : Str) (i : Nat) (it : Item) (r : Recipe)
    (h : resolve E dir rk sec i it = some r) :
    ∃ q q', E.prs it.query = some q ∧ q.toAbsolute dir (some []) = some q' ∧ r.query = E.enc q' := by
  unfold resolve resolveQuery at h
  cases hp : E.prs it.query with
  | none => simp [hp] at h
  | some q =>
    cases ha : q.toAbsolute dir (some []) with
    | none => simp [hp, ha] at h
    | some q' =>
      simp only [hp, ha] at h
      split at h
      · cases h
      · cases h
        exact ⟨q, q', rfl, ha, rfl⟩

/-- … and for the generated shape `[resource path, transformation]` (`./x` or `-R/../y/z`, then `-`, then actions): the path is replaced by
C19's POSIX normalisation — of `dir ++ path` when the path starts with `.` or `..`, of the path alone otherwise — the
header and the transformation are untouched; a path climbing above the root does not resolve. -/
theorem c08_relative_posix (dir : Key) (hd : plainPath dir = true) (h : Option Header) (hn : h.map Header.name = some [] ∨ h = none)
    (p : List Str) (hp : p ≠ []) (t : Option Header) (a : List Action) (f : Option Str) (abs : Bool) :
    (Query.mk [.resource h p, .transform t a f] abs).toAbsolute dir (some []) =
      (if startsRelative p then posixNorm (dir ++ p) else posixNorm p).map
        (fun p' => Query.mk [.resource h p', .transform t a f] abs) := by
  have hsel : segSelected (some []) (Seg.resource h p).segmentName = true := by
    rcases hn with hn | hn
    · cases h with
      | none => simp at hn
      | some hh =>
        simp only [Option.map_some, Option.some.injEq] at hn
        simp [segSelected, Seg.segmentName, hn]
    · subst hn
      simp [segSelected, Seg.segmentName]
  have hne : (!p.isEmpty) = true := by
    cases p with
    | nil => exact absurd rfl hp
    | cons x xs => rfl
  rw [← C19.toAbsolute_eq_posix dir p hd]
  simp only [Query.toAbsolute, mapOpt, Seg.toAbsolute, hsel, hne, Bool.and_self, ↓reduceIte]
  cases toAbs dir p <;> rfl

/-! ### (7) the same over the `FileStore` model

`fileOps root` over the POSIX tree `PFS`.  What the file model needs of the sub-store state, for the one key `k`:
`PlainKey k` (no empty / `.` / `..` / `__metadata__` component), `fileWritable root s k` (no regular file on the way to
`<dir>/__metadata__/<name>.json`, which is not a directory itself) and that `k` is not a directory.  All are decidable, are
kept by every operation of the theorems below (each of which restates `fileWritable` for the state it leaves), and hold
in the state a fresh recipe store leaves (`Ex.f0`).  The one behavioural difference: a failed recipe leaves a metadata
file and NO data file, so `substore.contains` stays false and the next read evaluates the recipe again; and, because
`create_status` of a key that is a directory of recipes would create that directory, the failure and remove theorems
need `recipeDir cfg.recipes k = false` (the `MemoryStore` theorems need it for `remove` only). -/

section file
variable (root : Path)

/-- the first read over a `FileStore`, in terms of how the evaluation phase ended (hypotheses on the state the
evaluation phase left: the key can be written and is not a directory) -/
theorem first_read_core_file (cfg : Cfg) (E : Env) (n : Nat) (st : RState PFS) (k : Key) (r : Recipe) (d : Data)
    (hl : cfg.lookup k = some r) (hpk : PlainKey k) (hsf : keyName k ≠ statusFile)
    (habs : File.contains root st.sub k = .ok false)
    (hout : (evalPhase (fileOps root) cfg E (getBytesF (fileOps root) cfg E n) st r k).2 = .ok d)
    (hw : fileWritable root (evalPhase (fileOps root) cfg E (getBytesF (fileOps root) cfg E n) st r k).1.sub k = true)
    (hnd : File.isDir root (evalPhase (fileOps root) cfg E (getBytesF (fileOps root) cfg E n) st r k).1.sub k = .ok false) :
    (getBytesF (fileOps root) cfg E (n + 1) st k).2 = .ok d ∧
    (getBytesF (fileOps root) cfg E (n + 1) st k).1.log =
      (evalPhase (fileOps root) cfg E (getBytesF (fileOps root) cfg E n) st r k).1.log ∧
    (∃ o, getMeta (fileOps root) cfg (getBytesF (fileOps root) cfg E (n + 1) st k).1 k = .ok o ∧ o.rm = readyMeta r) ∧
    File.getBytes root (getBytesF (fileOps root) cfg E (n + 1) st k).1.sub k = .ok d ∧
    fileWritable root (getBytesF (fileOps root) cfg E (n + 1) st k).1.sub k = true ∧
    (∀ m, getBytesF (fileOps root) cfg E (m + 1) (getBytesF (fileOps root) cfg E (n + 1) st k).1 k =
      ((getBytesF (fileOps root) cfg E (n + 1) st k).1, .ok d)) := by
  obtain ⟨hk0, _⟩ := File.absent_of_contains hpk habs
  rw [getBytesF_absent (fileOps root) cfg E n st k r hl habs, hout]
  generalize (evalPhase (fileOps root) cfg E (getBytesF (fileOps root) cfg E n) st r k).1 = p1 at hw hnd
  have hp : p1.sub.get (root ++ k) ≠ some .dir := by
    rw [File.isDir_plain _ hpk hk0] at hnd
    injection hnd with h
    simpa [PFS.isDirB] using h
  obtain ⟨f1, f2⟩ := finish_ok_file (root := root) cfg p1 hpk hk0 hsf r d hw hp
  have hlog := finish_log (fileOps root) cfg p1 k r (.ok d)
  generalize finish (fileOps root) cfg p1 k r (.ok d) = fin at f1 f2 hlog
  obtain ⟨s', e⟩ := fin
  simp only at f1 f2 hlog
  subst f1
  simp only [afterMake]
  have hb : File.getBytes root s'.sub k = .ok d := File.getBytes_dfile _ hpk f2.1
  exact ⟨hb, hlog, ⟨_, getMeta_file_entry cfg s' hpk hk0 (by simp) f2, by simp [decRM_encRM]⟩, hb, f2.writable,
    fun m => getBytesF_file_data cfg E m s' hpk hk0 d f2.1⟩

/-- **First read over a `FileStore`**, query without a resource reference: as `c08_first_read`; in addition the
sub-store's own `get_bytes` returns the result (the data file holds it). -/
theorem c08_first_read_file (cfg : Cfg) (E : Env) (st : RState PFS) (k : Key) (r : Recipe) (q : Query) (d : Data)
    (hl : cfg.lookup k = some r) (hpk : PlainKey k) (hsf : keyName k ≠ statusFile)
    (habs : File.contains root st.sub k = .ok false) (hw : fileWritable root st.sub k = true)
    (hp : E.prs r.query = some q) (hq : ∀ h names rest, q.segments ≠ .resource h names :: rest)
    (hev : E.evalQ r.query (storeExt k q) = some d) :
    (getBytes (fileOps root) cfg E st k).2 = .ok d ∧
    (getBytes (fileOps root) cfg E st k).1.log = k :: st.log ∧
    (∃ o, getMeta (fileOps root) cfg (getBytes (fileOps root) cfg E st k).1 k = .ok o ∧ o.rm.status = .ready ∧
      o.rm.hasRecipe = true ∧ o.rm.depName = some r.name ∧ o.rm.depVersion = some r.version ∧
      o.rm.title = r.title.or (some []) ∧ o.rm.descr = r.descr.or (some [])) ∧
    File.getBytes root (getBytes (fileOps root) cfg E st k).1.sub k = .ok d ∧
    fileWritable root (getBytes (fileOps root) cfg E st k).1.sub k = true ∧
    getBytes (fileOps root) cfg E (getBytes (fileOps root) cfg E st k).1 k = ((getBytes (fileOps root) cfg E st k).1, .ok d) := by
  obtain ⟨hk0, hnone⟩ := File.absent_of_contains hpk habs
  unfold getBytes fuelOf
  have he := evalPhase_plain (fileOps root) cfg E (getBytesF (fileOps root) cfg E (cfg.recipes.length + 1)) st r k q hp hq
  obtain ⟨a, b, ⟨o, c1, c2⟩, g, w, e⟩ := first_read_core_file root cfg E (cfg.recipes.length + 1) st k r d hl hpk hsf habs
    (by rw [he, hev]; rfl) (by rw [he]; exact hw)
    (by rw [he, File.isDir_plain _ hpk hk0]; simp [PFS.isDirB, hnone])
  refine ⟨a, by rw [b, he], ⟨o, c1, ?_⟩, g, w, e _⟩
  rw [c2]
  simp [readyMeta]

/-- **First read over a `FileStore`**, query that transforms another key: as `c08_first_read_dep`.  Reading the referenced
key may materialise other recipes, so the two conditions on the sub-store are about the state that read leaves. -/
theorem c08_first_read_dep_file (cfg : Cfg) (E : Env) (st : RState PFS) (k : Key) (r : Recipe) (q : Query) (d : Data)
    (h : Option Header) (names : List Str) (t : Seg) (rest : List Seg)
    (hl : cfg.lookup k = some r) (hpk : PlainKey k) (hsf : keyName k ≠ statusFile)
    (habs : File.contains root st.sub k = .ok false)
    (hp : E.prs r.query = some q) (hq : q.segments = .resource h names :: t :: rest)
    (o : RObs) (hm : metaRoot (fileOps root) cfg st names = .ok o)
    (hw : fileWritable root (bytesRoot cfg (getBytesF (fileOps root) cfg E (cfg.recipes.length + 1)) st names).1.sub k = true)
    (hnd : File.isDir root (bytesRoot cfg (getBytesF (fileOps root) cfg E (cfg.recipes.length + 1)) st names).1.sub k = .ok false)
    (hev : E.evalQ r.query (storeExt k q) = some d) :
    (getBytes (fileOps root) cfg E st k).2 = .ok d ∧
    (getBytes (fileOps root) cfg E st k).1.log =
      k :: (bytesRoot cfg (getBytesF (fileOps root) cfg E (cfg.recipes.length + 1)) st names).1.log ∧
    (∃ o, getMeta (fileOps root) cfg (getBytes (fileOps root) cfg E st k).1 k = .ok o ∧ o.rm = readyMeta r) ∧
    File.getBytes root (getBytes (fileOps root) cfg E st k).1.sub k = .ok d ∧
    fileWritable root (getBytes (fileOps root) cfg E st k).1.sub k = true ∧
    getBytes (fileOps root) cfg E (getBytes (fileOps root) cfg E st k).1 k = ((getBytes (fileOps root) cfg E st k).1, .ok d) := by
  unfold getBytes fuelOf
  have he := evalPhase_dep (fileOps root) cfg E (getBytesF (fileOps root) cfg E (cfg.recipes.length + 1)) st r k q h names t rest hp hq o hm
  obtain ⟨a, b, c, g, w, e⟩ := first_read_core_file root cfg E (cfg.recipes.length + 1) st k r d hl hpk hsf habs
    (by rw [he, hev]; rfl) (by rw [he]; exact hw) (by rw [he]; exact hnd)
  exact ⟨a, by rw [b, he], c, g, w, e _⟩

/-- **Remove resets, over a `FileStore`**: as `c08_remove_resets` (data file and metadata file are unlinked, whichever
exist), for a key that can be written and is not a directory; the key can still be written afterwards. -/
theorem c08_remove_resets_file (cfg : Cfg) (st : RState PFS) (k : Key) (r : Recipe)
    (hl : cfg.lookup k = some r) (hpk : PlainKey k) (hk : k ≠ []) (hsf : keyName k ≠ statusFile)
    (hnd : recipeDir cfg.recipes k = false)
    (hw : fileWritable root st.sub k = true) (hdir : File.isDir root st.sub k = .ok false) :
    ∃ st', remove (fileOps root) cfg st k = .ok st' ∧ st'.log = st.log ∧
      File.contains root st'.sub k = .ok false ∧ contains (fileOps root) cfg st' k = .ok true ∧
      getMeta (fileOps root) cfg st' k = .ok { isDir := false, rm := { status := .recipe, title := r.title, descr := r.descr, hasRecipe := true } } ∧
      triggers (fileOps root) cfg st' (.getBytes k) = true ∧ fileWritable root st'.sub k = true := by
  have hp : st.sub.get (root ++ k) ≠ some .dir := by
    rw [File.isDir_plain _ hpk hk] at hdir
    injection hdir with h
    simpa [PFS.isDirB] using h
  obtain ⟨st', h1, h2, h3, h4, h5⟩ := remove_file (root := root) cfg st hpk hk hsf hnd hw hp
  have hc : (fileOps root).contains st'.sub k = .ok false := by
    show File.contains root st'.sub k = _
    rw [File.contains_plain _ hpk hk, h3]; rfl
  have hd : (fileOps root).isDir st'.sub k = .ok false := by
    show File.isDir root st'.sub k = _
    rw [File.isDir_plain _ hpk hk]
    simp [PFS.isDirB, h3]
  have hm : (fileOps root).getMeta st'.sub k = .error .keyNotFound := File.getMeta_absent _ hpk hk h3 h4
  obtain ⟨v1, _, v3, _, _⟩ := c08_declared_visible (fileOps root) cfg st' k r hl hnd hc hd hm
  exact ⟨st', h1, h2, hc, v1, v3, by simp [triggers, hc, hl], h5⟩

/-- how a failed evaluation phase ends over a `FileStore`, provided the evaluation phase left no data file under the key
and the key can be written: error metadata, no data file, and the sub-store still does not contain the key -/
theorem failure_core_file (cfg : Cfg) (E : Env) (n : Nat) (st : RState PFS) (k : Key) (r : Recipe) (bare : Bool)
    (hl : cfg.lookup k = some r) (hpk : PlainKey k) (hsf : keyName k ≠ statusFile) (hrd : recipeDir cfg.recipes k = false)
    (habs : File.contains root st.sub k = .ok false)
    (hout : (evalPhase (fileOps root) cfg E (getBytesF (fileOps root) cfg E n) st r k).2 = .failed bare)
    (hnone : File.contains root (evalPhase (fileOps root) cfg E (getBytesF (fileOps root) cfg E n) st r k).1.sub k = .ok false)
    (hw : fileWritable root (evalPhase (fileOps root) cfg E (getBytesF (fileOps root) cfg E n) st r k).1.sub k = true) :
    (getBytesF (fileOps root) cfg E (n + 1) st k).2 = .error .keyNotFound ∧
    (getBytesF (fileOps root) cfg E (n + 1) st k).1.log =
      (evalPhase (fileOps root) cfg E (getBytesF (fileOps root) cfg E n) st r k).1.log ∧
    File.contains root (getBytesF (fileOps root) cfg E (n + 1) st k).1.sub k = .ok false ∧
    File.getBytes root (getBytesF (fileOps root) cfg E (n + 1) st k).1.sub k = .error .keyNotFound ∧
    (∃ o, getMeta (fileOps root) cfg (getBytesF (fileOps root) cfg E (n + 1) st k).1 k = .ok o ∧ o.rm = failedMeta r bare) ∧
    fileWritable root (getBytesF (fileOps root) cfg E (n + 1) st k).1.sub k = true ∧
    triggers (fileOps root) cfg (getBytesF (fileOps root) cfg E (n + 1) st k).1 (.getBytes k) = true := by
  obtain ⟨hk0, _⟩ := File.absent_of_contains hpk habs
  rw [getBytesF_absent (fileOps root) cfg E n st k r hl habs, hout]
  generalize (evalPhase (fileOps root) cfg E (getBytesF (fileOps root) cfg E n) st r k).1 = p1 at hw hnone
  obtain ⟨_, hp⟩ := File.absent_of_contains hpk hnone
  obtain ⟨f1, f2⟩ := finish_failed_file (root := root) cfg p1 hpk hk0 hsf r bare hl hrd hw hp
  have hlog := finish_log (fileOps root) cfg p1 k r (.failed bare)
  generalize finish (fileOps root) cfg p1 k r (.failed bare) = fin at f1 f2 hlog
  obtain ⟨s', e⟩ := fin
  simp only at f1 f2 hlog
  subst f1
  simp only [afterMake]
  have hb : File.getBytes root s'.sub k = .error .keyNotFound := File.getBytes_none _ hpk f2.1
  have hc : File.contains root s'.sub k = .ok false := by
    rw [File.contains_plain _ hpk hk0, f2.1]; rfl
  have hc' : (fileOps root).contains s'.sub k = .ok false := hc
  exact ⟨hb, hlog, hc, hb, ⟨_, getMeta_file_entry cfg s' hpk hk0 (by simp) f2, by simp [decRM_encRM]⟩, f2.writable,
    by simp [triggers, hc', hl]⟩

/-- **Failure over a `FileStore`**: a declared key whose query fails when evaluated: the read raises `KeyNotFound`, there
is no data file (`contains` is false, `get_bytes` of the sub-store raises `KeyNotFound`), the metadata file has status
`error` (with `has_recipe`, the recipe's name and version, the declared title), the query was evaluated exactly once —
and, unlike over a `MemoryStore`, a later read DOES try again: it evaluates the query once more and fails the same way. -/
theorem c08_failure_file (cfg : Cfg) (E : Env) (st : RState PFS) (k : Key) (r : Recipe) (q : Query)
    (hl : cfg.lookup k = some r) (hpk : PlainKey k) (hsf : keyName k ≠ statusFile) (hrd : recipeDir cfg.recipes k = false)
    (habs : File.contains root st.sub k = .ok false) (hw : fileWritable root st.sub k = true)
    (hp : E.prs r.query = some q) (hq : ∀ h names rest, q.segments ≠ .resource h names :: rest)
    (hev : E.evalQ r.query (storeExt k q) = none) :
    (getBytes (fileOps root) cfg E st k).2 = .error .keyNotFound ∧
    (getBytes (fileOps root) cfg E st k).1.log = k :: st.log ∧
    File.contains root (getBytes (fileOps root) cfg E st k).1.sub k = .ok false ∧
    File.getBytes root (getBytes (fileOps root) cfg E st k).1.sub k = .error .keyNotFound ∧
    (∃ o, getMeta (fileOps root) cfg (getBytes (fileOps root) cfg E st k).1 k = .ok o ∧ o.rm.status = .error ∧
      o.rm.hasRecipe = true ∧ o.rm.depName = some r.name ∧ o.rm.depVersion = some r.version ∧
      o.rm.title = r.title.or (some [])) ∧
    fileWritable root (getBytes (fileOps root) cfg E st k).1.sub k = true ∧
    (getBytes (fileOps root) cfg E (getBytes (fileOps root) cfg E st k).1 k).2 = .error .keyNotFound ∧
    (getBytes (fileOps root) cfg E (getBytes (fileOps root) cfg E st k).1 k).1.log = k :: k :: st.log := by
  unfold getBytes fuelOf
  have he := fun s => evalPhase_plain (fileOps root) cfg E (getBytesF (fileOps root) cfg E (cfg.recipes.length + 1)) s r k q hp hq
  obtain ⟨a, b, c, g, ⟨o, d1, d2⟩, w, _⟩ := failure_core_file root cfg E (cfg.recipes.length + 1) st k r false hl hpk hsf hrd habs
    (by rw [he, hev]; rfl) (by rw [he]; exact habs) (by rw [he]; exact hw)
  obtain ⟨a', b', _⟩ := failure_core_file root cfg E (cfg.recipes.length + 1)
    (getBytesF (fileOps root) cfg E (cfg.recipes.length + 1 + 1) st k).1 k r false hl hpk hsf hrd c
    (by rw [he, hev]; rfl) (by rw [he]; exact c) (by rw [he]; exact w)
  refine ⟨a, by rw [b, he], c, g, ⟨o, d1, ?_⟩, w, a', by rw [b', he, b, he]⟩
  rw [d2]
  simp [failedMeta]

/-- **Failure over a `FileStore`** of a recipe that refers to a key without metadata: nothing is evaluated at all, the
outcome is the same error state (metadata file, no data file). -/
theorem c08_failure_missing_dependency_file (cfg : Cfg) (E : Env) (st : RState PFS) (k : Key) (r : Recipe) (q : Query)
    (h : Option Header) (names : List Str) (rest : List Seg)
    (hl : cfg.lookup k = some r) (hpk : PlainKey k) (hsf : keyName k ≠ statusFile) (hrd : recipeDir cfg.recipes k = false)
    (habs : File.contains root st.sub k = .ok false) (hw : fileWritable root st.sub k = true)
    (hp : E.prs r.query = some q) (hq : q.segments = .resource h names :: rest)
    (e : StoreErr) (hm : metaRoot (fileOps root) cfg st names = .error e) :
    (getBytes (fileOps root) cfg E st k).2 = .error .keyNotFound ∧
    (getBytes (fileOps root) cfg E st k).1.log = st.log ∧
    File.contains root (getBytes (fileOps root) cfg E st k).1.sub k = .ok false ∧
    File.getBytes root (getBytes (fileOps root) cfg E st k).1.sub k = .error .keyNotFound ∧
    (∃ o, getMeta (fileOps root) cfg (getBytes (fileOps root) cfg E st k).1 k = .ok o ∧ o.rm.status = .error ∧
      o.rm.hasRecipe = true ∧ o.rm.depName = some r.name ∧ o.rm.depVersion = some r.version) ∧
    fileWritable root (getBytes (fileOps root) cfg E st k).1.sub k = true := by
  unfold getBytes fuelOf
  have he : evalPhase (fileOps root) cfg E (getBytesF (fileOps root) cfg E (cfg.recipes.length + 1)) st r k = (st, .failed true) := by
    unfold evalPhase
    rw [hp]
    simp only [hq, hm]
  obtain ⟨a, b, c, g, ⟨o, d1, d2⟩, w, _⟩ := failure_core_file root cfg E (cfg.recipes.length + 1) st k r true hl hpk hsf hrd habs
    (by rw [he]) (by rw [he]; exact habs) (by rw [he]; exact hw)
  refine ⟨a, by rw [b, he], c, g, ⟨o, d1, ?_⟩, w⟩
  rw [d2]
  simp [failedMeta]

end file

/-! ### non-vacuity and concrete behaviour -/

namespace Ex

def kA : Key := [['a', '.', 't']]
def kB : Key := [['b', '.', 't']]
def kC : Key := [['c', '.', 't']]
def qA : Query := .mk [.transform none [.mk ['f'] [] 0] (some ['a', '.', 't'])] false
def qB : Query := .mk [.resource none [['m'], ['a', '.', 't']], .transform none [.mk ['g'] [] 0] (some ['b', '.', 't'])] false
def qC : Query := .mk [.transform none [.mk ['x'] [] 0] (some ['c', '.', 't'])] false
def rec (q : Str) (n : Str) : Recipe := { query := q, title := none, descr := none, name := n, version := ['v'], cwd := [['m']], filename := n }
/-- three recipes in the store mounted at `m`: `a.t` (plain), `b.t` (transforms `m/a.t`), `c.t` (fails) -/
def cfg : Cfg := { root := [['m']], recipes := [(kA, rec ['A'] ['a', '.', 't']), (kB, rec ['B'] ['b', '.', 't']), (kC, rec ['C'] ['c', '.', 't'])] }
def E : Env :=
  { prs := fun t => if t = ['A'] then some qA else if t = ['B'] then some qB else if t = ['C'] then some qC else none,
    enc := fun _ => [],
    evalQ := fun t _ => if t = ['A'] then some [1] else if t = ['B'] then some [2] else none }
def s0 : RState MemState := initState memOps cfg memInit [[['r']]]
def f0 : RState PFS := initState (fileOps [['s']]) cfg (fileInit [['s']]) [[['r']]]

-- hypotheses of `c08_declared_visible`
example : cfg.lookup kA = some (rec ['A'] ['a', '.', 't']) := by decide
example : recipeDir cfg.recipes kA = false := by decide
example : memOps.contains s0.sub kA = .ok false ∧ memOps.isDir s0.sub kA = .ok false ∧ memOps.getMeta s0.sub kA = .error .keyNotFound := by decide
-- hypotheses of `c08_first_read` (recipe `a.t`), `c08_first_read_dep` (recipe `b.t`), `c08_failure` (`c.t`)
example : keyName kA ≠ statusFile ∧ Mem.contains s0.sub kA = false := by decide
example : E.prs (rec ['A'] ['a', '.', 't']).query = some qA := rfl
example : ∀ h names rest, qA.segments ≠ .resource h names :: rest := by intro h names rest; simp [qA, Query.segments]
example : E.evalQ ['A'] (storeExt kA qA) = some [1] := by decide
example : qB.segments = .resource none [['m'], ['a', '.', 't']] :: .transform none [.mk ['g'] [] 0] (some ['b', '.', 't']) :: [] := rfl
example : metaRoot memOps cfg s0 [['m'], ['a', '.', 't']] = .ok { isDir := false, rm := recipeMeta (rec ['A'] ['a', '.', 't']) } := by decide
example : E.evalQ ['C'] (storeExt kC qC) = none := by decide
-- a read of `b.t` evaluates `a.t` first, then `b.t`; both are served afterwards without evaluation
example : (getBytes memOps cfg E s0 kB).2 = .ok [2] ∧ (getBytes memOps cfg E s0 kB).1.log = [kB, kA] := by decide
example : (run memOps cfg E s0 [.getBytes kB, .getBytes kA, .getMeta kA, .keys, .getBytes kB, .listdir []]).log = [kB, kA] := by decide
-- remove / clean bring the recipe state back, the next read evaluates again
example : (run memOps cfg E s0 [.getBytes kA, .remove kA, .getBytes kA]).log = [kA, kA] := by decide
example : (run memOps cfg E s0 [.getBytes kB, .clean [] true, .getBytes kA]).log = [kA, kB, kA] := by decide
-- the failing recipe: MemoryStore does not try again, FileStore does (no data file => `contains` is false)
example : (run memOps cfg E s0 [.getBytes kC, .getBytes kC]).log = [kC] := by decide
example : (run (fileOps [['s']]) cfg E f0 [.getBytes kC, .getBytes kC]).log = [kC, kC] := by decide
example : (getMeta (fileOps [['s']]) cfg (run (fileOps [['s']]) cfg E f0 [.getBytes kC]) kC).toOption.map (·.rm.status) = some .error := by decide
example : (run (fileOps [['s']]) cfg E f0 [.getBytes kB, .getBytes kA, .getBytes kB]).log = [kB, kA] := by decide
-- hypotheses of the `FileStore` theorems: `c08_first_read_file` (`a.t`), `c08_first_read_dep_file` (`b.t`: the state
-- after reading `m/a.t`), `c08_failure_file` (`c.t`), `c08_remove_resets_file` (`a.t`, before and after it was made)
example : PlainKey kA ∧ PlainKey kB ∧ PlainKey kC := by decide
example : File.contains [['s']] f0.sub kA = .ok false ∧ fileWritable [['s']] f0.sub kA = true := by decide
example : File.contains [['s']] f0.sub kB = .ok false ∧ keyName kB ≠ statusFile := by decide
example : metaRoot (fileOps [['s']]) cfg f0 [['m'], ['a', '.', 't']] = .ok { isDir := false, rm := recipeMeta (rec ['A'] ['a', '.', 't']) } := by decide
example : fileWritable [['s']] (bytesRoot cfg (getBytesF (fileOps [['s']]) cfg E (cfg.recipes.length + 1)) f0 [['m'], ['a', '.', 't']]).1.sub kB = true ∧
    File.isDir [['s']] (bytesRoot cfg (getBytesF (fileOps [['s']]) cfg E (cfg.recipes.length + 1)) f0 [['m'], ['a', '.', 't']]).1.sub kB = .ok false := by decide
example : E.evalQ ['B'] (storeExt kB qB) = some [2] := by decide
example : File.contains [['s']] f0.sub kC = .ok false ∧ fileWritable [['s']] f0.sub kC = true ∧ recipeDir cfg.recipes kC = false ∧
    keyName kC ≠ statusFile := by decide
example : fileWritable [['s']] f0.sub kA = true ∧ File.isDir [['s']] f0.sub kA = .ok false ∧ kA ≠ [] := by decide
example : fileWritable [['s']] (run (fileOps [['s']]) cfg E f0 [.getBytes kA]).sub kA = true ∧
    File.isDir [['s']] (run (fileOps [['s']]) cfg E f0 [.getBytes kA]).sub kA = .ok false := by decide
-- `c08_failure_missing_dependency_file`: a fourth recipe `d.t` that transforms the undeclared, absent key `m/zz`
def kD : Key := [['d', '.', 't']]
def qD : Query := .mk [.resource none [['m'], ['z', 'z']], .transform none [.mk ['g'] [] 0] (some ['d', '.', 't'])] false
def cfgD : Cfg := { root := [['m']], recipes := cfg.recipes ++ [(kD, rec ['D'] ['d', '.', 't'])] }
def ED : Env := { E with prs := fun t => if t = ['D'] then some qD else E.prs t }
example : cfgD.lookup kD = some (rec ['D'] ['d', '.', 't']) ∧ PlainKey kD ∧ keyName kD ≠ statusFile ∧ recipeDir cfgD.recipes kD = false ∧
    File.contains [['s']] f0.sub kD = .ok false ∧ fileWritable [['s']] f0.sub kD = true ∧
    metaRoot (fileOps [['s']]) cfgD f0 [['m'], ['z', 'z']] = .error .keyNotFound := by decide
example : ED.prs (rec ['D'] ['d', '.', 't']).query = some qD ∧
    qD.segments = .resource none [['m'], ['z', 'z']] :: [.transform none [.mk ['g'] [] 0] (some ['d', '.', 't'])] := ⟨rfl, rfl⟩
example : (getBytes (fileOps [['s']]) cfgD ED f0 kD).2 = .error .keyNotFound ∧ (getBytes (fileOps [['s']]) cfgD ED f0 kD).1.log = [] := by decide
-- the file store after the three reads: data where the recipe succeeded, metadata only where it failed
example : (run (fileOps [['s']]) cfg E f0 [.getBytes kB, .getBytes kC, .remove kA, .getBytes kA]).log = [kA, kC, kB, kA] := by decide
-- `quiet`: a history of metadata reads and reads of present keys
example : quiet memOps cfg E (run memOps cfg E s0 [.getBytes kA]) [.getBytes kA, .getMeta kB, .keys] := by
  refine ⟨by decide, by decide, by decide, trivial⟩
-- relative resolution
example : plainPath [['m'], ['d']] = true := by decide
example : (Query.mk [.resource none [dotdot, ['x']], .transform none [] (some ['y'])] false).toAbsolute [['m'], ['d']] (some []) =
    some (Query.mk [.resource none [['m'], ['x']], .transform none [] (some ['y'])] false) := rfl

end Ex

end Liquer.C08

-- OBLIGATIONS: Liquer.C08.c08_declared_visible Liquer.C08.c08_declared_fields Liquer.C08.c08_first_read Liquer.C08.c08_first_read_dep Liquer.C08.first_read_core Liquer.C08.c08_no_reevaluation_step Liquer.C08.c08_no_reevaluation Liquer.C08.c08_no_reevaluation_quiet Liquer.C08.c08_remove_resets Liquer.C08.c08_failure Liquer.C08.c08_failure_missing_dependency Liquer.C08.failure_core Liquer.C08.c08_relative Liquer.C08.c08_relative_posix Liquer.C08.first_read_core_file Liquer.C08.c08_first_read_file Liquer.C08.c08_first_read_dep_file Liquer.C08.c08_remove_resets_file Liquer.C08.failure_core_file Liquer.C08.c08_failure_file Liquer.C08.c08_failure_missing_dependency_file
