/-
C16 — A crash during a file-backed write never leaves a corrupt readable entry.

Model: `LiquerModel/CrashSteps.lean` (the step lists of the code **as fixed by D6a, D6b, D17**).
Every theorem quantifies over every initial directory content, every crash point `n` (number of completed
steps), every `cut` (bytes of the next write that reached the disk) and payloads of any length; decoders
are only assumed to accept the complete payloads of the state being written.
-/
import LiquerProofs.Lemmas.CrashFlat
import LiquerProofs.Lemmas.CrashTree
import LiquerProofs.Lemmas.CacheXor

namespace Liquer.C16
open Liquer Liquer.Crash

/-! ## the file cache and its obfuscating / encrypting variants (any codec) -/

/-- **`FileCache.store`**: after a crash anywhere inside the operation a fresh cache reads, for the key being
written, the previous entry (`get` and `get_metadata` exactly as before), nothing, or the complete new entry -/
theorem c16_filecache_store (c : FileCfg) (d : CDir) (st : CState) (ok : CodecAt c st) (n cut : Nat) :
    let r := readC c (crashAt execC n cut (storeStepsC c d st) d) st.metadata.query
    r = readC c d st.metadata.query ∨ r = (none, none) ∨
    r = (some { metadata := { st.metadata with status := ready }, data := st.data }, some { st.metadata with status := ready }) :=
  store_crash c d st ok n cut

/-- **`FileCache.store_metadata`**: the previous entry or the entry with the new metadata (the data file is never touched) -/
theorem c16_filecache_storeMeta (c : FileCfg) (d : CDir) (m : CMeta) (n cut : Nat) :
    let r := readC c (crashAt execC n cut (storeMetaStepsC c m) d) m.query
    r = readC c d m.query ∨ r = readC c (FileC.storeMeta c d m) m.query :=
  storeMeta_crash c d m n cut

/-- **`FileCache.remove`**: the previous entry or nothing -/
theorem c16_filecache_remove (c : FileCfg) (d : CDir) (k : Str) (n cut : Nat) :
    let r := readC c (crashAt execC n cut (removeStepsC c d k) d) k
    r = readC c d k ∨ r = (none, none) :=
  remove_crash c d k n cut

/-- **other entries are unaffected** by a crash inside `store` (digest of the other key differs: md5 injective on the universe) -/
theorem c16_filecache_store_frame (c : FileCfg) (d : CDir) (st : CState) (k' : Str) (hne : c.h k' ≠ c.h st.metadata.query) (n cut : Nat) :
    readC c (crashAt execC n cut (storeStepsC c d st) d) k' = readC c d k' :=
  frame_of_names c _ _ k' hne (storeStepsC_names c d st) n cut d

theorem c16_filecache_storeMeta_frame (c : FileCfg) (d : CDir) (m : CMeta) (k' : Str) (hne : c.h k' ≠ c.h m.query) (n cut : Nat) :
    readC c (crashAt execC n cut (storeMetaStepsC c m) d) k' = readC c d k' :=
  frame_of_names c _ _ k' hne (writeFileC_names _ _ _ (by simp [ofKey])) n cut d

theorem c16_filecache_remove_frame (c : FileCfg) (d : CDir) (k k' : Str) (hne : c.h k' ≠ c.h k) (n cut : Nat) :
    readC c (crashAt execC n cut (removeStepsC c d k) d) k' = readC c d k' :=
  frame_of_names c _ _ k' hne (removeStepsC_names c d k) n cut d

/-- `XORFileCache`: the XOR codec with a non-empty key satisfies the codec law, so the theorems above apply -/
theorem c16_xor (c : FileCfg) (code : Data) (hne : code ≠ []) (hM : ∀ m, c.deM (c.serM m) = some m)
    (hD : ∀ t v, c.deD t (c.serD t v) = some v) :
    CodecOK { c with enc := xorEnc code, dec := fun b => some (xorEnc code b) } :=
  ⟨fun b => by simp [xor_involutive code b hne], hM, hD⟩

/-- `FernetFileCache`: Fernet enters only through `decrypt (encrypt b) = b` -/
theorem c16_fernet (c : FileCfg) (encrypt : Data → Data) (decrypt : Data → Option Data) (hF : ∀ b, decrypt (encrypt b) = some b)
    (hM : ∀ m, c.deM (c.serM m) = some m) (hD : ∀ t v, c.deD t (c.serD t v) = some v) :
    CodecOK { c with enc := encrypt, dec := decrypt } :=
  ⟨hF, hM, hD⟩

/-! ## the directory store -/

/-- **`FileStore.store`**: `get_bytes` yields the previous bytes or the complete new bytes, the recorded metadata
is the previous one, none, or the complete new one — and new bytes are never paired with the previous
metadata nor new metadata with the previous bytes -/
theorem c16_filestore_store (t : Tree) (k : Key) (b mb : Data) (n cut : Nat) :
    let t' := crashAt execT n cut (storeStepsT t k b mb) t
    (readBytesT t' k = readBytesT t k ∧ readMetaT t' k = readMetaT t k) ∨
    (readBytesT t' k = readBytesT t k ∧ readMetaT t' k = none) ∨
    (readBytesT t' k = some b ∧ readMetaT t' k = none) ∨
    (readBytesT t' k = some b ∧ readMetaT t' k = some mb) := by
  intro t'
  simp only [readBytesT_eq, readMetaT_eq]
  rcases store_pair t k b mb n cut with h | h | h | h <;> simp only [t'] at h ⊢
  · left; rw [h]; exact ⟨rfl, rfl⟩
  · right; left; rw [h]
    cases h1 : (pairT t k).1 with
    | none => cases h2 : (pairT t k).2 <;> simp_all [bytesOf, metaOf, pairT]
    | some x => cases x <;> cases h2 : (pairT t k).2 <;> simp_all [bytesOf, metaOf, pairT]
  · right; right; left; rw [h]; exact ⟨rfl, rfl⟩
  · right; right; right; rw [h]; exact ⟨rfl, rfl⟩

/-- **`FileStore.store_metadata`**: the bytes are untouched; the metadata is the previous or the complete new one
(or none, when the key is a directory) -/
theorem c16_filestore_storeMeta (t : Tree) (k : Key) (mb : Data) (n cut : Nat) :
    let t' := crashAt execT n cut (storeMetaStepsT t k mb) t
    readBytesT t' k = readBytesT t k ∧
    (readMetaT t' k = readMetaT t k ∨ readMetaT t' k = some mb ∨ readMetaT t' k = none) := by
  intro t'
  simp only [readBytesT_eq, readMetaT_eq]
  rcases storeMeta_pair t k mb n cut with h | h <;> simp only [t'] at h ⊢ <;> rw [h]
  · exact ⟨rfl, Or.inl rfl⟩
  · cases h1 : (pairT t k).1 with
    | none => simp_all [bytesOf, metaOf, pairT]
    | some x => cases x <;> simp_all [bytesOf, metaOf, pairT]

/-- **`FileStore.remove`**: bytes and metadata are each the previous ones or gone -/
theorem c16_filestore_remove (t : Tree) (k : Key) (n cut : Nat) :
    let t' := crashAt execT n cut (removeStepsT t k) t
    (readBytesT t' k = readBytesT t k ∨ readBytesT t' k = none) ∧
    (readMetaT t' k = readMetaT t k ∨ readMetaT t' k = none ∨ readMetaT t' k = metaOf (none, (pairT t k).2)) := by
  intro t'
  simp only [readBytesT_eq, readMetaT_eq]
  rcases remove_pair t k n cut with h | h | h <;> simp only [t'] at h ⊢ <;> rw [h]
  · exact ⟨Or.inl rfl, Or.inl rfl⟩
  · exact ⟨Or.inr rfl, Or.inr (Or.inr rfl)⟩
  · exact ⟨Or.inr rfl, Or.inr (Or.inl rfl)⟩

/-- **other entries are unaffected**: any key other than `k` and the directories above `k` -/
theorem c16_filestore_frame (t : Tree) (k k' : Key) (b mb : Data) (hne : k' ≠ k) (hanc : k' ∉ ancestors k) (n cut : Nat) :
    (readBytesT (crashAt execT n cut (storeStepsT t k b mb) t) k' = readBytesT t k' ∧
      readMetaT (crashAt execT n cut (storeStepsT t k b mb) t) k' = readMetaT t k') ∧
    (readBytesT (crashAt execT n cut (storeMetaStepsT t k mb) t) k' = readBytesT t k' ∧
      readMetaT (crashAt execT n cut (storeMetaStepsT t k mb) t) k' = readMetaT t k') ∧
    (readBytesT (crashAt execT n cut (removeStepsT t k) t) k' = readBytesT t k' ∧
      readMetaT (crashAt execT n cut (removeStepsT t k) t) k' = readMetaT t k') := by
  simp only [readBytesT_eq, readMetaT_eq,
    frame_pair _ k k' hne hanc (storeStepsT_names t k b mb) n cut t,
    frame_pair _ k k' hne hanc (storeMetaStepsT_names t k mb) n cut t,
    frame_pair _ k k' hne hanc (removeStepsT_names t k) n cut t, and_self]

/-! ## the store-backed cache on a directory store (`p = to_path(key)`) -/

/-- **`StoreCache.store` on a `FileStore`**: the previous state, a miss, or the complete new state -/
theorem c16_storecache_on_filestore_store (deM : Data → Option CMeta) (deD : Str → Data → Option (Option Str))
    (t : Tree) (p : Key) (b mb : Data) (m : CMeta) (v : Option Str)
    (hm : deM mb = some m) (hr : m.status = ready) (hv : deD m.typeId b = some v) (n cut : Nat) :
    let r := readSC deM deD (crashAt execT n cut (storeStepsT t p b mb) t) p
    r = readSC deM deD t p ∨ r = none ∨ r = some { metadata := m, data := v } := by
  intro r
  simp only [r, readSC_eq]
  rcases store_pair t p b mb n cut with h | h | h | h <;> rw [h]
  · exact Or.inl rfl
  · right; left
    cases h1 : (pairT t p).1 with
    | none => rfl
    | some x => cases x <;> rfl
  · right; left; rfl
  · right; right; simp [scOf, hm, hr, hv]

/-- **`StoreCache.store_metadata`**: the previous state, or what the complete operation yields -/
theorem c16_storecache_on_filestore_storeMeta (deM : Data → Option CMeta) (deD : Str → Data → Option (Option Str))
    (t : Tree) (p : Key) (mb : Data) (n cut : Nat) :
    let r := readSC deM deD (crashAt execT n cut (storeMetaStepsT t p mb) t) p
    r = readSC deM deD t p ∨ r = scOf deM deD ((pairT t p).1, some (.file mb)) := by
  intro r
  simp only [r, readSC_eq]
  rcases storeMeta_pair t p mb n cut with h | h <;> rw [h]
  · exact Or.inl rfl
  · exact Or.inr rfl

/-- **`StoreCache.remove`**: the previous state or a miss -/
theorem c16_storecache_on_filestore_remove (deM : Data → Option CMeta) (deD : Str → Data → Option (Option Str))
    (t : Tree) (p : Key) (n cut : Nat) :
    let r := readSC deM deD (crashAt execT n cut (removeStepsT t p) t) p
    r = readSC deM deD t p ∨ r = none := by
  intro r
  simp only [r, readSC_eq]
  rcases remove_pair t p n cut with h | h | h <;> rw [h]
  · exact Or.inl rfl
  · exact Or.inr rfl
  · exact Or.inr rfl

theorem c16_storecache_on_filestore_frame (deM : Data → Option CMeta) (deD : Str → Data → Option (Option Str))
    (t : Tree) (p p' : Key) (b mb : Data) (hne : p' ≠ p) (hanc : p' ∉ ancestors p) (n cut : Nat) :
    readSC deM deD (crashAt execT n cut (storeStepsT t p b mb) t) p' = readSC deM deD t p' ∧
    readSC deM deD (crashAt execT n cut (storeMetaStepsT t p mb) t) p' = readSC deM deD t p' ∧
    readSC deM deD (crashAt execT n cut (removeStepsT t p) t) p' = readSC deM deD t p' := by
  simp only [readSC_eq,
    frame_pair _ p p' hne hanc (storeStepsT_names t p b mb) n cut t,
    frame_pair _ p p' hne hanc (storeMetaStepsT_names t p mb) n cut t,
    frame_pair _ p p' hne hanc (removeStepsT_names t p) n cut t, and_self]

/-! ## non-vacuity and concrete crash points -/

/-- a configuration whose decoders accept the complete payloads of one state (and *every* prefix of them: nothing is rejected) -/
def demoCfg (st : CState) : FileCfg :=
  { h := id, ext := id, enc := id, dec := some, serM := fun _ => [1, 2, 3], deM := fun _ => some { st.metadata with status := ready },
    serD := fun _ _ => [4, 5], deD := fun _ _ => some st.data }

example (st : CState) : CodecAt (demoCfg st) st := ⟨rfl, rfl⟩

def demoState : CState := { metadata := { query := ['k'], status := [], typeId := ['t'] }, data := some ['v'] }
def demoOld : CDir := [(.state ['k'], [9]), (.data ['k'] ['t'], [8])]

-- overwrite: the old entry is unpublished first; in the middle of the data write the key is a miss although the
-- decoder of `demoCfg` accepts any prefix
example : storeStepsC (demoCfg demoState) demoOld demoState =
    [.unlink (.state ['k']), .unlink (.data ['k'] ['t']), .create tmpC, .append tmpC [4, 5], .close tmpC, .rename tmpC (.data ['k'] ['t']),
     .create tmpC, .append tmpC [1, 2, 3], .close tmpC, .rename tmpC (.state ['k'])] := by decide
example : (readC (demoCfg demoState) (crashAt execC 3 1 (storeStepsC (demoCfg demoState) demoOld demoState) demoOld) ['k']).1 = none := by decide
example : (readC (demoCfg demoState) (crashAt execC 0 0 (storeStepsC (demoCfg demoState) demoOld demoState) demoOld) ['k']).1 ≠ none := by decide
example : (readC (demoCfg demoState) (crashAt execC 10 0 (storeStepsC (demoCfg demoState) demoOld demoState) demoOld) ['k']).1 =
    some { metadata := { demoState.metadata with status := ready }, data := some ['v'] } := by decide

/-- the protocol of the code *before* the fix (metadata published first, data file truncated in place) does serve a
truncated value: the statement of `c16_filecache_store` is false for it -/
def unfixedStoreSteps (c : FileCfg) (st : CState) : List (Step FName) :=
  let m := { st.metadata with status := ready }
  [.create (.state (c.h m.query)), .append (.state (c.h m.query)) (c.enc (c.serM m)), .close (.state (c.h m.query)),
   .create (.data (c.h m.query) (c.ext m.typeId)), .append (.data (c.h m.query) (c.ext m.typeId)) (c.enc (c.serD m.typeId st.data)),
   .close (.data (c.h m.query) (c.ext m.typeId))]

def prefixCfg : FileCfg :=
  { h := id, ext := id, enc := id, dec := some, serM := fun _ => [1], deM := fun b => if b = [1] then some { demoState.metadata with status := ready } else none,
    serD := fun _ _ => [4, 5], deD := fun _ b => some (some (b.map (fun x => Char.ofNat x.toNat))) }

example : (readC prefixCfg (crashAt execC 4 1 (unfixedStoreSteps prefixCfg demoState) []) ['k']).1 =
    some { metadata := { demoState.metadata with status := ready }, data := some [Char.ofNat 4] } := by decide

example : storeStepsT [] [['d'], ['f']] [7] [6] =
    [.mkdir (.node [['d']]), .mkdir (.metaDir [['d']]), .create (.tmp [['d']]), .append (.tmp [['d']]) [7], .close (.tmp [['d']]),
     .rename (.tmp [['d']]) (.node [['d'], ['f']]), .create (.tmp [['d']]), .append (.tmp [['d']]) [6], .close (.tmp [['d']]),
     .rename (.tmp [['d']]) (.mfile [['d'], ['f']])] := by decide
example : ([['a']] : Key) ≠ [['d'], ['f']] ∧ ([['a']] : Key) ∉ ancestors [['d'], ['f']] := by decide

end Liquer.C16

-- OBLIGATIONS: Liquer.C16.c16_filecache_store Liquer.C16.c16_filecache_storeMeta Liquer.C16.c16_filecache_remove Liquer.C16.c16_filecache_store_frame Liquer.C16.c16_filecache_storeMeta_frame Liquer.C16.c16_filecache_remove_frame Liquer.C16.c16_xor Liquer.C16.c16_fernet
-- OBLIGATIONS: Liquer.C16.c16_filestore_store Liquer.C16.c16_filestore_storeMeta Liquer.C16.c16_filestore_remove Liquer.C16.c16_filestore_frame
-- OBLIGATIONS: Liquer.C16.c16_storecache_on_filestore_store Liquer.C16.c16_storecache_on_filestore_storeMeta Liquer.C16.c16_storecache_on_filestore_remove Liquer.C16.c16_storecache_on_filestore_frame
