/-
C16 — A crash during a file-backed write never leaves a corrupt readable entry.

Model: `LiquerModel/CrashSteps.lean` (the step lists of the code **as fixed by D6a, D6b, D17**).
Every theorem quantifies over every initial directory content, every crash point `n` (number of completed
steps), every `cut` (bytes of the next write that reached the disk) and payloads of any length; decoders
are only assumed to accept the complete payloads of the state being written.

Two crash semantics:
* write-through (`crashAt`, sections 1-3): an `append` reaches the file at once; the crash cuts the next write;
* buffered (`crashBuf`, `LiquerModel/CrashBuf.lean`, section "buffered writes"): what was written to a file that is
  not closed yet sits in the buffer of the process; the kill loses an arbitrary suffix of it (any `keep`).
  `buffered_reads_as_writethrough` (generic in the executor): a protocol that closes every file before it renames
  it (`closedBeforeRename`) and leaves open files alone (`openUndisturbed`) holds, at every name that is not open
  at the kill, what the write-through crash at the same point leaves there.  All fixed writers are such protocols
  (`protocols_close_before_rename`, `protocols_open_undisturbed`), only temporaries are ever open
  (`protocols_open_only_temporaries`) and no reader looks at a temporary, so every `c16_*` theorem holds for the
  buffered crash as well (`c16_*_buffered`).  The step list of seeded change C16-2 (`os.replace` inside the `with`
  block) fails `closedBeforeRename` and publishes an empty file (`c16_unflushed_rename_publishes_empty`).
-/
import LiquerProofs.Lemmas.CrashFlat
import LiquerProofs.Lemmas.CrashTree
import LiquerProofs.Lemmas.CacheXor
import LiquerProofs.Lemmas.CrashBuf

namespace Liquer.C16
open Liquer Liquer.Crash

/-! ## the file cache and its obfuscating / encrypting variants (any codec) -/

/-- **`FileCache.store`**: after a crash anywhere inside the operation a fresh cache reads, for the key being
written, the previous entry (`get` and `get_metadata` exactly as before), nothing, or the complete new entry -/
theorem c16_filecache_store (c : FileCfg) (d : CDir) (st : CState) (ok : CodecAt c st) (n cut : Nat) :
    let r := readC c (crashAt execC n cut (storeStepsC c d st) d) st.metadata.query
    r = readC c d st.metadata.query ∨ r = (none, none) ∨
    r = (some { metadata := { st.metadata with status := ready }, data := st.data }, some { st.metadata with status := ready }) :=
  store_crash c d st ok n cut

/-- **`FileCache.store_metadata`**: the previous entry or the entry with the new metadata (the data file is never touched) -/
theorem c16_filecache_storeMeta (c : FileCfg) (d : CDir) (m : CMeta) (n cut : Nat) :
    let r := readC c (crashAt execC n cut (storeMetaStepsC c m) d) m.query
    r = readC c d m.query ∨ r = readC c (FileC.storeMeta c d m) m.query :=
  storeMeta_crash c d m n cut

/-- **`FileCache.remove`**: the previous entry or nothing -/
theorem c16_filecache_remove (c : FileCfg) (d : CDir) (k : Str) (n cut : Nat) :
    let r := readC c (crashAt execC n cut (removeStepsC c d k) d) k
    r = readC c d k ∨ r = (none, none) :=
  remove_crash c d k n cut

/-- **two crashes in a row** (flat cache directory): a `remove` that died anywhere, then a `store` that died anywhere (its steps
computed from the directory the first crash left): the ORIGINAL entry, nothing, or the complete new entry -/
theorem c16_filecache_two_crashes (c : FileCfg) (d : CDir) (st : CState) (ok : CodecAt c st) (n1 cut1 n2 cut2 : Nat) :
    let d1 := crashAt execC n1 cut1 (removeStepsC c d st.metadata.query) d
    let r := readC c (crashAt execC n2 cut2 (storeStepsC c d1 st) d1) st.metadata.query
    r = readC c d st.metadata.query ∨ r = (none, none) ∨
    r = (some { metadata := { st.metadata with status := ready }, data := st.data }, some { st.metadata with status := ready }) := by
  intro d1 r
  have h1 := c16_filecache_remove c d st.metadata.query n1 cut1
  have h2 := c16_filecache_store c d1 st ok n2 cut2
  simp only at h1 h2
  rcases h2 with h2 | h2 | h2
  · rcases h1 with h1 | h1
    · exact Or.inl (h2.trans h1)
    · exact Or.inr (Or.inl (h2.trans h1))
  · exact Or.inr (Or.inl h2)
  · exact Or.inr (Or.inr h2)

/-- **other entries are unaffected** by a crash inside `store` (digest of the other key differs: md5 injective on the universe) -/
theorem c16_filecache_store_frame (c : FileCfg) (d : CDir) (st : CState) (k' : Str) (hne : c.h k' ≠ c.h st.metadata.query) (n cut : Nat) :
    readC c (crashAt execC n cut (storeStepsC c d st) d) k' = readC c d k' :=
  frame_of_names c _ _ k' hne (storeStepsC_names c d st) n cut d

theorem c16_filecache_storeMeta_frame (c : FileCfg) (d : CDir) (m : CMeta) (k' : Str) (hne : c.h k' ≠ c.h m.query) (n cut : Nat) :
    readC c (crashAt execC n cut (storeMetaStepsC c m) d) k' = readC c d k' :=
  frame_of_names c _ _ k' hne (writeFileC_names _ _ _ (by simp [ofKey])) n cut d

theorem c16_filecache_remove_frame (c : FileCfg) (d : CDir) (k k' : Str) (hne : c.h k' ≠ c.h k) (n cut : Nat) :
    readC c (crashAt execC n cut (removeStepsC c d k) d) k' = readC c d k' :=
  frame_of_names c _ _ k' hne (removeStepsC_names c d k) n cut d

/-- `XORFileCache`: the XOR codec with a non-empty key satisfies the codec law, so the theorems above apply -/
theorem c16_xor (c : FileCfg) (code : Data) (hne : code ≠ []) (hM : ∀ m, c.deM (c.serM m) = some m)
    (hD : ∀ t v, c.deD t (c.serD t v) = some v) :
    CodecOK { c with enc := xorEnc code, dec := fun b => some (xorEnc code b) } :=
  ⟨fun b => by simp [xor_involutive code b hne], hM, hD⟩

/-- `FernetFileCache`: Fernet enters only through `decrypt (encrypt b) = b` -/
theorem c16_fernet (c : FileCfg) (encrypt : Data → Data) (decrypt : Data → Option Data) (hF : ∀ b, decrypt (encrypt b) = some b)
    (hM : ∀ m, c.deM (c.serM m) = some m) (hD : ∀ t v, c.deD t (c.serD t v) = some v) :
    CodecOK { c with enc := encrypt, dec := decrypt } :=
  ⟨hF, hM, hD⟩

/-! ## the directory store -/

/-- **`FileStore.store`**: `get_bytes` yields the previous bytes or the complete new bytes, the recorded metadata
is the previous one, none, or the complete new one — and new bytes are never paired with the previous
metadata nor new metadata with the previous bytes -/
theorem c16_filestore_store (t : Tree) (k : Key) (b mb : Data) (n cut : Nat) :
    let t' := crashAt execT n cut (storeStepsT t k b mb) t
    (readBytesT t' k = readBytesT t k ∧ readMetaT t' k = readMetaT t k) ∨
    (readBytesT t' k = readBytesT t k ∧ readMetaT t' k = none) ∨
    (readBytesT t' k = some b ∧ readMetaT t' k = none) ∨
    (readBytesT t' k = some b ∧ readMetaT t' k = some mb) := by
  intro t'
  simp only [readBytesT_eq, readMetaT_eq]
  rcases store_pair t k b mb n cut with h | h | h | h <;> simp only [t'] at h ⊢
  · left; rw [h]; exact ⟨rfl, rfl⟩
  · right; left; rw [h]
    cases h1 : (pairT t k).1 with
    | none => cases h2 : (pairT t k).2 <;> simp_all [bytesOf, metaOf, pairT]
    | some x => cases x <;> cases h2 : (pairT t k).2 <;> simp_all [bytesOf, metaOf, pairT]
  · right; right; left; rw [h]; exact ⟨rfl, rfl⟩
  · right; right; right; rw [h]; exact ⟨rfl, rfl⟩

/-- **`FileStore.store_metadata`**: the bytes are untouched; the metadata is the previous or the complete new one
(or none, when the key is a directory) -/
theorem c16_filestore_storeMeta (t : Tree) (k : Key) (mb : Data) (n cut : Nat) :
    let t' := crashAt execT n cut (storeMetaStepsT t k mb) t
    readBytesT t' k = readBytesT t k ∧
    (readMetaT t' k = readMetaT t k ∨ readMetaT t' k = some mb ∨ readMetaT t' k = none) := by
  intro t'
  simp only [readBytesT_eq, readMetaT_eq]
  rcases storeMeta_pair t k mb n cut with h | h <;> simp only [t'] at h ⊢ <;> rw [h]
  · exact ⟨rfl, Or.inl rfl⟩
  · cases h1 : (pairT t k).1 with
    | none => simp_all [bytesOf, metaOf, pairT]
    | some x => cases x <;> simp_all [bytesOf, metaOf, pairT]

/-- **`FileStore.remove`**: bytes and metadata are each the previous ones or gone -/
theorem c16_filestore_remove (t : Tree) (k : Key) (n cut : Nat) :
    let t' := crashAt execT n cut (removeStepsT t k) t
    (readBytesT t' k = readBytesT t k ∨ readBytesT t' k = none) ∧
    (readMetaT t' k = readMetaT t k ∨ readMetaT t' k = none ∨ readMetaT t' k = metaOf (none, (pairT t k).2)) := by
  intro t'
  simp only [readBytesT_eq, readMetaT_eq]
  rcases remove_pair t k n cut with h | h | h <;> simp only [t'] at h ⊢ <;> rw [h]
  · exact ⟨Or.inl rfl, Or.inl rfl⟩
  · exact ⟨Or.inr rfl, Or.inr (Or.inr rfl)⟩
  · exact ⟨Or.inr rfl, Or.inr (Or.inl rfl)⟩

/-- **other entries are unaffected**: any key other than `k` and the directories above `k` -/
theorem c16_filestore_frame (t : Tree) (k k' : Key) (b mb : Data) (hne : k' ≠ k) (hanc : k' ∉ ancestors k) (n cut : Nat) :
    (readBytesT (crashAt execT n cut (storeStepsT t k b mb) t) k' = readBytesT t k' ∧
      readMetaT (crashAt execT n cut (storeStepsT t k b mb) t) k' = readMetaT t k') ∧
    (readBytesT (crashAt execT n cut (storeMetaStepsT t k mb) t) k' = readBytesT t k' ∧
      readMetaT (crashAt execT n cut (storeMetaStepsT t k mb) t) k' = readMetaT t k') ∧
    (readBytesT (crashAt execT n cut (removeStepsT t k) t) k' = readBytesT t k' ∧
      readMetaT (crashAt execT n cut (removeStepsT t k) t) k' = readMetaT t k') := by
  simp only [readBytesT_eq, readMetaT_eq,
    frame_pair _ k k' hne hanc (storeStepsT_names t k b mb) n cut t,
    frame_pair _ k k' hne hanc (storeMetaStepsT_names t k mb) n cut t,
    frame_pair _ k k' hne hanc (removeStepsT_names t k) n cut t, and_self]

/-! ## the store-backed cache on a directory store (`p = to_path(key)`) -/

/-- **`StoreCache.store` on a `FileStore`**: the previous state, a miss, or the complete new state -/
theorem c16_storecache_on_filestore_store (deM : Data → Option CMeta) (deD : Str → Data → Option (Option Str))
    (t : Tree) (p : Key) (b mb : Data) (m : CMeta) (v : Option Str)
    (hm : deM mb = some m) (hr : m.status = ready) (hv : deD m.typeId b = some v) (n cut : Nat) :
    let r := readSC deM deD (crashAt execT n cut (storeStepsT t p b mb) t) p
    r = readSC deM deD t p ∨ r = none ∨ r = some { metadata := m, data := v } := by
  intro r
  simp only [r, readSC_eq]
  rcases store_pair t p b mb n cut with h | h | h | h <;> rw [h]
  · exact Or.inl rfl
  · right; left
    cases h1 : (pairT t p).1 with
    | none => rfl
    | some x => cases x <;> rfl
  · right; left; rfl
  · right; right; simp [scOf, hm, hr, hv]

/-- **`StoreCache.store_metadata`**: the previous state, or what the complete operation yields -/
theorem c16_storecache_on_filestore_storeMeta (deM : Data → Option CMeta) (deD : Str → Data → Option (Option Str))
    (t : Tree) (p : Key) (mb : Data) (n cut : Nat) :
    let r := readSC deM deD (crashAt execT n cut (storeMetaStepsT t p mb) t) p
    r = readSC deM deD t p ∨ r = scOf deM deD ((pairT t p).1, some (.file mb)) := by
  intro r
  simp only [r, readSC_eq]
  rcases storeMeta_pair t p mb n cut with h | h <;> rw [h]
  · exact Or.inl rfl
  · exact Or.inr rfl

/-- **`StoreCache.remove`**: the previous state or a miss -/
theorem c16_storecache_on_filestore_remove (deM : Data → Option CMeta) (deD : Str → Data → Option (Option Str))
    (t : Tree) (p : Key) (n cut : Nat) :
    let r := readSC deM deD (crashAt execT n cut (removeStepsT t p) t) p
    r = readSC deM deD t p ∨ r = none := by
  intro r
  simp only [r, readSC_eq]
  rcases remove_pair t p n cut with h | h | h <;> rw [h]
  · exact Or.inl rfl
  · exact Or.inr rfl
  · exact Or.inr rfl

/-- **two crashes in a row**: a `remove` that died at any point (`n1`, `cut1`) followed by a `store` that died at any point
(`n2`, `cut2`) — the store computes its steps from the tree the first crash left.  A fresh reader gets the ORIGINAL entry, a miss, or
the complete new state; never new data beside the old metadata.  (The theorems above hold from ANY tree, so crashes compose; this is
the scenario `store-after-crashed-remove` of the harness and the seeded change `C16-10`.) -/
theorem c16_storecache_on_filestore_two_crashes (deM : Data → Option CMeta) (deD : Str → Data → Option (Option Str))
    (t : Tree) (p : Key) (b mb : Data) (m : CMeta) (v : Option Str)
    (hm : deM mb = some m) (hr : m.status = ready) (hv : deD m.typeId b = some v) (n1 cut1 n2 cut2 : Nat) :
    let t1 := crashAt execT n1 cut1 (removeStepsT t p) t
    let r := readSC deM deD (crashAt execT n2 cut2 (storeStepsT t1 p b mb) t1) p
    r = readSC deM deD t p ∨ r = none ∨ r = some { metadata := m, data := v } := by
  intro t1 r
  have h1 := c16_storecache_on_filestore_remove deM deD t p n1 cut1
  have h2 := c16_storecache_on_filestore_store deM deD t1 p b mb m v hm hr hv n2 cut2
  simp only at h1 h2
  rcases h2 with h2 | h2 | h2
  · rcases h1 with h1 | h1
    · exact Or.inl (h2.trans h1)
    · exact Or.inr (Or.inl (h2.trans h1))
  · exact Or.inr (Or.inl h2)
  · exact Or.inr (Or.inr h2)

theorem c16_storecache_on_filestore_frame (deM : Data → Option CMeta) (deD : Str → Data → Option (Option Str))
    (t : Tree) (p p' : Key) (b mb : Data) (hne : p' ≠ p) (hanc : p' ∉ ancestors p) (n cut : Nat) :
    readSC deM deD (crashAt execT n cut (storeStepsT t p b mb) t) p' = readSC deM deD t p' ∧
    readSC deM deD (crashAt execT n cut (storeMetaStepsT t p mb) t) p' = readSC deM deD t p' ∧
    readSC deM deD (crashAt execT n cut (removeStepsT t p) t) p' = readSC deM deD t p' := by
  simp only [readSC_eq,
    frame_pair _ p p' hne hanc (storeStepsT_names t p b mb) n cut t,
    frame_pair _ p p' hne hanc (storeMetaStepsT_names t p mb) n cut t,
    frame_pair _ p p' hne hanc (removeStepsT_names t p) n cut t, and_self]

/-! ## non-vacuity and concrete crash points -/

/-- a configuration whose decoders accept the complete payloads of one state (and *every* prefix of them: nothing is rejected) -/
def demoCfg (st : CState) : FileCfg :=
  { h := id, ext := id, enc := id, dec := some, serM := fun _ => [1, 2, 3], deM := fun _ => some { st.metadata with status := ready },
    serD := fun _ _ => [4, 5], deD := fun _ _ => some st.data }

example (st : CState) : CodecAt (demoCfg st) st := ⟨rfl, rfl⟩

def demoState : CState := { metadata := { query := ['k'], status := [], typeId := ['t'] }, data := some ['v'] }
def demoOld : CDir := [(.state ['k'], [9]), (.data ['k'] ['t'], [8])]

-- overwrite: the old entry is unpublished first; in the middle of the data write the key is a miss although the
-- decoder of `demoCfg` accepts any prefix
example : storeStepsC (demoCfg demoState) demoOld demoState =
    [.unlink (.state ['k']), .unlink (.data ['k'] ['t']), .create tmpC, .append tmpC [4, 5], .close tmpC, .rename tmpC (.data ['k'] ['t']),
     .create tmpC, .append tmpC [1, 2, 3], .close tmpC, .rename tmpC (.state ['k'])] := by decide
example : (readC (demoCfg demoState) (crashAt execC 3 1 (storeStepsC (demoCfg demoState) demoOld demoState) demoOld) ['k']).1 = none := by decide
example : (readC (demoCfg demoState) (crashAt execC 0 0 (storeStepsC (demoCfg demoState) demoOld demoState) demoOld) ['k']).1 ≠ none := by decide
example : (readC (demoCfg demoState) (crashAt execC 10 0 (storeStepsC (demoCfg demoState) demoOld demoState) demoOld) ['k']).1 =
    some { metadata := { demoState.metadata with status := ready }, data := some ['v'] } := by decide

/-- the protocol of the code *before* the fix (metadata published first, data file truncated in place) does serve a
truncated value: the statement of `c16_filecache_store` is false for it -/
def unfixedStoreSteps (c : FileCfg) (st : CState) : List (Step FName) :=
  let m := { st.metadata with status := ready }
  [.create (.state (c.h m.query)), .append (.state (c.h m.query)) (c.enc (c.serM m)), .close (.state (c.h m.query)),
   .create (.data (c.h m.query) (c.ext m.typeId)), .append (.data (c.h m.query) (c.ext m.typeId)) (c.enc (c.serD m.typeId st.data)),
   .close (.data (c.h m.query) (c.ext m.typeId))]

def prefixCfg : FileCfg :=
  { h := id, ext := id, enc := id, dec := some, serM := fun _ => [1], deM := fun b => if b = [1] then some { demoState.metadata with status := ready } else none,
    serD := fun _ _ => [4, 5], deD := fun _ b => some (some (b.map (fun x => Char.ofNat x.toNat))) }

example : (readC prefixCfg (crashAt execC 4 1 (unfixedStoreSteps prefixCfg demoState) []) ['k']).1 =
    some { metadata := { demoState.metadata with status := ready }, data := some [Char.ofNat 4] } := by decide

example : storeStepsT [] [['d'], ['f']] [7] [6] =
    [.mkdir (.node [['d']]), .mkdir (.metaDir [['d']]), .create (.tmp [['d']]), .append (.tmp [['d']]) [7], .close (.tmp [['d']]),
     .rename (.tmp [['d']]) (.node [['d'], ['f']]), .create (.tmp [['d']]), .append (.tmp [['d']]) [6], .close (.tmp [['d']]),
     .rename (.tmp [['d']]) (.mfile [['d'], ['f']])] := by decide
example : ([['a']] : Key) ≠ [['d'], ['f']] ∧ ([['a']] : Key) ∉ ancestors [['d'], ['f']] := by decide

/-! ## buffered writes

The process buffers what it writes to a file until the file is closed; the kill after `n` steps loses, of every
file still open, an arbitrary suffix of what was written to it since its `create` (`keep p` bytes survive, for
any function `keep`).  A kill in the middle of a write is the kill after it with a smaller `keep`. -/

/-- **generic**: under the two protocol checks, a name that is not open after `n` steps holds after the buffered
crash what it holds after the write-through crash at the same point — whatever the kill loses -/
theorem buffered_reads_as_writethrough {ν φ β : Type} [DecidableEq ν] {exec : φ → Step ν → φ} {get : φ → ν → β}
    (L : FsLaws exec get) (steps : List (Step ν)) (hc : closedBeforeRename steps = true) (hu : openUndisturbed steps = true)
    (n : Nat) (keep : ν → Nat) (fs : φ) (p : ν) (hp : p ∉ openAt steps n) :
    get (crashBuf exec n keep steps fs) p = get (crashAt exec n 0 steps fs) p :=
  Crash.buffered_reads_as_writethrough L steps hc hu n keep fs p hp

/-- both concrete file systems satisfy the laws the generic theorem asks for -/
theorem buffered_laws : FsLaws execC (fun (d : CDir) (p : FName) => AL.get d p) ∧ FsLaws execT (fun (t : Tree) (p : SName) => AL.get t p) :=
  ⟨lawsC, lawsT⟩

/-- **every fixed writer closes its temporary file before it renames it** -/
theorem protocols_close_before_rename :
    (∀ target b, closedBeforeRename (writeFileC target b) = true) ∧
    (∀ c d st, closedBeforeRename (storeStepsC c d st) = true) ∧
    (∀ c m, closedBeforeRename (storeMetaStepsC c m) = true) ∧
    (∀ c d k, closedBeforeRename (removeStepsC c d k) = true) ∧
    (∀ t k b mb, closedBeforeRename (storeStepsT t k b mb) = true) ∧
    (∀ t k mb, closedBeforeRename (storeMetaStepsT t k mb) = true) ∧
    (∀ t k, closedBeforeRename (removeStepsT t k) = true) :=
  ⟨fun _ _ => (tidy_writeFileC _ _).cbr, fun _ _ _ => (tidy_storeStepsC _ _ _).cbr, fun _ _ => (tidy_storeMetaStepsC _ _).cbr,
   fun _ _ _ => (tidy_removeStepsC _ _ _).cbr, fun _ _ _ _ => (tidy_storeStepsT _ _ _ _).cbr,
   fun _ _ _ => (tidy_storeMetaStepsT _ _ _).cbr, fun _ _ => (tidy_removeStepsT _ _).cbr⟩

/-- ... and while a file is open, nothing but its own writes and its `close` mentions it -/
theorem protocols_open_undisturbed :
    (∀ target b, openUndisturbed (writeFileC target b) = true) ∧
    (∀ c d st, openUndisturbed (storeStepsC c d st) = true) ∧
    (∀ c m, openUndisturbed (storeMetaStepsC c m) = true) ∧
    (∀ c d k, openUndisturbed (removeStepsC c d k) = true) ∧
    (∀ t k b mb, openUndisturbed (storeStepsT t k b mb) = true) ∧
    (∀ t k mb, openUndisturbed (storeMetaStepsT t k mb) = true) ∧
    (∀ t k, openUndisturbed (removeStepsT t k) = true) :=
  ⟨fun _ _ => (tidy_writeFileC _ _).und, fun _ _ _ => (tidy_storeStepsC _ _ _).und, fun _ _ => (tidy_storeMetaStepsC _ _).und,
   fun _ _ _ => (tidy_removeStepsC _ _ _).und, fun _ _ _ _ => (tidy_storeStepsT _ _ _ _).und,
   fun _ _ _ => (tidy_storeMetaStepsT _ _ _).und, fun _ _ => (tidy_removeStepsT _ _).und⟩

/-- **temporaries are the only files ever open**, at every point of every fixed writer (and the readers `readC`,
`readBytesT`, `readMetaT`, `readSC` look at `state_*` / `data_*`, at `node` / `mfile` names only) -/
theorem protocols_open_only_temporaries (n : Nat) :
    (∀ c d st p, p ∈ openAt (storeStepsC c d st) n → isTmpC p) ∧
    (∀ c m p, p ∈ openAt (storeMetaStepsC c m) n → isTmpC p) ∧
    (∀ c d k p, p ∈ openAt (removeStepsC c d k) n → isTmpC p) ∧
    (∀ t k b mb p, p ∈ openAt (storeStepsT t k b mb) n → isTmpT p) ∧
    (∀ t k mb p, p ∈ openAt (storeMetaStepsT t k mb) n → isTmpT p) ∧
    (∀ t k p, p ∈ openAt (removeStepsT t k) n → isTmpT p) :=
  ⟨fun c d st p h => (tidy_storeStepsC c d st).creates p (openAt_creates _ (tidy_storeStepsC c d st).cbr n p h),
   fun c m p h => (tidy_storeMetaStepsC c m).creates p (openAt_creates _ (tidy_storeMetaStepsC c m).cbr n p h),
   fun c d k p h => (tidy_removeStepsC c d k).creates p (openAt_creates _ (tidy_removeStepsC c d k).cbr n p h),
   fun t k b mb p h => (tidy_storeStepsT t k b mb).creates p (openAt_creates _ (tidy_storeStepsT t k b mb).cbr n p h),
   fun t k mb p h => (tidy_storeMetaStepsT t k mb).creates p (openAt_creates _ (tidy_storeMetaStepsT t k mb).cbr n p h),
   fun t k p h => (tidy_removeStepsT t k).creates p (openAt_creates _ (tidy_removeStepsT t k).cbr n p h)⟩

/-! ### the file cache (and its XOR / Fernet variants: any codec), buffered -/

theorem c16_filecache_store_buffered (c : FileCfg) (d : CDir) (st : CState) (ok : CodecAt c st) (n : Nat) (keep : FName → Nat) :
    let r := readC c (crashBuf execC n keep (storeStepsC c d st) d) st.metadata.query
    r = readC c d st.metadata.query ∨ r = (none, none) ∨
    r = (some { metadata := { st.metadata with status := ready }, data := st.data }, some { st.metadata with status := ready }) := by
  intro r
  simp only [r, readC_buffered c _ (tidy_storeStepsC c d st)]
  exact c16_filecache_store c d st ok n 0

theorem c16_filecache_storeMeta_buffered (c : FileCfg) (d : CDir) (m : CMeta) (n : Nat) (keep : FName → Nat) :
    let r := readC c (crashBuf execC n keep (storeMetaStepsC c m) d) m.query
    r = readC c d m.query ∨ r = readC c (FileC.storeMeta c d m) m.query := by
  intro r
  simp only [r, readC_buffered c _ (tidy_storeMetaStepsC c m)]
  exact c16_filecache_storeMeta c d m n 0

theorem c16_filecache_remove_buffered (c : FileCfg) (d : CDir) (k : Str) (n : Nat) (keep : FName → Nat) :
    let r := readC c (crashBuf execC n keep (removeStepsC c d k) d) k
    r = readC c d k ∨ r = (none, none) := by
  intro r
  simp only [r, readC_buffered c _ (tidy_removeStepsC c d k)]
  exact c16_filecache_remove c d k n 0

/-- other entries are unaffected by a buffered crash inside `store`, `store_metadata`, `remove` -/
theorem c16_filecache_frame_buffered (c : FileCfg) (d : CDir) (n : Nat) (keep : FName → Nat) :
    (∀ st k', c.h k' ≠ c.h st.metadata.query → readC c (crashBuf execC n keep (storeStepsC c d st) d) k' = readC c d k') ∧
    (∀ m k', c.h k' ≠ c.h m.query → readC c (crashBuf execC n keep (storeMetaStepsC c m) d) k' = readC c d k') ∧
    (∀ k k', c.h k' ≠ c.h k → readC c (crashBuf execC n keep (removeStepsC c d k) d) k' = readC c d k') :=
  ⟨fun st k' hne => by rw [readC_buffered c _ (tidy_storeStepsC c d st)]; exact c16_filecache_store_frame c d st k' hne n 0,
   fun m k' hne => by rw [readC_buffered c _ (tidy_storeMetaStepsC c m)]; exact c16_filecache_storeMeta_frame c d m k' hne n 0,
   fun k k' hne => by rw [readC_buffered c _ (tidy_removeStepsC c d k)]; exact c16_filecache_remove_frame c d k k' hne n 0⟩

/-! ### the directory store, buffered -/

theorem c16_filestore_store_buffered (t : Tree) (k : Key) (b mb : Data) (n : Nat) (keep : SName → Nat) :
    let t' := crashBuf execT n keep (storeStepsT t k b mb) t
    (readBytesT t' k = readBytesT t k ∧ readMetaT t' k = readMetaT t k) ∨
    (readBytesT t' k = readBytesT t k ∧ readMetaT t' k = none) ∨
    (readBytesT t' k = some b ∧ readMetaT t' k = none) ∨
    (readBytesT t' k = some b ∧ readMetaT t' k = some mb) := by
  intro t'
  simp only [t', readBytesT_buffered _ (tidy_storeStepsT t k b mb), readMetaT_buffered _ (tidy_storeStepsT t k b mb)]
  exact c16_filestore_store t k b mb n 0

theorem c16_filestore_storeMeta_buffered (t : Tree) (k : Key) (mb : Data) (n : Nat) (keep : SName → Nat) :
    let t' := crashBuf execT n keep (storeMetaStepsT t k mb) t
    readBytesT t' k = readBytesT t k ∧
    (readMetaT t' k = readMetaT t k ∨ readMetaT t' k = some mb ∨ readMetaT t' k = none) := by
  intro t'
  simp only [t', readBytesT_buffered _ (tidy_storeMetaStepsT t k mb), readMetaT_buffered _ (tidy_storeMetaStepsT t k mb)]
  exact c16_filestore_storeMeta t k mb n 0

theorem c16_filestore_remove_buffered (t : Tree) (k : Key) (n : Nat) (keep : SName → Nat) :
    let t' := crashBuf execT n keep (removeStepsT t k) t
    (readBytesT t' k = readBytesT t k ∨ readBytesT t' k = none) ∧
    (readMetaT t' k = readMetaT t k ∨ readMetaT t' k = none ∨ readMetaT t' k = metaOf (none, (pairT t k).2)) := by
  intro t'
  simp only [t', readBytesT_buffered _ (tidy_removeStepsT t k), readMetaT_buffered _ (tidy_removeStepsT t k)]
  exact c16_filestore_remove t k n 0

theorem c16_filestore_frame_buffered (t : Tree) (k k' : Key) (b mb : Data) (hne : k' ≠ k) (hanc : k' ∉ ancestors k)
    (n : Nat) (keep : SName → Nat) :
    (readBytesT (crashBuf execT n keep (storeStepsT t k b mb) t) k' = readBytesT t k' ∧
      readMetaT (crashBuf execT n keep (storeStepsT t k b mb) t) k' = readMetaT t k') ∧
    (readBytesT (crashBuf execT n keep (storeMetaStepsT t k mb) t) k' = readBytesT t k' ∧
      readMetaT (crashBuf execT n keep (storeMetaStepsT t k mb) t) k' = readMetaT t k') ∧
    (readBytesT (crashBuf execT n keep (removeStepsT t k) t) k' = readBytesT t k' ∧
      readMetaT (crashBuf execT n keep (removeStepsT t k) t) k' = readMetaT t k') := by
  simp only [readBytesT_buffered _ (tidy_storeStepsT t k b mb), readMetaT_buffered _ (tidy_storeStepsT t k b mb),
    readBytesT_buffered _ (tidy_storeMetaStepsT t k mb), readMetaT_buffered _ (tidy_storeMetaStepsT t k mb),
    readBytesT_buffered _ (tidy_removeStepsT t k), readMetaT_buffered _ (tidy_removeStepsT t k)]
  exact c16_filestore_frame t k k' b mb hne hanc n 0

/-! ### the store-backed cache on a directory store, buffered -/

theorem c16_storecache_on_filestore_store_buffered (deM : Data → Option CMeta) (deD : Str → Data → Option (Option Str))
    (t : Tree) (p : Key) (b mb : Data) (m : CMeta) (v : Option Str)
    (hm : deM mb = some m) (hr : m.status = ready) (hv : deD m.typeId b = some v) (n : Nat) (keep : SName → Nat) :
    let r := readSC deM deD (crashBuf execT n keep (storeStepsT t p b mb) t) p
    r = readSC deM deD t p ∨ r = none ∨ r = some { metadata := m, data := v } := by
  intro r
  simp only [r, readSC_buffered deM deD _ (tidy_storeStepsT t p b mb)]
  exact c16_storecache_on_filestore_store deM deD t p b mb m v hm hr hv n 0

theorem c16_storecache_on_filestore_storeMeta_buffered (deM : Data → Option CMeta) (deD : Str → Data → Option (Option Str))
    (t : Tree) (p : Key) (mb : Data) (n : Nat) (keep : SName → Nat) :
    let r := readSC deM deD (crashBuf execT n keep (storeMetaStepsT t p mb) t) p
    r = readSC deM deD t p ∨ r = scOf deM deD ((pairT t p).1, some (.file mb)) := by
  intro r
  simp only [r, readSC_buffered deM deD _ (tidy_storeMetaStepsT t p mb)]
  exact c16_storecache_on_filestore_storeMeta deM deD t p mb n 0

theorem c16_storecache_on_filestore_remove_buffered (deM : Data → Option CMeta) (deD : Str → Data → Option (Option Str))
    (t : Tree) (p : Key) (n : Nat) (keep : SName → Nat) :
    let r := readSC deM deD (crashBuf execT n keep (removeStepsT t p) t) p
    r = readSC deM deD t p ∨ r = none := by
  intro r
  simp only [r, readSC_buffered deM deD _ (tidy_removeStepsT t p)]
  exact c16_storecache_on_filestore_remove deM deD t p n 0

theorem c16_storecache_on_filestore_frame_buffered (deM : Data → Option CMeta) (deD : Str → Data → Option (Option Str))
    (t : Tree) (p p' : Key) (b mb : Data) (hne : p' ≠ p) (hanc : p' ∉ ancestors p) (n : Nat) (keep : SName → Nat) :
    readSC deM deD (crashBuf execT n keep (storeStepsT t p b mb) t) p' = readSC deM deD t p' ∧
    readSC deM deD (crashBuf execT n keep (storeMetaStepsT t p mb) t) p' = readSC deM deD t p' ∧
    readSC deM deD (crashBuf execT n keep (removeStepsT t p) t) p' = readSC deM deD t p' := by
  simp only [readSC_buffered deM deD _ (tidy_storeStepsT t p b mb), readSC_buffered deM deD _ (tidy_storeMetaStepsT t p mb),
    readSC_buffered deM deD _ (tidy_removeStepsT t p)]
  exact c16_storecache_on_filestore_frame deM deD t p p' b mb hne hanc n 0

/-! ### the protocol that renames before it closes (seeded change C16-2), and non-vacuity -/

/-- `with open(tmp, "wb") as f: f.write(b); os.replace(tmp, target)` — the file is closed (flushed) under its final name -/
def renameInsideWith {ν : Type} (tmp target : ν) (b : Data) : List (Step ν) :=
  [.create tmp, .append tmp b, .rename tmp target, .close target]

def demoTree : Tree := [(.node [['f']], .file [1])]

/-- **negative witness**: the step list fails the check; every *completed* run and every *write-through* crash of it is
indistinguishable from the fixed writer, but the kill between the rename and the close, with the buffer lost, leaves
an **empty** file under the final name — `get_bytes` returns `b""`, neither the previous nor the new value -/
theorem c16_unflushed_rename_publishes_empty :
    closedBeforeRename (renameInsideWith (SName.tmp []) (.node [['f']]) [7, 8]) = false ∧
    readBytesT demoTree [['f']] = some [1] ∧
    readBytesT (crashBuf execT 3 (fun _ => 0) (renameInsideWith (.tmp []) (.node [['f']]) [7, 8]) demoTree) [['f']] = some [] ∧
    readBytesT (crashBuf execT 3 (fun _ => 1) (renameInsideWith (.tmp []) (.node [['f']]) [7, 8]) demoTree) [['f']] = some [7] ∧
    readBytesT (crashBuf execT 4 (fun _ => 0) (renameInsideWith (.tmp []) (.node [['f']]) [7, 8]) demoTree) [['f']] = some [7, 8] ∧
    (∀ cut, readBytesT (crashAt execT 3 cut (renameInsideWith (.tmp []) (.node [['f']]) [7, 8]) demoTree) [['f']] = some [7, 8]) := by
  refine ⟨by decide, by decide, by decide, by decide, by decide, fun cut => ?_⟩
  show readBytesT (crashAt execT 3 0 (renameInsideWith (.tmp []) (.node [['f']]) [7, 8]) demoTree) [['f']] = some [7, 8]
  decide

-- the same on the flat cache directory
example : closedBeforeRename (renameInsideWith tmpC (.state ['k']) [1, 2, 3]) = false := by decide
example : AL.get (crashBuf execC 3 (fun _ => 0) (renameInsideWith tmpC (.state ['k']) [1, 2, 3]) demoOld) (.state ['k']) = some [] := by decide

-- the fixed writer at the same points: the previous value until the rename, the new value after it
example : readBytesT (crashBuf execT 3 (fun _ => 0) (writeFileT [] (.node [['f']]) [7, 8]) demoTree) [['f']] = some [1] := by decide
example : readBytesT (crashBuf execT 4 (fun _ => 0) (writeFileT [] (.node [['f']]) [7, 8]) demoTree) [['f']] = some [7, 8] := by decide

-- non-vacuity of the hypotheses of `buffered_reads_as_writethrough`: a concrete protocol passes both checks, a file is
-- open in the middle of it, the names the reader looks at are not open
example : closedBeforeRename (storeStepsC (demoCfg demoState) demoOld demoState) = true ∧
    openUndisturbed (storeStepsC (demoCfg demoState) demoOld demoState) = true := by decide
example : openAt (storeStepsC (demoCfg demoState) demoOld demoState) 8 = [tmpC] := by decide
example : FName.state ['k'] ∉ openAt (storeStepsC (demoCfg demoState) demoOld demoState) 8 := by decide
-- ... and the hypothesis `p ∉ openAt steps n` is needed: at the open temporary file the two semantics differ
example : AL.get (crashBuf execC 8 (fun _ => 1) (storeStepsC (demoCfg demoState) demoOld demoState) demoOld) tmpC = some [1] := by decide
example : AL.get (crashAt execC 8 0 (storeStepsC (demoCfg demoState) demoOld demoState) demoOld) tmpC = some [1, 2, 3] := by decide
example : closedBeforeRename (storeStepsT [] [['d'], ['f']] [7] [6]) = true ∧ openUndisturbed (storeStepsT [] [['d'], ['f']] [7] [6]) = true := by decide
example : openAt (storeStepsT [] [['d'], ['f']] [7] [6]) 4 = [.tmp [['d']]] := by decide

end Liquer.C16

-- OBLIGATIONS: Liquer.C16.c16_filecache_store Liquer.C16.c16_filecache_storeMeta Liquer.C16.c16_filecache_remove Liquer.C16.c16_filecache_store_frame Liquer.C16.c16_filecache_storeMeta_frame Liquer.C16.c16_filecache_remove_frame Liquer.C16.c16_xor Liquer.C16.c16_fernet
-- OBLIGATIONS: Liquer.C16.c16_filestore_store Liquer.C16.c16_filestore_storeMeta Liquer.C16.c16_filestore_remove Liquer.C16.c16_filestore_frame
-- OBLIGATIONS: Liquer.C16.c16_storecache_on_filestore_store Liquer.C16.c16_storecache_on_filestore_storeMeta Liquer.C16.c16_storecache_on_filestore_remove Liquer.C16.c16_storecache_on_filestore_frame
-- OBLIGATIONS: Liquer.C16.buffered_reads_as_writethrough Liquer.C16.buffered_laws Liquer.C16.protocols_close_before_rename Liquer.C16.protocols_open_undisturbed Liquer.C16.protocols_open_only_temporaries Liquer.C16.c16_unflushed_rename_publishes_empty
-- OBLIGATIONS: Liquer.C16.c16_filecache_store_buffered Liquer.C16.c16_filecache_storeMeta_buffered Liquer.C16.c16_filecache_remove_buffered Liquer.C16.c16_filecache_frame_buffered
-- OBLIGATIONS: Liquer.C16.c16_filestore_store_buffered Liquer.C16.c16_filestore_storeMeta_buffered Liquer.C16.c16_filestore_remove_buffered Liquer.C16.c16_filestore_frame_buffered
-- OBLIGATIONS: Liquer.C16.c16_storecache_on_filestore_store_buffered Liquer.C16.c16_storecache_on_filestore_storeMeta_buffered Liquer.C16.c16_storecache_on_filestore_remove_buffered Liquer.C16.c16_storecache_on_filestore_frame_buffered Liquer.C16.c16_storecache_on_filestore_two_crashes Liquer.C16.c16_filecache_two_crashes
