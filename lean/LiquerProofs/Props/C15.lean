/-
C15 — Overlay store: copy-on-write view that never touches the fall-back.

Model: `overlayOps U L` (LiquerModel/StoreOverlay.lean) = `liquer.store.OverlayStore` with the proposed
fixes D5a-D5e.  State `(upper, lower, removed)`.

* `overlay_fallback_immutable*` — for ARBITRARY part models `U`, `L`, every state, every operation and
  every history: the fall-back component of the state is unchanged.
* `overlay_reads`, `overlay_write`, `overlay_refines_spec` — for specification parts (`specOps`, states
  `FS`): the *view* `view s k = if k ∈ removed then none else upper.get k <|> lower.get k` (shadow / mask);
  every read of the overlay is the specification's read of the view; every well-formed operation
  changes the view exactly as the specification store changes its file system (`stepF`: most recent
  write or removal wins, everything else keeps the fall-back's content); the invariant `Inv`
  (both parts trees, tomb-stoned keys absent from the upper part, root not tomb-stoned, view a tree)
  holds initially for every tree-shaped fall-back and is preserved; hence for every fall-back `fs₀`
  and every history well-formed for the specification store started at `fs₀` (`wfHist fs₀ h`), the
  overlay over `fs₀` is observationally the specification store run on a *copy* of `fs₀`.
-/
import LiquerProofs.Lemmas.StoreOverlay

namespace Liquer.C15
open Liquer Liquer.SV Liquer.OvL

/-! ### (i) the fall-back is never modified — arbitrary parts -/

/-- **No operation performed through the overlay modifies the fall-back store** (any part models). -/
theorem overlay_fallback_immutable {σu σl : Type} (U : StoreOps σu) (L : StoreOps σl)
    (s : σu × σl × List Key) (op : StoreOp) : ((overlayOps U L).step s op).2.1 = s.2.1 :=
  step_lower U L s op

/-- … also when the operation is reported as successful with a new state (no hidden write before an error) -/
theorem overlay_fallback_immutable_apply {σu σl : Type} (U : StoreOps σu) (L : StoreOps σl)
    (s s' : σu × σl × List Key) (op : StoreOp) (h : (overlayOps U L).apply s op = .ok s') : s'.2.1 = s.2.1 :=
  apply_lower U L s s' op h

/-- … lifted to every history. -/
theorem overlay_fallback_immutable_run {σu σl : Type} (U : StoreOps σu) (L : StoreOps σl)
    (s : σu × σl × List Key) (h : List StoreOp) : ((overlayOps U L).run s h).2.1 = s.2.1 :=
  run_lower U L h s

/-! ### (ii) reads and writes against the shadow/mask view — specification parts -/

abbrev O := overlayOps specOps specOps

/-- the initial state over a tree-shaped fall-back satisfies the invariant -/
theorem overlay_inv_init (fs₀ : FS) (h : fs₀.tree = true) : Inv (([] : FS), fs₀, ([] : List Key)) :=
  inv_init fs₀ (treeP_of_tree fs₀ h)

/-- the initial view is the fall-back's content -/
theorem overlay_view_init (fs₀ : FS) : view (([] : FS), fs₀, ([] : List Key)) = fs₀.get := by
  funext x; unfold view; simp [get_nil]

/-- **Every read reflects the view**: containment, directory flag, bytes, metadata are the specification's
reads of `view s`; the directory listing of `k` is, without repetition, the set of names `nm` with
`k/nm` present in the view; `keys()` is, without repetition, the set of keys present in the view. -/
theorem overlay_reads (s : S) (hi : Inv s) (k : Key) :
    O.contains s k = .ok (rdContains (view s) k) ∧
    O.isDir s k = .ok (rdIsDir (view s) k) ∧
    O.getBytes s k = rdBytes (view s) k ∧
    O.getMeta s k = rdMeta (view s) k ∧
    (∃ l, O.listdir s k = .ok (some l) ∧ l.Nodup ∧ ∀ nm, nm ∈ l ↔ (view s (k ++ [nm])).isSome = true) ∧
    (∃ ks, O.keys s = .ok ks ∧ ks.Nodup ∧ ∀ x, x ∈ ks ↔ (view s x).isSome = true) := by
  refine ⟨ov_contains hi k, ov_isDir hi k, ov_getBytes hi k, ov_getMeta' hi k, ?_, ov_keys hi⟩
  obtain ⟨l, h1, h2, h3⟩ := ov_listdir hi k
  refine ⟨l, ?_, h2, h3⟩
  show (match Ov.listdirL specOps specOps s k with | Except.error e => Except.error e | Except.ok l => Except.ok (some l)) = _
  rw [h1]

/-- the same, phrased against the specification store: if `fs` represents the view, the overlay and
`specOps` on `fs` answer the point reads identically -/
theorem overlay_reads_eq_spec (s : S) (hi : Inv s) (fs : FS) (hv : view s = fs.get) (k : Key) :
    O.contains s k = specOps.contains fs k ∧ O.isDir s k = specOps.isDir fs k ∧
    O.getBytes s k = specOps.getBytes fs k ∧ O.getMeta s k = specOps.getMeta fs k := by
  obtain ⟨h1, h2, h3, h4, _, _⟩ := overlay_reads s hi k
  rw [h1, h2, h3, h4, hv]
  exact ⟨rfl, rfl, rfl, rfl⟩

/-- **Every well-formed write updates the view as the specification store updates its content**, keeps the
invariant and the fall-back. -/
theorem overlay_write (s : S) (hi : Inv s) (op : StoreOp) (hw : WfF (view s) op) :
    view (O.step s op) = stepF (view s) op ∧ Inv (O.step s op) ∧ (O.step s op).2.1 = s.2.1 := by
  obtain ⟨h1, h2⟩ := ov_step hi op hw
  exact ⟨h1, h2, step_lower specOps specOps s op⟩

/-- … and is reported as successful -/
theorem overlay_write_ok (s : S) (hi : Inv s) (op : StoreOp) (hw : WfF (view s) op) :
    ∃ s', O.apply s op = .ok s' := by
  obtain ⟨s', h, _⟩ := ov_apply hi op hw
  exact ⟨s', h⟩

/-- `stepF` is what the specification store does (so "as the specification" above is literal) -/
theorem stepF_is_spec (fs : FS) (op : StoreOp) (ht : TreeP fs) (hw : wfOp fs op = true) :
    (specOps.step fs op).get = stepF fs.get op ∧ TreeP (specOps.step fs op) :=
  spec_step_get fs op ht (wfF_of_wfOp fs op hw)

/-! "most recent write or removal wins, otherwise the fall-back's content", spelled out -/

theorem overlay_store_wins (s : S) (hi : Inv s) (k : Key) (d : Data) (m : UMeta) (hw : WfF (view s) (.store k d m)) :
    O.getBytes (O.step s (.store k d m)) k = .ok d ∧ O.contains (O.step s (.store k d m)) k = .ok true := by
  obtain ⟨hv, hi', _⟩ := overlay_write s hi _ hw
  obtain ⟨h1, _, h3, _⟩ := overlay_reads _ hi' k
  rw [h1, h3, hv]
  simp [stepF, storeF, setF, rdBytes, rdContains]

theorem overlay_remove_wins (s : S) (hi : Inv s) (k : Key) (hw : WfF (view s) (.remove k)) :
    O.getBytes (O.step s (.remove k)) k = .error .keyNotFound ∧ O.contains (O.step s (.remove k)) k = .ok false := by
  obtain ⟨d, m, hk⟩ : ∃ d m, view s k = some (.file d m) := hw
  have hk0 : k ≠ [] := (hi.tree k _ hk).1
  obtain ⟨hv, hi', _⟩ := overlay_write s hi (.remove k) ⟨d, m, hk⟩
  obtain ⟨h1, _, h3, _⟩ := overlay_reads _ hi' k
  rw [h1, h3, hv]
  simp [stepF, eraseF, rdBytes, rdContains, hk0]

theorem overlay_removedir_wins (s : S) (hi : Inv s) (k : Key) (r : Bool) (hw : WfF (view s) (.removedir k r))
    (x : Key) (hx : k <+: x) :
    O.contains (O.step s (.removedir k r)) x = .ok false := by
  have hk0 : k ≠ [] := hw.1
  have hx0 : x ≠ [] := by
    intro e; subst e
    exact hk0 (List.prefix_nil.mp hx)
  obtain ⟨hv, hi', _⟩ := overlay_write s hi _ hw
  obtain ⟨h1, _⟩ := overlay_reads _ hi' x
  rw [h1, hv]
  simp [stepF, rmTreeF, rdContains, hx, hx0]

/-- frame: a key that is neither at, above nor below the key of the operation reads as before
(in particular: untouched keys keep the fall-back's content) -/
theorem overlay_frame (s : S) (hi : Inv s) (op : StoreOp) (hw : WfF (view s) op) (x : Key)
    (h1 : ¬ x <+: opKey op) (h2 : ¬ opKey op <+: x) :
    view (O.step s op) x = view s x := by
  obtain ⟨hv, _, _⟩ := overlay_write s hi op hw
  rw [hv]
  cases op with
  | store k d m =>
    have hxk : x ≠ k := fun e => h1 (e ▸ List.prefix_refl _)
    have hxa : x ∉ ancestors k := fun h => h1 ((mem_ancestors x k).mp h).2.1
    simp [stepF, storeF, setF, mkdirsF, hxk, hxa]
  | storeMeta k m =>
    have hxk : x ≠ k := fun e => h1 (e ▸ List.prefix_refl _)
    obtain ⟨d, m0, hk⟩ : ∃ d m, view s k = some (.file d m) := hw
    simp [stepF, hk, setF, hxk]
  | remove k =>
    have hxk : x ≠ k := fun e => h1 (e ▸ List.prefix_refl _)
    simp [stepF, eraseF, hxk]
  | removedir k r =>
    have : ¬ k <+: x := h2
    simp [stepF, rmTreeF, this]
  | makedir k =>
    have hxk : x ≠ k := fun e => h1 (e ▸ List.prefix_refl _)
    have hxa : x ∉ ancestors k := fun h => h1 ((mem_ancestors x k).mp h).2.1
    simp [stepF, mkdirsF, hxk, hxa]

/-- **Refinement, all histories**: if the view of `s` is represented by the tree `fs`, then after every
history that is well-formed for the specification store started at `fs`, the view of the overlay is
the content of the specification store after the same history; invariant and fall-back are kept. -/
theorem overlay_refines_spec (h : List StoreOp) : ∀ (s : S) (fs : FS), Inv s → TreeP fs → view s = fs.get →
    wfHist fs h = true →
    view (O.run s h) = (specOps.run fs h).get ∧ Inv (O.run s h) ∧ TreeP (specOps.run fs h) ∧
      (O.run s h).2.1 = s.2.1 := by
  induction h with
  | nil => intro s fs hi ht hv _; exact ⟨hv, hi, ht, rfl⟩
  | cons op rest ih =>
    intro s fs hi ht hv hw
    simp only [wfHist, Bool.and_eq_true] at hw
    have hwf : WfF fs.get op := wfF_of_wfOp fs op hw.1
    obtain ⟨g1, g2⟩ := spec_step_get fs op ht hwf
    obtain ⟨v1, v2, v3⟩ := overlay_write s hi op (hv ▸ hwf)
    have hv' : view (O.step s op) = (specOps.step fs op).get := by rw [v1, g1, hv]
    obtain ⟨r1, r2, r3, r4⟩ := ih (O.step s op) (specOps.step fs op) v2 g2 hv' hw.2
    refine ⟨r1, r2, r3, ?_⟩
    show (O.run (O.step s op) rest).2.1 = s.2.1
    rw [r4, v3]

/-- **C15, assembled**: an overlay freshly created over any tree-shaped fall-back `fs₀`, after any history
`h` well-formed for a store with content `fs₀`: every point read equals the read of the specification
store that ran `h` on a copy of `fs₀`, and the fall-back still is `fs₀`. -/
theorem overlay_copy_on_write (fs₀ : FS) (ht : fs₀.tree = true) (h : List StoreOp) (hw : wfHist fs₀ h = true) (k : Key) :
    let s := O.run (([] : FS), fs₀, ([] : List Key)) h
    let fs := specOps.run fs₀ h
    s.2.1 = fs₀ ∧
    O.contains s k = specOps.contains fs k ∧ O.isDir s k = specOps.isDir fs k ∧
    O.getBytes s k = specOps.getBytes fs k ∧ O.getMeta s k = specOps.getMeta fs k ∧
    (∃ l, O.listdir s k = .ok (some l) ∧ l.Nodup ∧ ∀ nm, nm ∈ l ↔ (fs.get (k ++ [nm])).isSome = true) ∧
    (∃ ks, O.keys s = .ok ks ∧ ks.Nodup ∧ ∀ x, x ∈ ks ↔ (fs.get x).isSome = true) := by
  intro s fs
  obtain ⟨r1, r2, _, r4⟩ := overlay_refines_spec h _ fs₀ (overlay_inv_init fs₀ ht) (treeP_of_tree fs₀ ht)
    (overlay_view_init fs₀) hw
  obtain ⟨a, b, c, d⟩ := overlay_reads_eq_spec s r2 fs r1 k
  obtain ⟨_, _, _, _, e, f⟩ := overlay_reads s r2 k
  refine ⟨r4, a, b, c, d, ?_, ?_⟩
  · rw [r1] at e; exact e
  · rw [r1] at f; exact f

/-! ### non-vacuity and concrete behaviour (the D5 witnesses, on the model of the fixed code) -/

def kab : Key := [['a'], ['b']]
def ka : Key := [['a']]
def kan : Key := [['a'], ['n']]
def kc : Key := [['c']]
def um (c : Char) : UMeta := { user := [c] }
/-- fall-back {a/b, c} -/
def fb : FS := specOps.run [] [.store kab [1] (um 'x'), .store kc [2] (um 'y')]
def s0 : S := (([] : FS), fb, ([] : List Key))
def hist : List StoreOp :=
  [.remove kab, .removedir ka true, .store kan [3] (um 'z'), .storeMeta kc (um 'w'), .makedir [['g']], .removedir [['g']] false]

example : fb.tree = true := by decide
example : wfHist fb hist = true := by decide
example : Inv s0 := overlay_inv_init fb (by decide)
example : WfF (view s0) (.remove kab) := ⟨[1], { user := ['x'], size := some 1, md5 := some [1] }, by decide⟩
example : WfF (view s0) (.removedir ka true) := ⟨by decide, by decide, Or.inl rfl⟩
-- D5a: a removed key is not readable
example : O.getBytes (O.run s0 [.remove kab]) kab = .error .keyNotFound := by decide
-- D5b: a recursively removed fall-back directory is masked, also when the overlay had written below it
example : O.contains (O.run s0 [.store kan [3] (um 'z'), .removedir ka true]) ka = .ok false := by decide
-- re-creation below a removed directory brings the directory back, not its old content
example : O.contains (O.run s0 [.removedir ka true, .store kan [3] (um 'z')]) ka = .ok true := by decide
example : O.contains (O.run s0 [.removedir ka true, .store kan [3] (um 'z')]) kab = .ok false := by decide
-- copy-up on a metadata update
example : O.getBytes (O.run s0 [.storeMeta kc (um 'w')]) kc = .ok [2] := by decide
example : (O.run s0 hist).2.1 = fb := by decide

end Liquer.C15

-- OBLIGATIONS: Liquer.C15.overlay_fallback_immutable Liquer.C15.overlay_fallback_immutable_apply Liquer.C15.overlay_fallback_immutable_run Liquer.C15.overlay_inv_init Liquer.C15.overlay_view_init Liquer.C15.overlay_reads Liquer.C15.overlay_reads_eq_spec Liquer.C15.overlay_write Liquer.C15.overlay_write_ok Liquer.C15.stepF_is_spec Liquer.C15.overlay_store_wins Liquer.C15.overlay_remove_wins Liquer.C15.overlay_removedir_wins Liquer.C15.overlay_frame Liquer.C15.overlay_refines_spec Liquer.C15.overlay_copy_on_write
