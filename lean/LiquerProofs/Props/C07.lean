/-
C07 — Store contract.

Part (i): the contract is a set of theorems about the reference store `specOps` on every tree state
(`fs.tree`), which is an invariant of every well-formed history (`spec_tree`).
Part (ii): the model of `MemoryStore` refines the reference store on every well-formed history
(`mem_refines`), the proxies are the identity (`proxy_refines`); the model of `FileStore` (a POSIX tree with
`__metadata__/<name>.json` sibling files) refines it on every well-formed history over keys with plain components
(`file_refines`, simulation `SimF` of `LiquerProofs/Lemmas/StoreFileRef*.lean`), and never fails there
(`file_never_fails`).

Reads are pure *by construction*: `getBytes`, `getMeta`, `contains`, `isDir`, `keys`, `listdir` of a
`StoreOps σ` return a value and no state, so no read can change what a later operation sees
(for the implementation this is the `reads-pure` clause of the harness oracle).
-/
import LiquerProofs.Lemmas.StoreSpec
import LiquerProofs.Lemmas.StoreMem
import LiquerProofs.Lemmas.StoreFileRef3
import LiquerModel.StoreFile
import LiquerModel.StoreProxy

namespace Liquer.C07
open Liquer

/-! ### (i) the contract on the reference store -/

/-- what `store k d m` leaves at `k` -/
theorem spec_store_get (fs : FS) (k : Key) (d : Data) (m : UMeta) :
    (specOps.step fs (.store k d m)).get k = some (.file d { m with size := some d.length, md5 := some d }) := by
  simp only [StoreOps.step, StoreOps.apply, specOps]
  rw [FS.get_set]; simp

/-- **read-back**: after `store k d m` the same bytes are read and the metadata describe what was stored:
key, name, not a directory, size, checksum (`md5` is modelled as the data itself), and the caller's fields. -/
theorem spec_store_read (fs : FS) (k : Key) (d : Data) (m : UMeta) :
    specOps.getBytes (specOps.step fs (.store k d m)) k = .ok d ∧
    specOps.getMeta (specOps.step fs (.store k d m)) k =
      .ok { key := k, name := keyName k, isDir := false, size := some d.length, md5 := some d, user := m.user } := by
  have h := spec_store_get fs k d m
  generalize specOps.step fs (.store k d m) = fs' at h
  simp [specOps, h]

/-- the tree invariant is kept by every well-formed operation … -/
theorem spec_tree_step (fs : FS) (op : StoreOp) (ht : fs.tree = true) (hwf : wfOp fs op = true) :
    (specOps.step fs op).tree = true :=
  (FS.tree_iff _).mpr (Liquer.spec_tree_step ((FS.tree_iff fs).mp ht) op hwf)

/-- … hence by every well-formed history, of any length -/
theorem spec_tree (fs : FS) (h : List StoreOp) (ht : fs.tree = true) (hwf : wfHist fs h = true) :
    (specOps.run fs h).tree = true :=
  (FS.tree_iff _).mpr (Liquer.spec_tree_run ((FS.tree_iff fs).mp ht) h hwf)

theorem spec_reachable_tree (h : List StoreOp) (hwf : wfHist [] h = true) : (specOps.run [] h).tree = true :=
  spec_tree [] h (by decide) hwf

/-- **presence**: after a well-formed `store k …` the key and all its ancestors are contained, the ancestors
are directories and the key is not -/
theorem spec_store_present (fs : FS) (k : Key) (d : Data) (m : UMeta) (ht : fs.tree = true)
    (hwf : wfOp fs (.store k d m) = true) :
    specOps.contains (specOps.step fs (.store k d m)) k = .ok true ∧
    specOps.isDir (specOps.step fs (.store k d m)) k = .ok false ∧
    ∀ a ∈ ancestors k, specOps.contains (specOps.step fs (.store k d m)) a = .ok true ∧
                       specOps.isDir (specOps.step fs (.store k d m)) a = .ok true := by
  have hT := (FS.tree_iff _).mp (spec_tree_step fs _ ht hwf)
  have h := spec_store_get fs k d m
  generalize specOps.step fs (.store k d m) = fs' at h hT
  have hs : (fs'.get k).isSome = true := by simp [h]
  have hk : k ≠ [] := hT.nonroot k hs
  have hke : k.isEmpty = false := by simpa using hk
  refine ⟨?_, ?_, ?_⟩
  · simp [specOps, FS.containsB, h]
  · simp [specOps, FS.isDirB, h, hke]
  · intro a ha
    have := hT.anc k hs a ha
    simp [specOps, FS.containsB, FS.isDirB, this]

/-- **exactly once**: in every tree state a contained key occurs exactly once in `keys()`, its parent is a
directory and lists its name exactly once -/
theorem spec_listed_once (fs : FS) (q : Key) (ht : fs.tree = true) (hq : q ≠ [])
    (hc : specOps.contains fs q = .ok true) :
    (∃ ks, specOps.keys fs = .ok ks ∧ ks.count q = 1) ∧
    (∃ l, specOps.listdir fs (parentKey q) = .ok (some l) ∧ l.count (keyName q) = 1) := by
  have hT := (FS.tree_iff _).mp ht
  have hqe : q.isEmpty = false := by simpa using hq
  have hs : (fs.get q).isSome = true := by
    simpa [specOps, FS.containsB, hqe] using hc
  obtain ⟨h1, h2, h3⟩ := Liquer.spec_listed_once hT hs
  refine ⟨⟨_, rfl, h1⟩, ⟨fs.children (parentKey q), ?_, h3⟩⟩
  simp [specOps, h2]

/-- … in particular after a well-formed `store k …`, for `k` and every ancestor of `k` -/
theorem spec_store_once (fs : FS) (k : Key) (d : Data) (m : UMeta) (ht : fs.tree = true)
    (hwf : wfOp fs (.store k d m) = true) :
    ∀ a ∈ ancestors k ++ [k],
      (∃ ks, specOps.keys (specOps.step fs (.store k d m)) = .ok ks ∧ ks.count a = 1) ∧
      (∃ l, specOps.listdir (specOps.step fs (.store k d m)) (parentKey a) = .ok (some l) ∧ l.count (keyName a) = 1) := by
  intro a ha
  have ht' := spec_tree_step fs _ ht hwf
  obtain ⟨hp1, _, hp3⟩ := spec_store_present fs k d m ht hwf
  have hk : k ≠ [] := by
    simp only [wfOp, Bool.and_eq_true, Bool.not_eq_true', List.isEmpty_eq_false_iff] at hwf
    exact hwf.1.1
  rcases List.mem_append.mp ha with h | h
  · exact spec_listed_once _ a ht' (ancestors_ne_nil h) (hp3 a h).1
  · simp at h; subst h
    exact spec_listed_once _ a ht' hk hp1

/-- **removal**: after a well-formed `remove k` the key is gone and reading it fails -/
theorem spec_remove (fs : FS) (k : Key) (ht : fs.tree = true) (hwf : wfOp fs (.remove k) = true) :
    specOps.contains (specOps.step fs (.remove k)) k = .ok false ∧
    specOps.getBytes (specOps.step fs (.remove k)) k = .error .keyNotFound ∧
    specOps.getMeta (specOps.step fs (.remove k)) k = .error .keyNotFound ∧
    (∃ ks, specOps.keys (specOps.step fs (.remove k)) = .ok ks ∧ k ∉ ks) := by
  have hT := (FS.tree_iff _).mp ht
  simp only [wfOp] at hwf
  obtain ⟨d0, m0, hk⟩ := isFile_cases hwf
  have hne : k ≠ [] := hT.nonroot k (by simp [hk])
  have hke : k.isEmpty = false := by simpa using hne
  have hg : (specOps.step fs (.remove k)).get k = none := by
    simp only [StoreOps.step, StoreOps.apply, specOps]
    rw [FS.get_erase]; simp
  refine ⟨?_, ?_, ?_, ⟨_, rfl, ?_⟩⟩
  · generalize specOps.step fs (.remove k) = fs' at hg
    simp [specOps, FS.containsB, hg, hke]
  · generalize specOps.step fs (.remove k) = fs' at hg
    simp [specOps, hg]
  · generalize specOps.step fs (.remove k) = fs' at hg
    simp [specOps, hg, hne]
  · rw [FS.mem_keys_iff, hg]; simp

/-- removal of a directory (recursive, or empty): the key and everything below it is gone -/
theorem spec_removedir (fs : FS) (k : Key) (r : Bool) (ht : fs.tree = true) (hwf : wfOp fs (.removedir k r) = true)
    (q : Key) (hq : k <+: q) :
    specOps.contains (specOps.step fs (.removedir k r)) q = .ok false := by
  have hT := (FS.tree_iff _).mp ht
  simp only [wfOp, Bool.and_eq_true, Bool.not_eq_true', List.isEmpty_eq_false_iff, beq_iff_eq, Bool.or_eq_true] at hwf
  obtain ⟨⟨hk, hd⟩, hr⟩ := hwf
  have hke : k.isEmpty = false := by simpa using hk
  have hqe : q.isEmpty = false := by
    cases q with
    | nil => exact absurd (List.prefix_nil.mp hq) hk
    | cons _ _ => rfl
  cases r with
  | true =>
    simp only [StoreOps.step, StoreOps.apply, specOps, hke, Bool.false_eq_true, ↓reduceIte, FS.containsB, hqe, Bool.false_or]
    rw [FS.get_filter_key (fun q => !(k.isPrefixOf q))]
    have : k.isPrefixOf q = true := List.isPrefixOf_iff_prefix.mpr hq
    simp [this]
  | false =>
    have hc : (fs.children k).isEmpty = true := by simpa using hr
    simp only [StoreOps.step, StoreOps.apply, specOps, hke, Bool.false_eq_true, ↓reduceIte, hc, FS.containsB, hqe, Bool.false_or]
    rw [FS.get_erase]
    by_cases e : q = k
    · simp [e]
    · have hkq : k ∈ ancestors q := (mem_ancestors k q).mpr ⟨hk, hq, fun e' => e e'.symm⟩
      simp [e, hT.no_descendants hc hkq]

/-- **frame**: an operation on `k` leaves everything observable about `k'` unchanged unless `k'` is `k`, an ancestor
of `k` (a prefix, including the root) or a descendant of `k` (an extension) -/
theorem spec_frame (fs : FS) (op : StoreOp) (k' : Key) (h : ¬ (k' <+: op.key ∨ op.key <+: k')) :
    specOps.obs (specOps.step fs op) k' = specOps.obs fs k' :=
  spec_frame_obs fs op k' h

/-- the frame lifted to histories: keys unrelated to every operation of the history are untouched -/
theorem spec_frame_run (fs : FS) (h : List StoreOp) (k' : Key)
    (hk : ∀ op ∈ h, ¬ (k' <+: op.key ∨ op.key <+: k')) :
    specOps.obs (specOps.run fs h) k' = specOps.obs fs k' := by
  induction h generalizing fs with
  | nil => rfl
  | cons op rest ih =>
    simp only [StoreOps.run, List.foldl_cons]
    have := ih (specOps.step fs op) (fun o ho => hk o (List.mem_cons_of_mem _ ho))
    simp only [StoreOps.run] at this
    rw [this, spec_frame fs op k' (hk op List.mem_cons_self)]

/-! non-vacuity of the hypotheses of part (i) -/
example : FS.tree [] = true ∧ wfOp [] (.store [['a'], ['b']] [1, 2] { user := ['u'] }) = true := by decide
example : wfHist [] [.store [['a'], ['b']] [1] { user := ['u'] }, .storeMeta [['a'], ['b']] { user := ['v'] },
    .makedir [['a'], ['c']], .remove [['a'], ['b']], .removedir [['a'], ['c']] false, .removedir [['a']] true] = true := by decide
example : wfOp (specOps.step [] (.store [['a'], ['b']] [1] { user := ['u'] })) (.remove [['a'], ['b']]) = true := by decide
example : wfOp (specOps.step [] (.makedir [['a'], ['b']])) (.removedir [['a']] true) = true := by decide
-- the frame has instances: `e` is unrelated to `a/b`
example : ¬ ([['e']] <+: (StoreOp.store [['a'], ['b']] [1] { user := [] }).key ∨
             (StoreOp.store [['a'], ['b']] [1] { user := [] }).key <+: [['e']]) := by decide
-- ill-formed operations are really excluded: storing below a file
example : wfOp (specOps.step [] (.store [['a']] [1] { user := [] })) (.store [['a'], ['b']] [1] { user := [] }) = false := by decide

/-! ### (ii) the back-ends agree with the reference store -/

/-- all keys of the history consist of non-empty components (keys are `/`-separated strings without empty parts) -/
def normalHist (h : List StoreOp) : Prop := ∀ op ∈ h, ∀ c ∈ op.key, c ≠ []

/-- **`MemoryStore` refines the reference store**: after every well-formed history (any length) every key shows the same
`contains`, `is_dir`, bytes, metadata fields and the same directory listing up to order, and `keys()` lists the same
keys up to order.  (`ObsEquiv`, `keysEquiv`: `LiquerProofs/Lemmas/StoreMem.lean`.) -/
theorem mem_refines (h : List StoreOp) (hwf : wfHist [] h = true) (hn : normalHist h) (k : Key) :
    ObsEquiv (memOps.obs (memOps.run memInit h) k) (specOps.obs (specOps.run [] h) k) ∧
    keysEquiv (memOps.keys (memOps.run memInit h)) (specOps.keys (specOps.run [] h)) := by
  have hs := sim_run sim_init FS.tree_nil h hwf
  have ht := spec_tree_run FS.tree_nil h hwf
  exact ⟨hs.obsEquiv ht (normal_run normal_nil h hn) k, hs.keysEquiv ht⟩

/-- after every prefix of a well-formed history the next operation of the memory store succeeds -/
theorem mem_never_fails (h : List StoreOp) (op : StoreOp) (hwf : wfHist [] (h ++ [op]) = true) :
    ∃ s', memOps.apply (memOps.run memInit h) op = .ok s' := by
  have hsplit : ∀ (fs : FS) (h : List StoreOp), wfHist fs (h ++ [op]) = true →
      wfHist fs h = true ∧ wfOp (specOps.run fs h) op = true := by
    intro fs h
    induction h generalizing fs with
    | nil => intro hw; simpa [wfHist, StoreOps.run] using hw
    | cons o rest ih =>
      intro hw
      simp only [List.cons_append, wfHist, Bool.and_eq_true] at hw
      obtain ⟨h1, h2⟩ := ih _ hw.2
      exact ⟨by simp [wfHist, hw.1, h1], by simpa [StoreOps.run] using h2⟩
  obtain ⟨h1, h2⟩ := hsplit [] h hwf
  exact mem_step_ok (sim_run sim_init FS.tree_nil h h1) (spec_tree_run FS.tree_nil h h1) op h2

/-- the abstraction function: the memory state reached by a well-formed history *is* (binding by binding) the
specification state reached by the same history -/
theorem mem_abs (h : List StoreOp) (hwf : wfHist [] h = true) (k : Key) :
    (absMem (memOps.run memInit h)).get k = (specOps.run [] h).get k :=
  absMem_get (sim_run sim_init FS.tree_nil h hwf) k

-- non-vacuity: a normal well-formed history with nested keys, overwrite, metadata update and recursive removal
example : wfHist [] [.store [['a'], ['b'], ['d']] [1] { user := ['u'] }, .store [['a'], ['b'], ['d']] [] { user := ['v'] },
    .storeMeta [['a'], ['b'], ['d']] { user := ['w'] }, .removedir [['a'], ['b']] true] = true := by decide
example : normalHist [.store [['a'], ['b'], ['d']] [1] { user := ['u'] }, .removedir [['a'], ['b']] true] := by
  intro op hop c hc
  simp only [List.mem_cons, List.not_mem_nil, or_false] at hop
  rcases hop with rfl | rfl <;> simp [StoreOp.key] at hc <;> rcases hc with rfl | rfl | rfl <;> simp

/-- `ProxyStore` / `IndexerStore` (on the observed fields): the identity -/
theorem proxy_refines {σ : Type} (S : StoreOps σ) : proxyOps S = S := by
  cases S; rfl

/-- observations agree up to the order of listings and the kind of failure of `get_bytes`
(`FileStore.get_bytes` of a directory raises `IsADirectoryError`, the reference store `KeyNotFound`) -/
structure ObsEquivF (a b : KeyObs) : Prop where
  contains : a.contains = b.contains
  isDir : a.isDir = b.isDir
  bytes : (∃ d, a.bytes = .ok d ∧ b.bytes = .ok d) ∨ (∃ e e', a.bytes = .error e ∧ b.bytes = .error e')
  metadata : a.metadata = b.metadata
  listdir : listingEquiv a.listdir b.listdir

/-- keys a `FileStore` history may use: components that are non-empty, not `.`, `..` or the reserved folder name -/
def plainComponent (c : Str) : Prop := c ≠ [] ∧ c ≠ dot ∧ c ≠ dotdot ∧ c ≠ metaDirName

/-- **`FileStore` refines the reference store**: for every root directory, after every well-formed history (any
length) over keys with plain components, every plain key shows the same `contains`, `is_dir`, metadata fields, the
same bytes (or a failure on both sides), the same directory listing up to order (the `__metadata__` folders are never
listed), and `keys()` succeeds and lists the same keys up to order.  The proof is the simulation `SimF`
(`LiquerProofs/Lemmas/StoreFileRef.lean`): every file of the reference state is a data file at `path_for_key` plus a
metadata file at `metadata_path_for_key`, every directory a directory node, and there is nothing else below the root
except `__metadata__` folders inside existing directories. -/
theorem file_refines (root : Path) (h : List StoreOp) (hwf : wfHist [] h = true)
    (hn : ∀ op ∈ h, ∀ c ∈ op.key, plainComponent c) (k : Key) (hk : ∀ c ∈ k, plainComponent c) :
    ObsEquivF ((fileOps root).obs ((fileOps root).run (fileInit root) h) k) (specOps.obs (specOps.run [] h) k) ∧
    (∃ ks, (fileOps root).keys ((fileOps root).run (fileInit root) h) = .ok ks ∧
           ks.Perm ((specOps.run [] h).map (·.1))) := by
  have hs := simF_run (simF_init root) plainFS_nil FS.tree_nil h hn hwf
  have ht := spec_tree_run FS.tree_nil h hwf
  have hp := plain_run plainFS_nil h hn
  obtain ⟨o1, o2, o3, o4, o5⟩ := hs.obs hp ht (k := k) hk
  exact ⟨⟨o1, o2, o3, o4, o5⟩, hs.keys_perm hp ht⟩

/-- after every prefix of a well-formed history over plain keys the next operation of the `FileStore` model succeeds
(no `IsADirectoryError`, `NotADirectoryError`, non-empty `rmdir`, or exhausted fuel) -/
theorem file_never_fails (root : Path) (h : List StoreOp) (op : StoreOp) (hwf : wfHist [] (h ++ [op]) = true)
    (hn : ∀ o ∈ h ++ [op], ∀ c ∈ o.key, plainComponent c) :
    ∃ s', (fileOps root).apply ((fileOps root).run (fileInit root) h) op = .ok s' := by
  have hsplit : ∀ (fs : FS) (h : List StoreOp), wfHist fs (h ++ [op]) = true →
      wfHist fs h = true ∧ wfOp (specOps.run fs h) op = true := by
    intro fs h
    induction h generalizing fs with
    | nil => intro hw; simpa [wfHist, StoreOps.run] using hw
    | cons o rest ih =>
      intro hw
      simp only [List.cons_append, wfHist, Bool.and_eq_true] at hw
      obtain ⟨h1, h2⟩ := ih _ hw.2
      exact ⟨by simp [wfHist, hw.1, h1], by simpa [StoreOps.run] using h2⟩
  obtain ⟨h1, h2⟩ := hsplit [] h hwf
  have hnh : ∀ o ∈ h, PlainKey o.key := fun o ho => hn o (List.mem_append_left _ ho)
  exact file_step_ok (simF_run (simF_init root) plainFS_nil FS.tree_nil h hnh h1) (plain_run plainFS_nil h hnh)
    (spec_tree_run FS.tree_nil h h1) op (hn op (by simp)) h2

-- non-vacuity: a plain well-formed history with a nested key, an overwrite, a metadata update, a removal and a
-- recursive removal; the model's own observations (computed, not derived from the theorem)
def fileDemo : List StoreOp :=
  [.store [['a'], ['b'], ['d']] [1] { user := ['u'] }, .store [['a'], ['b'], ['d']] [2, 3] { user := ['v'] },
   .store [['a'], ['e']] [4] { user := ['w'] }, .storeMeta [['a'], ['e']] { user := ['x'] },
   .remove [['a'], ['b'], ['d']], .makedir [['a'], ['c']], .removedir [['a'], ['b']] true]

example : wfHist [] fileDemo = true := by decide
example : ∀ op ∈ fileDemo, ∀ c ∈ op.key, plainComponent c := by
  intro op hop c hc
  simp only [fileDemo, List.mem_cons, List.not_mem_nil, or_false] at hop
  rcases hop with rfl | rfl | rfl | rfl | rfl | rfl | rfl <;> simp [StoreOp.key] at hc <;>
    (try rcases hc with rfl | rfl | rfl) <;> (try rcases hc with rfl | rfl) <;> (try subst hc) <;>
    exact ⟨by decide, by decide, by decide, by decide⟩
example : ((fileOps [['r']]).getBytes ((fileOps [['r']]).run (fileInit [['r']]) (fileDemo.take 3)) [['a'], ['b'], ['d']]).toOption
    = some [2, 3] := by decide +kernel
example : ((fileOps [['r']]).keys ((fileOps [['r']]).run (fileInit [['r']]) fileDemo)).toOption
    = some [[['a']], [['a'], ['c']], [['a'], ['e']]] := by decide +kernel
example : ((fileOps [['r']]).contains ((fileOps [['r']]).run (fileInit [['r']]) fileDemo) [['a'], ['b'], ['d']]).toOption
    = some false := by decide +kernel
example : ((fileOps [['r']]).getMeta ((fileOps [['r']]).run (fileInit [['r']]) fileDemo) [['a'], ['e']]).toOption
    = some { key := [['a'], ['e']], name := ['e'], isDir := false, size := none, md5 := none, user := ['x'] } := by
  decide +kernel
-- … and the reference store shows the same (`file_refines` says so for every history)
example : (specOps.keys (specOps.run [] fileDemo)).toOption = some [[['a'], ['c']], [['a'], ['e']], [['a']]] := by decide +kernel

end Liquer.C07

-- OBLIGATIONS: Liquer.C07.spec_store_read Liquer.C07.spec_store_present Liquer.C07.spec_listed_once Liquer.C07.spec_store_once Liquer.C07.spec_remove Liquer.C07.spec_removedir Liquer.C07.spec_frame Liquer.C07.spec_frame_run Liquer.C07.spec_tree_step Liquer.C07.spec_tree Liquer.C07.spec_reachable_tree
-- OBLIGATIONS: Liquer.C07.mem_refines Liquer.C07.mem_never_fails Liquer.C07.mem_abs Liquer.C07.proxy_refines
-- OBLIGATIONS: Liquer.C07.file_refines Liquer.C07.file_never_fails
